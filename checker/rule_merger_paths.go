package main

// Path and condition helpers of the merger rules (R13c/R13d/R13o).
//
//  * branchFact / pathQuery: a small path explorer that understands what a branch means — it
//    looks through `!`, through the phi go/ssa builds for a named `a && b` / `a || b`, and
//    prunes edges a constant makes infeasible. A rule states which edges or instructions settle
//    a path and which places must not be reached unsettled; the order of conjuncts, a named
//    condition or a moved statement do not change the answer.
//  * resolveCmp / resolveGuard: a boolean (or an error result) that stands for "these two
//    things agree", directly or through a helper predicate / a helper that returns an error.

import (
	"fmt"
	"go/constant"
	"go/token"
	"go/types"
	"sort"
	"strings"

	"golang.org/x/tools/go/ssa"
)

// trackedPhis: boolean phis outside loop headers that are used as a branch condition in a block
// other than their own (a named condition tested later): the explorer remembers which incoming
// value a path gave them.
func trackedPhis(fn *ssa.Function) map[*ssa.Phi]bool {
	out := map[*ssa.Phi]bool{}
	for _, b := range fn.Blocks {
		if len(b.Instrs) == 0 {
			continue
		}
		iff, ok := b.Instrs[len(b.Instrs)-1].(*ssa.If)
		if !ok {
			continue
		}
		c := iff.Cond
		for {
			if n, ok := c.(*ssa.UnOp); ok && n.Op == token.NOT {
				c = n.X
				continue
			}
			break
		}
		if phi, ok := c.(*ssa.Phi); ok && phi.Block() != b && len(naturalLoop(phi.Block())) == 0 {
			out[phi] = true
		}
	}
	return out
}

func predIndex(b, pred *ssa.BasicBlock) int {
	if pred == nil {
		return -1
	}
	for i, p := range b.Preds {
		if p == pred {
			return i
		}
	}
	return -1
}

// branchFact: leaving b (entered from pred) through successor k means `atom` has the value
// `truth`. atom is nil when the block does not branch on a condition or the condition is a
// constant; feasible is false when a constant condition excludes this edge.
func branchFact(b, pred *ssa.BasicBlock, k int, env map[*ssa.Phi]ssa.Value) (atom ssa.Value, truth, feasible bool) {
	if len(b.Instrs) == 0 {
		return nil, false, true
	}
	iff, ok := b.Instrs[len(b.Instrs)-1].(*ssa.If)
	if !ok {
		return nil, false, true
	}
	c := iff.Cond
	truth = k == 0
	for depth := 0; depth < 8; depth++ {
		if n, ok := c.(*ssa.UnOp); ok && n.Op == token.NOT {
			c = n.X
			truth = !truth
			continue
		}
		if phi, ok := c.(*ssa.Phi); ok {
			if phi.Block() == b {
				if i := predIndex(b, pred); i >= 0 && i < len(phi.Edges) {
					c = phi.Edges[i]
					continue
				}
			} else if v, ok := env[phi]; ok && v != nil {
				c = v
				continue
			}
		}
		break
	}
	if k, ok := c.(*ssa.Const); ok && k.Value != nil && k.Value.Kind() == constant.Bool {
		return nil, truth, constant.BoolVal(k.Value) == truth
	}
	return c, truth, true
}

// pathQuery: is there a path from a starting block to a forbidden place that no settling edge
// or instruction lies on?
type pathQuery struct {
	settleEdge func(atom ssa.Value, truth bool) bool // taking an edge with this meaning settles the path
	settleIns  func(ins ssa.Instruction) bool        // executing this instruction settles the path
	settleAt   func(b *ssa.BasicBlock) bool          // entering this block settles the path
	badBlock   func(b *ssa.BasicBlock) bool          // entering this block unsettled is a counterexample
	badRet     func(ret *ssa.Return) bool            // returning here unsettled is a counterexample
}

// run explores from the entry of start (reached from pred, which may be nil). It returns the
// instruction at which an unsettled path ends, or nil when every path is settled. The forbidden
// test is not applied to the starting block itself.
func (q *pathQuery) run(start, pred *ssa.BasicBlock) ssa.Instruction {
	tracked := trackedPhis(start.Parent())
	type state struct {
		b, pred *ssa.BasicBlock
		env     string
	}
	seen := map[state]bool{}
	budget := 50000
	var witness ssa.Instruction
	envKey := func(env map[*ssa.Phi]ssa.Value) string {
		if len(env) == 0 {
			return ""
		}
		var parts []string
		for p, v := range env {
			parts = append(parts, fmt.Sprintf("%s=%s", p.Name(), v.Name()))
		}
		sort.Strings(parts)
		return strings.Join(parts, ",")
	}
	var visit func(b, pred *ssa.BasicBlock, env map[*ssa.Phi]ssa.Value, first bool) bool
	visit = func(b, pred *ssa.BasicBlock, env map[*ssa.Phi]ssa.Value, first bool) bool {
		budget--
		if budget < 0 {
			if len(b.Instrs) > 0 {
				witness = b.Instrs[0]
			}
			return false // too many paths: fail closed
		}
		if !first {
			if q.settleAt != nil && q.settleAt(b) {
				return true
			}
			if q.badBlock != nil && q.badBlock(b) {
				if len(b.Instrs) > 0 {
					witness = b.Instrs[0]
				}
				return false
			}
		}
		st := state{b, pred, envKey(env)}
		if seen[st] {
			return true
		}
		seen[st] = true
		for _, ins := range b.Instrs {
			if q.settleIns != nil && q.settleIns(ins) {
				return true
			}
			switch x := ins.(type) {
			case *ssa.Return:
				if q.badRet != nil && q.badRet(x) {
					witness = x
					return false
				}
				return true
			case *ssa.Panic:
				return true
			}
		}
		for k, s := range b.Succs {
			atom, truth, feasible := branchFact(b, pred, k, env)
			if !feasible {
				continue
			}
			if atom != nil && q.settleEdge != nil && q.settleEdge(atom, truth) {
				continue
			}
			env2 := env
			for _, ins := range s.Instrs {
				phi, ok := ins.(*ssa.Phi)
				if !ok {
					break
				}
				if tracked[phi] {
					if i := predIndex(s, b); i >= 0 && i < len(phi.Edges) {
						if len(env2) == len(env) {
							env2 = map[*ssa.Phi]ssa.Value{}
							for p, v := range env {
								env2[p] = v
							}
						}
						env2[phi] = phi.Edges[i]
					}
				}
			}
			if !visit(s, b, env2, false) {
				return false
			}
		}
		return true
	}
	if visit(start, pred, nil, true) {
		return nil
	}
	if witness == nil && len(start.Instrs) > 0 {
		witness = start.Instrs[0]
	}
	return witness
}

func isNilErrReturn(ret *ssa.Return) bool {
	vals := retVals(ret)
	if len(vals) == 0 {
		return true
	}
	return isNilConst(unwrap(vals[len(vals)-1]))
}

// copyOrigin: the value a definition was copied from. `nvb := *vb` makes nvb a fresh cell whose
// only store is a load of vb: a comparison of nvb with vb compares a definition with itself.
func copyOrigin(v ssa.Value) ssa.Value {
	for depth := 0; depth < 6; depth++ {
		v = unwrap(v)
		al, ok := v.(*ssa.Alloc)
		if !ok {
			return v
		}
		var src ssa.Value
		n := 0
		for _, ref := range *al.Referrers() {
			if st, ok := ref.(*ssa.Store); ok && st.Addr == ssa.Value(al) {
				n++
				if ld, ok := st.Val.(*ssa.UnOp); ok && ld.Op == token.MUL {
					src = ld.X
				}
			}
		}
		if n != 1 || src == nil {
			return v
		}
		v = src
	}
	return v
}

// agreeFact: a boolean that is true exactly when x and y agree (eq) or exactly when they do not.
type agreeFact struct {
	x, y ssa.Value
	eq   bool
}

// resolveCmp resolves a boolean value to a comparison recognised by atom: the comparison
// itself, its negation, or a call of a module predicate whose every answer is such a comparison
// of two of its parameters (the parameters are replaced by the arguments of the call).
func resolveCmp(v ssa.Value, atom func(bo *ssa.BinOp) (x, y ssa.Value, ok bool), depth int) *agreeFact {
	if depth > 3 {
		return nil
	}
	switch c := v.(type) {
	case *ssa.UnOp:
		if c.Op == token.NOT {
			if f := resolveCmp(c.X, atom, depth); f != nil {
				return &agreeFact{f.x, f.y, !f.eq}
			}
		}
	case *ssa.BinOp:
		if c.Op != token.EQL && c.Op != token.NEQ {
			return nil
		}
		if x, y, ok := atom(c); ok {
			return &agreeFact{x, y, c.Op == token.EQL}
		}
	case *ssa.Call:
		sc := c.Call.StaticCallee()
		if sc == nil || !inModule(sc) || sc.Blocks == nil || c.Call.IsInvoke() {
			return nil
		}
		var out *agreeFact
		for _, ret := range returnsOf(sc) {
			vals := retVals(ret)
			if len(vals) != 1 {
				return nil
			}
			f := resolveCmp(vals[0], atom, depth+1)
			if f == nil {
				return nil
			}
			x, y := argOfParam(sc, c, f.x), argOfParam(sc, c, f.y)
			if x == nil || y == nil {
				return nil
			}
			g := &agreeFact{x, y, f.eq}
			if out != nil && (out.eq != g.eq || out.x != g.x || out.y != g.y) {
				return nil
			}
			out = g
		}
		return out
	}
	return nil
}

// argOfParam: the argument the call passes for the callee's parameter v (after copyOrigin).
func argOfParam(callee *ssa.Function, call *ssa.Call, v ssa.Value) ssa.Value {
	v = copyOrigin(v)
	for i, p := range callee.Params {
		if ssa.Value(p) == v && i < len(call.Call.Args) {
			return call.Call.Args[i]
		}
	}
	return nil
}

// agreeGuard: a branch of fn on whose `same` side two things are known to agree and on whose `diff`
// side they may not.
type agreeGuard struct {
	iff        *ssa.If
	diff, same *ssa.BasicBlock
	x, y       ssa.Value
}

// resolveGuard understands `if cmp`, `if !cmp`, `if !same(a, b)` and
// `if err := check(a, b); err != nil` where check returns a non-nil error whenever its own
// comparison of the two parameters fails and nil only where it held.
func resolveGuard(iff *ssa.If, atom func(bo *ssa.BinOp) (x, y ssa.Value, ok bool)) *agreeGuard {
	s0, s1 := iff.Block().Succs[0], iff.Block().Succs[1]
	if f := resolveCmp(iff.Cond, atom, 0); f != nil {
		if f.eq {
			return &agreeGuard{iff, s1, s0, f.x, f.y}
		}
		return &agreeGuard{iff, s0, s1, f.x, f.y}
	}
	// error-returning helper
	c := iff.Cond
	neg := false
	for {
		if n, ok := c.(*ssa.UnOp); ok && n.Op == token.NOT {
			c, neg = n.X, !neg
			continue
		}
		break
	}
	bo, ok := c.(*ssa.BinOp)
	if !ok || (bo.Op != token.EQL && bo.Op != token.NEQ) {
		return nil
	}
	var tested ssa.Value
	switch {
	case isNilConst(bo.Y):
		tested = bo.X
	case isNilConst(bo.X):
		tested = bo.Y
	default:
		return nil
	}
	tested = unwrap(tested)
	resIdx := 0
	if ex, ok := tested.(*ssa.Extract); ok {
		resIdx = ex.Index
		tested = ex.Tuple
	}
	call, ok := tested.(*ssa.Call)
	if !ok {
		return nil
	}
	sc := call.Call.StaticCallee()
	if sc == nil || !inModule(sc) || sc.Blocks == nil || call.Call.IsInvoke() {
		return nil
	}
	res := sc.Signature.Results()
	if resIdx >= res.Len() || resIdx != res.Len()-1 || !isErrorish(res.At(resIdx).Type()) {
		return nil
	}
	for _, ins := range allInstrs(sc) {
		iff2, ok := ins.(*ssa.If)
		if !ok {
			continue
		}
		f := resolveCmp(iff2.Cond, atom, 1)
		if f == nil {
			continue
		}
		diff, same := iff2.Block().Succs[0], iff2.Block().Succs[1]
		if f.eq {
			diff, same = same, diff
		}
		if !returnsErrorOnAllPaths(sc, diff) {
			continue
		}
		sameDom := dominatedBy(same)
		okNil := true
		for _, ret := range returnsOf(sc) {
			if isNilErrReturn(ret) && !sameDom[ret.Block()] {
				okNil = false
			}
		}
		if !okNil {
			continue
		}
		x, y := argOfParam(sc, call, f.x), argOfParam(sc, call, f.y)
		if x == nil || y == nil {
			continue
		}
		nonNil, isNil := s0, s1
		if (bo.Op == token.EQL) != neg {
			nonNil, isNil = s1, s0
		}
		return &agreeGuard{iff, nonNil, isNil, x, y}
	}
	return nil
}

// resolveNilTest: v is true exactly when a value accepted by match is non-nil (nonNil) or
// exactly when it is nil; through `!` and through module predicates that answer such a test.
func resolveNilTest(v ssa.Value, match func(ssa.Value) bool, depth int) (nonNil, ok bool) {
	if depth > 3 {
		return false, false
	}
	switch c := v.(type) {
	case *ssa.UnOp:
		if c.Op == token.NOT {
			n, ok := resolveNilTest(c.X, match, depth)
			return !n, ok
		}
	case *ssa.BinOp:
		if c.Op != token.EQL && c.Op != token.NEQ {
			return false, false
		}
		var x ssa.Value
		switch {
		case isNilConst(c.Y):
			x = c.X
		case isNilConst(c.X):
			x = c.Y
		default:
			return false, false
		}
		if match(x) || match(unwrap(x)) {
			return c.Op == token.NEQ, true
		}
	case *ssa.Call:
		sc := c.Call.StaticCallee()
		if sc == nil || !inModule(sc) || sc.Blocks == nil || c.Call.IsInvoke() {
			return false, false
		}
		rets := returnsOf(sc)
		if len(rets) == 0 {
			return false, false
		}
		first := true
		for _, ret := range rets {
			vals := retVals(ret)
			if len(vals) != 1 {
				return false, false
			}
			n, ok := resolveNilTest(vals[0], match, depth+1)
			if !ok || (!first && n != nonNil) {
				return false, false
			}
			nonNil, first = n, false
		}
		return nonNil, true
	}
	return false, false
}

// emptinessTest: (atom, truth) says that the slice e is empty / is not empty.
func emptinessTest(atom ssa.Value, truth bool, e ssa.Value) (empty, ok bool) {
	bo, isBo := atom.(*ssa.BinOp)
	if !isBo {
		return false, false
	}
	isLen := func(v ssa.Value) bool {
		c, ok := v.(*ssa.Call)
		if !ok {
			return false
		}
		b, ok := c.Call.Value.(*ssa.Builtin)
		return ok && b.Name() == "len" && len(c.Call.Args) == 1 && c.Call.Args[0] == e
	}
	op := bo.Op
	var other ssa.Value
	switch {
	case isLen(bo.X):
		other = bo.Y
	case isLen(bo.Y):
		other = bo.X
		switch op { // mirror: k OP len  ==  len OP' k
		case token.LSS:
			op = token.GTR
		case token.GTR:
			op = token.LSS
		case token.LEQ:
			op = token.GEQ
		case token.GEQ:
			op = token.LEQ
		}
	default:
		return false, false
	}
	switch {
	case isIntConst(other, 0) && op == token.EQL, isIntConst(other, 0) && op == token.LEQ, isIntConst(other, 1) && op == token.LSS:
		return truth, true
	case isIntConst(other, 0) && op == token.NEQ, isIntConst(other, 0) && op == token.GTR, isIntConst(other, 1) && op == token.GEQ:
		return !truth, true
	}
	return false, false
}

// isExistsAccumulator: a boolean that starts false before a loop and can only be switched on
// inside it (`some = some || x`, `if x { some = true }`, `if !x { continue }; some = true`):
// "some element satisfies x".
func isExistsAccumulator(v ssa.Value) bool {
	phi, ok := v.(*ssa.Phi)
	if !ok || len(naturalLoop(phi.Block())) == 0 {
		return false
	}
	if b, ok := phi.Type().Underlying().(*types.Basic); !ok || b.Kind() != types.Bool {
		return false
	}
	loop := naturalLoop(phi.Block())
	initFalse, carried := false, false
	for i, e := range phi.Edges {
		if i >= len(phi.Block().Preds) {
			return false
		}
		if !loop[phi.Block().Preds[i]] {
			k, ok := e.(*ssa.Const)
			if !ok || k.Value == nil || constant.BoolVal(k.Value) {
				return false
			}
			initFalse = true
			continue
		}
		// the value carried round the loop: the accumulator itself, or a join that can only
		// add `true`
		if e == ssa.Value(phi) {
			continue
		}
		// switched on in a round that goes straight back to the head of the loop (the other
		// rounds leave the loop body early, with `continue`, and carry the accumulator itself)
		if k, ok := e.(*ssa.Const); ok && k.Value != nil && k.Value.Kind() == constant.Bool && constant.BoolVal(k.Value) {
			carried = true
			continue
		}
		j, ok := e.(*ssa.Phi)
		if !ok {
			return false
		}
		hasTrue := false
		for _, je := range j.Edges {
			if k, ok := je.(*ssa.Const); ok && k.Value != nil {
				if !constant.BoolVal(k.Value) {
					return false
				}
				hasTrue = true
			}
		}
		if !hasTrue {
			return false
		}
		carried = true
	}
	return initFalse && carried
}

// containerReads: the collections (slice- or map-typed fields) v is computed from, each as
// "<field> of <base value>"; through phis, appends, lookups, element loads, copies, and through
// module helpers (what a helper reads from its parameter is read from the argument).
func containerReads(v ssa.Value) map[string]bool {
	out := map[string]bool{}
	for _, c := range containersOf(v, 0) {
		out[fmt.Sprintf("%s of %s@%p", c.field, c.base.Name(), c.base)] = true
	}
	return out
}

// paramsBehind: the parameters of fn (indices) that v is loaded or computed from.
func paramsBehind(v ssa.Value, fn *ssa.Function) []int {
	var out []int
	seen := map[ssa.Value]bool{}
	var walk func(v ssa.Value, depth int)
	walk = func(v ssa.Value, depth int) {
		if v == nil || seen[v] || depth > 12 {
			return
		}
		seen[v] = true
		if p, ok := v.(*ssa.Parameter); ok {
			for i, q := range fn.Params {
				if q == p {
					out = append(out, i)
				}
			}
			return
		}
		if ins, ok := v.(ssa.Instruction); ok {
			for _, op := range operandsOf(ins) {
				walk(op, depth+1)
			}
		}
	}
	walk(v, 0)
	sort.Ints(out)
	return out
}

type containerRead struct {
	field string
	base  ssa.Value
}

func containersOf(v ssa.Value, depth int) []containerRead {
	var out []containerRead
	seen := map[ssa.Value]bool{}
	var f func(v ssa.Value)
	f = func(v ssa.Value) {
		if v == nil || seen[v] {
			return
		}
		seen[v] = true
		if ld, ok := v.(*ssa.UnOp); ok && ld.Op == token.MUL {
			if fa, ok := ld.X.(*ssa.FieldAddr); ok && fieldOf(fa) != nil {
				switch fieldOf(fa).Type().Underlying().(type) {
				case *types.Slice, *types.Map:
					out = append(out, containerRead{fieldOf(fa).Name(), copyOrigin(fa.X)})
					return
				}
			}
		}
		if al, ok := v.(*ssa.Alloc); ok {
			for _, w := range writesInto(al) {
				f(w.src)
			}
			return
		}
		if c, ok := v.(*ssa.Call); ok && depth < 3 {
			if sc := c.Call.StaticCallee(); sc != nil && inModule(sc) && sc.Blocks != nil && !c.Call.IsInvoke() {
				for _, ret := range returnsOf(sc) {
					for _, res := range retVals(ret) {
						for _, cr := range containersOf(res, depth+1) {
							mapped := false
							for i, p := range sc.Params {
								if cr.base == ssa.Value(p) && i < len(c.Call.Args) {
									cr.base = copyOrigin(c.Call.Args[i])
									mapped = true
								}
							}
							if !mapped {
								// read from an element of a list the helper was handed (`for _, f :=
								// range fields { … f.Arguments … }`): what is compared is the list,
								// i.e. whatever the argument was read from
								from := paramsBehind(cr.base, sc)
								if len(from) > 0 {
									for _, i := range from {
										if i < len(c.Call.Args) {
											out = append(out, containersOf(c.Call.Args[i], depth+1)...)
										}
									}
									continue
								}
							}
							out = append(out, cr)
						}
					}
				}
				return
			}
		}
		ins, ok := v.(ssa.Instruction)
		if !ok {
			return
		}
		for _, op := range operandsOf(ins) {
			f(op)
		}
	}
	f(v)
	return out
}

// lenOperand: atom compares len(e) with a constant; returns e.
func lenOperand(atom ssa.Value) ssa.Value {
	bo, ok := atom.(*ssa.BinOp)
	if !ok {
		return nil
	}
	for _, side := range []ssa.Value{bo.X, bo.Y} {
		if c, ok := side.(*ssa.Call); ok {
			if b, ok := c.Call.Value.(*ssa.Builtin); ok && b.Name() == "len" && len(c.Call.Args) == 1 {
				return c.Call.Args[0]
			}
		}
	}
	return nil
}

// isListOf: e is a list built by appends (through the phis of loops and branches) every one of
// which sits where guard holds: "the elements for which guard held".
func isListOf(e ssa.Value, guard func(b *ssa.BasicBlock) bool) bool {
	seen := map[ssa.Value]bool{}
	appends := 0
	var f func(v ssa.Value) bool
	f = func(v ssa.Value) bool {
		if seen[v] {
			return true
		}
		seen[v] = true
		switch x := v.(type) {
		case *ssa.Phi:
			for _, ed := range x.Edges {
				if !f(ed) {
					return false
				}
			}
			return true
		case *ssa.Const:
			return x.Value == nil // the nil slice
		case *ssa.MakeSlice:
			return isIntConst(x.Len, 0)
		case *ssa.Call:
			if b, ok := x.Call.Value.(*ssa.Builtin); ok && b.Name() == "append" && len(x.Call.Args) == 2 {
				if !guard(x.Block()) {
					return false
				}
				appends++
				return f(x.Call.Args[0])
			}
		}
		return false
	}
	return f(e) && appends > 0
}

func sameStringSet(a, b map[string]bool) bool {
	if len(a) != len(b) {
		return false
	}
	for k := range a {
		if !b[k] {
			return false
		}
	}
	return true
}

func setNames(a map[string]bool) string {
	var ks []string
	for k := range a {
		if i := strings.Index(k, "@"); i >= 0 {
			k = k[:i]
		}
		ks = append(ks, k)
	}
	sort.Strings(ks)
	return strings.Join(ks, ", ")
}

// isRangeIndex: the index of a loop that visits every element once from the first on — the
// `range` form go/ssa builds (k+1 of a counter that starts at -1) or `for i := 0; …; i++`.
func isRangeIndex(v ssa.Value) bool {
	initOf := func(phi *ssa.Phi) (int64, bool) {
		loop := naturalLoop(phi.Block())
		if len(loop) == 0 {
			return 0, false
		}
		var init int64
		found := false
		for i, e := range phi.Edges {
			if i >= len(phi.Block().Preds) {
				return 0, false
			}
			if loop[phi.Block().Preds[i]] {
				// carried value: phi + 1
				bo, ok := e.(*ssa.BinOp)
				if !ok || bo.Op != token.ADD || bo.X != ssa.Value(phi) || !isIntConst(bo.Y, 1) {
					return 0, false
				}
				continue
			}
			k, ok := e.(*ssa.Const)
			if !ok || k.Value == nil {
				return 0, false
			}
			init, _ = constant.Int64Val(k.Value)
			found = true
		}
		return init, found
	}
	if phi, ok := v.(*ssa.Phi); ok {
		init, ok := initOf(phi)
		return ok && init == 0
	}
	if bo, ok := v.(*ssa.BinOp); ok && bo.Op == token.ADD && isIntConst(bo.Y, 1) {
		if phi, ok := bo.X.(*ssa.Phi); ok {
			init, ok := initOf(phi)
			return ok && init == -1
		}
	}
	return false
}

// sliceIdentity looks through the cell a captured variable lives in (also from inside the
// closure that captured it) when the cell is written exactly once.
func sliceIdentity(v ssa.Value) ssa.Value {
	for depth := 0; depth < 6; depth++ {
		v = unwrap(v)
		ld, ok := v.(*ssa.UnOp)
		if !ok || ld.Op != token.MUL {
			return v
		}
		var cell *ssa.Alloc
		switch x := ld.X.(type) {
		case *ssa.Alloc:
			cell = x
		case *ssa.FreeVar:
			cell, _ = freeVarBinding(x).(*ssa.Alloc)
		}
		if cell == nil {
			return v
		}
		sts := storesTo(cell)
		if len(sts) != 1 {
			return v
		}
		v = sts[0].Val
	}
	return v
}

// freeVarBinding: the value the enclosing function binds to a closure's free variable.
func freeVarBinding(fv *ssa.FreeVar) ssa.Value {
	f := fv.Parent()
	if f == nil || f.Parent() == nil {
		return nil
	}
	idx := -1
	for i, x := range f.FreeVars {
		if x == fv {
			idx = i
		}
	}
	for _, ins := range allInstrs(f.Parent()) {
		if mc, ok := ins.(*ssa.MakeClosure); ok && mc.Fn == ssa.Value(f) && idx >= 0 && idx < len(mc.Bindings) {
			return mc.Bindings[idx]
		}
	}
	return nil
}

// loMapSource: f is the callback of a lo.Map(src, f) call in its parent; returns src.
func loMapSource(f *ssa.Function) ssa.Value {
	if f.Parent() == nil {
		return nil
	}
	for _, ins := range allInstrs(f.Parent()) {
		c, ok := ins.(*ssa.Call)
		if !ok || !strings.HasPrefix(calleeName(&c.Call), "github.com/samber/lo.Map") || strings.HasPrefix(calleeName(&c.Call), "github.com/samber/lo.MapTo") || len(c.Call.Args) != 2 {
			continue
		}
		if strings.TrimPrefix(strings.SplitN(calleeName(&c.Call), "[", 2)[0], "github.com/samber/lo.") != "Map" {
			continue
		}
		fv := c.Call.Args[1]
		if mc, ok := fv.(*ssa.MakeClosure); ok {
			fv = mc.Fn
		}
		if fv == ssa.Value(f) {
			return c.Call.Args[0]
		}
	}
	return nil
}

// fieldOfParam: v reads field fld of the struct-typed parameter p.
func fieldOfParam(v ssa.Value, p *ssa.Parameter, fld *types.Var) bool {
	switch x := v.(type) {
	case *ssa.Field:
		return x.X == ssa.Value(p) && fieldOfVal(x) == fld
	case *ssa.UnOp:
		if x.Op != token.MUL {
			return false
		}
		fa, ok := x.X.(*ssa.FieldAddr)
		if !ok || fieldOf(fa) != fld {
			return false
		}
		al, ok := fa.X.(*ssa.Alloc)
		if !ok {
			return false
		}
		sts := storesTo(al)
		return len(sts) == 1 && sts[0].Val == ssa.Value(p)
	}
	return false
}

// fanout: how the per-element function of an AsyncMapReduce call gets at "its" element of the
// list and at the index of that element.
type fanout struct {
	isIndex func(v ssa.Value) bool // v (in the map function) is the index of the element
	isURL   func(v ssa.Value) bool // v (in the map function) is the element itself
}

// fanoutOver recognises a fan-out that visits every index of the parameter list once:
// lo.Range(len(list)) with list[i] read inside, or lo.Map(list, func(u, i) T{…u…i…}) whose
// struct keeps element and index in two fields.
func fanoutOver(fn *ssa.Function, call *ssa.Call, mapF *ssa.Function, list *ssa.Parameter) *fanout {
	if len(mapF.Params) != 1 {
		return nil
	}
	p := mapF.Params[0]
	pc, ok := unwrap(call.Call.Args[0]).(*ssa.Call)
	if !ok {
		return nil
	}
	name := strings.SplitN(calleeName(&pc.Call), "[", 2)[0]
	switch {
	case name == "github.com/samber/lo.Range" && len(pc.Call.Args) == 1:
		lc, ok := pc.Call.Args[0].(*ssa.Call)
		if !ok {
			return nil
		}
		if b, ok := lc.Call.Value.(*ssa.Builtin); !ok || b.Name() != "len" || !isUntouchedParam(fn, lc.Call.Args[0], list) {
			return nil
		}
		return &fanout{
			isIndex: func(v ssa.Value) bool { return v == ssa.Value(p) },
			isURL: func(v ssa.Value) bool {
				ld, ok := v.(*ssa.UnOp)
				if !ok || ld.Op != token.MUL {
					return false
				}
				ia, ok := ld.X.(*ssa.IndexAddr)
				return ok && ia.Index == ssa.Value(p) && sliceIdentity(ia.X) == ssa.Value(list)
			},
		}
	case name == "github.com/samber/lo.Map" && len(pc.Call.Args) == 2:
		if !isUntouchedParam(fn, pc.Call.Args[0], list) {
			return nil
		}
		fv := pc.Call.Args[1]
		if mc, ok := fv.(*ssa.MakeClosure); ok {
			fv = mc.Fn
		}
		g, ok := fv.(*ssa.Function)
		if !ok || len(g.Params) != 2 || g.Blocks == nil {
			return nil
		}
		var fu, fi *types.Var
		for _, ins := range allInstrs(g) {
			st, ok := ins.(*ssa.Store)
			if !ok {
				continue
			}
			fa, ok := st.Addr.(*ssa.FieldAddr)
			if !ok || fieldOf(fa) == nil {
				continue
			}
			switch unwrap(st.Val) {
			case ssa.Value(g.Params[0]):
				fu = fieldOf(fa)
			case ssa.Value(g.Params[1]):
				fi = fieldOf(fa)
			}
		}
		if fu == nil || fi == nil {
			return nil
		}
		return &fanout{
			isIndex: func(v ssa.Value) bool { return fieldOfParam(v, p, fi) },
			isURL:   func(v ssa.Value) bool { return fieldOfParam(v, p, fu) },
		}
	}
	return nil
}

// fanoutIndexOf is fanoutOver for callers that only need the index test (R9b).
func fanoutIndexOf(fn *ssa.Function, call *ssa.Call, mapF *ssa.Function) func(v ssa.Value) bool {
	for _, p := range fn.Params {
		if _, ok := p.Type().Underlying().(*types.Slice); ok {
			if fo := fanoutOver(fn, call, mapF, p); fo != nil {
				return fo.isIndex
			}
		}
	}
	return nil
}

// checkIntrospectionOrder: the results are put into ascending order of the carried index, and
// what is returned is that list mapped element by element.
func (r *Run) checkIntrospectionOrder(rule string, irs *ssa.Function, call *ssa.Call, carried *types.Var) {
	var res ssa.Value
	for _, ref := range *call.Referrers() {
		if ex, ok := ref.(*ssa.Extract); ok && ex.Index == 0 {
			res = ex
		}
	}
	if res == nil {
		return
	}
	readsCarried := func(v ssa.Value, p *ssa.Parameter, other *ssa.Parameter) bool {
		ld, ok := v.(*ssa.UnOp)
		if !ok || ld.Op != token.MUL {
			return false
		}
		fa, ok := ld.X.(*ssa.FieldAddr)
		return ok && fieldOf(fa) == carried && dependsOn(v, p) && !dependsOn(v, other)
	}
	for _, ins := range allInstrs(irs) {
		ci, ok := ins.(ssa.CallInstruction)
		if !ok {
			continue
		}
		kind, isSort := isSortCall(ci.Common())
		if !isSort || kind != "less" || len(ci.Common().Args) < 2 || sliceIdentity(unwrap(ci.Common().Args[0])) != res {
			continue
		}
		fs, _ := r.P.CG.funcValues(ci.Common().Args[1], map[ssa.Value]bool{})
		if len(fs) != 1 || len(fs[0].Params) != 2 {
			continue
		}
		less := fs[0]
		asc, known := true, true
		for _, ret := range returnsOf(less) {
			bo, ok := retVals(ret)[0].(*ssa.BinOp)
			if !ok {
				known = false
				continue
			}
			a, b := less.Params[0], less.Params[1]
			switch {
			case (bo.Op == token.LSS || bo.Op == token.LEQ) && readsCarried(bo.X, a, b) && readsCarried(bo.Y, b, a):
			case (bo.Op == token.GTR || bo.Op == token.GEQ) && readsCarried(bo.X, b, a) && readsCarried(bo.Y, a, b):
			case (bo.Op == token.LSS || bo.Op == token.LEQ) && readsCarried(bo.X, b, a) && readsCarried(bo.Y, a, b),
				(bo.Op == token.GTR || bo.Op == token.GEQ) && readsCarried(bo.X, a, b) && readsCarried(bo.Y, b, a):
				asc = false
			default:
				known = false
			}
		}
		if known {
			r.Check(asc, rule, fnName(irs), "results in ascending order of the carried index", r.P.pos(ci.Pos()),
				"less(i, j) is index(i) < index(j): result k is the schema of URL k",
				"the introspection results are sorted by the carried index in descending order: schemas[i] is the schema of urls[n-1-i], and NewGateway records every service's fields under another service's URL")
		}
	}
	// what is returned
	for _, ret := range returnsOf(irs) {
		vals := retVals(ret)
		if len(vals) == 0 || isNilConst(unwrap(vals[0])) {
			continue
		}
		good := false
		if c, ok := unwrap(vals[0]).(*ssa.Call); ok && strings.SplitN(calleeName(&c.Call), "[", 2)[0] == "github.com/samber/lo.Map" && len(c.Call.Args) == 2 {
			good = sliceIdentity(c.Call.Args[0]) == res
		}
		if sliceIdentity(vals[0]) == res {
			good = true
		}
		r.Check(good, rule, fnName(irs), "the result is the ordered list, element by element", r.P.pos(retPos(ret)),
			"the returned list is lo.Map over the ordered results: as long as the URL list, position k for URL k",
			"what IntrospectRemoteSchemas returns is no longer the ordered result list mapped one to one (elements are dropped, de-duplicated or re-arranged afterwards): with fewer schemas than URLs, or in another order, NewGateway pairs a schema with another service's URL")
	}
}
