package main

// Syntactic guard facts: which boolean conditions are known to hold at a program point,
// derived from enclosing if/for statements, short-circuit operators and earlier
// early-exit ifs in the same statement list. Used by the bounds prover (R7/P1).

import (
	"go/ast"
	"go/constant"
	"go/token"
	"go/types"
)

type guardFact struct {
	cond ast.Expr
	pol  bool      // cond holds (true) or its negation holds (false)
	from token.Pos // position after which the fact was established
	loop ast.Node  // for-statement whose condition this is (fact re-established every iteration)
}

type factCtx struct {
	info  *types.Info
	path  []ast.Node // innermost first
	use   token.Pos
	facts []guardFact
	fn    ast.Node // enclosing FuncDecl/FuncLit
	depth int
}

// boolDef: id is a boolean local of the enclosing function defined exactly once, by
// `id := <expr>` (never assigned again, address never taken); returns <expr> and the end of
// the defining statement.
func (fc *factCtx) boolDef(id *ast.Ident) (ast.Expr, token.Pos) {
	obj, _ := fc.info.Uses[id].(*types.Var)
	if obj == nil || obj.IsField() || fc.fn == nil {
		return nil, token.NoPos
	}
	if b, ok := obj.Type().Underlying().(*types.Basic); !ok || b.Kind() != types.Bool {
		return nil, token.NoPos
	}
	if obj.Pos() < fc.fn.Pos() || obj.Pos() >= fc.fn.End() {
		return nil, token.NoPos // a captured variable: other closures may assign it
	}
	var def ast.Expr
	var end token.Pos
	n := 0
	ast.Inspect(fc.fn, func(nd ast.Node) bool {
		switch s := nd.(type) {
		case *ast.AssignStmt:
			for i, l := range s.Lhs {
				lid, ok := l.(*ast.Ident)
				if !ok || (fc.info.Defs[lid] != types.Object(obj) && fc.info.Uses[lid] != types.Object(obj)) {
					continue
				}
				n++
				if s.Tok == token.DEFINE && len(s.Lhs) == len(s.Rhs) {
					def, end = s.Rhs[i], s.End()
				} else {
					n++
				}
			}
		case *ast.ValueSpec:
			for _, nm := range s.Names {
				if fc.info.Defs[nm] == types.Object(obj) {
					n += 2
				}
			}
		case *ast.UnaryExpr:
			if lid, ok := s.X.(*ast.Ident); ok && s.Op == token.AND && fc.info.Uses[lid] == types.Object(obj) {
				n += 2
			}
		}
		return true
	})
	if n != 1 || def == nil || end >= id.Pos() {
		return nil, token.NoPos
	}
	return def, end
}

func terminates(b *ast.BlockStmt) bool {
	if b == nil || len(b.List) == 0 {
		return false
	}
	switch s := b.List[len(b.List)-1].(type) {
	case *ast.ReturnStmt:
		return true
	case *ast.BranchStmt:
		return s.Tok == token.CONTINUE || s.Tok == token.BREAK || s.Tok == token.GOTO
	case *ast.ExprStmt:
		if c, ok := s.X.(*ast.CallExpr); ok {
			if id, ok := c.Fun.(*ast.Ident); ok && id.Name == "panic" {
				return true
			}
		}
	}
	return false
}

func (fc *factCtx) add(cond ast.Expr, pol bool, from token.Pos, loop ast.Node) {
	switch c := cond.(type) {
	case *ast.ParenExpr:
		fc.add(c.X, pol, from, loop)
		return
	case *ast.UnaryExpr:
		if c.Op == token.NOT {
			fc.add(c.X, !pol, from, loop)
			return
		}
	case *ast.Ident:
		// a named condition: `last := i+1 >= len(parts); if last {…}` states the defining
		// comparison; the fact dates from the definition, so a later assignment to one of its
		// operands (before the test or after it) invalidates it like any other
		if def, end := fc.boolDef(c); def != nil && fc.depth < 4 {
			fc.depth++
			fc.add(def, pol, end, loop)
			fc.depth--
			return
		}
	case *ast.BinaryExpr:
		if c.Op == token.LAND && pol {
			fc.add(c.X, true, from, loop)
			fc.add(c.Y, true, from, loop)
			return
		}
		if c.Op == token.LOR && !pol {
			fc.add(c.X, false, from, loop)
			fc.add(c.Y, false, from, loop)
			return
		}
	}
	fc.facts = append(fc.facts, guardFact{cond, pol, from, loop})
}

// newFactCtx collects the guard facts for the expression at the head of path.
func newFactCtx(info *types.Info, path []ast.Node) *factCtx {
	fc := &factCtx{info: info, path: path}
	if len(path) == 0 {
		return fc
	}
	fc.use = path[0].Pos()
	fc.fn = enclosingFuncNode(path)
	for i := 0; i+1 < len(path); i++ {
		child, parent := path[i], path[i+1]
		switch p := parent.(type) {
		case *ast.FuncLit, *ast.FuncDecl:
			fc.fn = parent
			return fc
		case *ast.IfStmt:
			if child == ast.Node(p.Body) {
				fc.add(p.Cond, true, p.Cond.End(), nil)
			} else if p.Else != nil && child == ast.Node(p.Else) {
				fc.add(p.Cond, false, p.Cond.End(), nil)
			}
		case *ast.BinaryExpr:
			if child == ast.Node(p.Y) {
				if p.Op == token.LAND {
					fc.add(p.X, true, p.X.End(), nil)
				} else if p.Op == token.LOR {
					fc.add(p.X, false, p.X.End(), nil)
				}
			}
		case *ast.ForStmt:
			if p.Cond != nil && child == ast.Node(p.Body) {
				fc.add(p.Cond, true, p.Body.Lbrace, p)
			}
		case *ast.BlockStmt:
			fc.preceding(p.List, child)
		case *ast.CaseClause:
			fc.preceding(p.Body, child)
			// inside a clause of a tagless switch the earlier clauses' conditions are false
			if i+3 < len(path) {
				if sw, ok := path[i+3].(*ast.SwitchStmt); ok && sw.Tag == nil && sw.Body != nil {
					for _, cs := range sw.Body.List {
						if cs == ast.Stmt(p) {
							break
						}
						if cc, ok := cs.(*ast.CaseClause); ok && len(cc.List) == 1 {
							fc.add(cc.List[0], false, cc.Colon, nil)
						}
					}
				}
			}
		case *ast.CommClause:
			fc.preceding(p.Body, child)
		}
	}
	return fc
}

func (fc *factCtx) preceding(list []ast.Stmt, child ast.Node) {
	for _, s := range list {
		if ast.Node(s) == child {
			break
		}
		if iff, ok := s.(*ast.IfStmt); ok && iff.Else == nil && terminates(iff.Body) {
			fc.add(iff.Cond, false, iff.End(), nil)
		}
		// a tagless switch whose clauses all leave: `switch { case a: return …; case b: return … }`
		// is the if-chain `if a { return }; if b { return }`
		if sw, ok := s.(*ast.SwitchStmt); ok && sw.Tag == nil && sw.Init == nil && sw.Body != nil {
			for _, cs := range sw.Body.List {
				cc, ok := cs.(*ast.CaseClause)
				if !ok || len(cc.List) != 1 || len(cc.Body) == 0 || !terminates(&ast.BlockStmt{List: cc.Body}) {
					continue
				}
				fc.add(cc.List[0], false, sw.End(), nil)
			}
		}
	}
}

// objsIn collects the variable objects an expression mentions (roots of selector chains included).
func objsIn(info *types.Info, e ast.Expr) map[types.Object]bool {
	out := map[types.Object]bool{}
	ast.Inspect(e, func(n ast.Node) bool {
		if id, ok := n.(*ast.Ident); ok {
			if o := info.Uses[id]; o != nil {
				if _, isVar := o.(*types.Var); isVar {
					out[o] = true
				}
			}
		}
		return true
	})
	return out
}

func rootIdent(e ast.Expr) *ast.Ident {
	for {
		switch x := e.(type) {
		case *ast.Ident:
			return x
		case *ast.SelectorExpr:
			e = x.X
		case *ast.IndexExpr:
			e = x.X
		case *ast.StarExpr:
			e = x.X
		case *ast.ParenExpr:
			e = x.X
		case *ast.SliceExpr:
			e = x.X
		default:
			return nil
		}
	}
}

// assignedBetween reports whether any object of objs is (re)assigned at a position in
// (from, to) inside fn, or anywhere inside a loop that contains `to` but not `from`.
func (fc *factCtx) assignedBetween(objs map[types.Object]bool, from, to token.Pos, exemptLoop ast.Node) bool {
	if fc.fn == nil {
		return true
	}
	// loops enclosing the use but not the guard
	var loops []ast.Node
	for _, n := range fc.path {
		switch n.(type) {
		case *ast.ForStmt, *ast.RangeStmt:
			if !(n.Pos() <= from && from < n.End()) && n != exemptLoop {
				loops = append(loops, n)
			}
		}
	}
	inRange := func(p token.Pos) bool {
		if p > from && p < to {
			return true
		}
		for _, l := range loops {
			if p >= l.Pos() && p < l.End() {
				return true
			}
		}
		return false
	}
	hit := false
	check := func(lhs ast.Expr, at token.Pos) {
		if !inRange(at) {
			return
		}
		if id := rootIdent(lhs); id != nil {
			o := fc.info.Uses[id]
			if o == nil {
				o = fc.info.Defs[id]
			}
			if o != nil && objs[o] {
				hit = true
			}
		}
	}
	ast.Inspect(fc.fn, func(n ast.Node) bool {
		switch s := n.(type) {
		case *ast.AssignStmt:
			at := s.Pos()
			if s.Pos() <= to && to < s.End() {
				// the window ends inside this very statement (`xs = f(xs, i)` with the use among
				// the operands): the operands are evaluated before the assignment takes effect,
				// so it counts only through a loop
				at = s.End()
			}
			for _, l := range s.Lhs {
				check(l, at)
			}
		case *ast.IncDecStmt:
			check(s.X, s.Pos())
		case *ast.RangeStmt:
			if s.Tok == token.ASSIGN {
				if s.Key != nil {
					check(s.Key, s.Pos())
				}
				if s.Value != nil {
					check(s.Value, s.Pos())
				}
			}
		case *ast.UnaryExpr:
			if s.Op == token.AND {
				// address taken: be conservative only for plain locals handed out inside the window
				if id, ok := s.X.(*ast.Ident); ok && inRange(s.Pos()) {
					if o := fc.info.Uses[id]; o != nil && objs[o] {
						if _, isComposite := s.X.(*ast.CompositeLit); !isComposite {
							hit = true
						}
					}
				}
			}
		}
		return true
	})
	return hit
}

// valid facts at the use point (not invalidated by an intervening assignment).
func (fc *factCtx) live() []guardFact {
	var out []guardFact
	for _, f := range fc.facts {
		objs := objsIn(fc.info, f.cond)
		if fc.assignedBetween(objs, f.from, fc.use, f.loop) {
			continue
		}
		out = append(out, f)
	}
	return out
}

func intLit(info *types.Info, e ast.Expr) (int64, bool) {
	if tv, ok := info.Types[e]; ok && tv.Value != nil && tv.Value.Kind() == constant.Int {
		return constant.Int64Val(tv.Value)
	}
	return 0, false
}

func isLenOf(info *types.Info, e ast.Expr) (ast.Expr, bool) {
	c, ok := e.(*ast.CallExpr)
	if !ok || len(c.Args) != 1 {
		return nil, false
	}
	id, ok := c.Fun.(*ast.Ident)
	if !ok || id.Name != "len" {
		return nil, false
	}
	if _, isBuiltin := info.Uses[id].(*types.Builtin); !isBuiltin {
		return nil, false
	}
	return c.Args[0], true
}

// cmp normalises a comparison fact to (lhs OP rhs) with polarity applied.
type cmpFact struct {
	x  ast.Expr
	op token.Token
	y  ast.Expr
}

func negOp(op token.Token) token.Token {
	switch op {
	case token.LSS:
		return token.GEQ
	case token.LEQ:
		return token.GTR
	case token.GTR:
		return token.LEQ
	case token.GEQ:
		return token.LSS
	case token.EQL:
		return token.NEQ
	case token.NEQ:
		return token.EQL
	}
	return token.ILLEGAL
}

func flipOp(op token.Token) token.Token {
	switch op {
	case token.LSS:
		return token.GTR
	case token.LEQ:
		return token.GEQ
	case token.GTR:
		return token.LSS
	case token.GEQ:
		return token.LEQ
	}
	return op
}

func (fc *factCtx) cmps() []cmpFact {
	var out []cmpFact
	for _, f := range fc.live() {
		b, ok := f.cond.(*ast.BinaryExpr)
		if !ok {
			continue
		}
		op := b.Op
		if !f.pol {
			op = negOp(op)
		}
		if op == token.ILLEGAL {
			continue
		}
		switch op {
		case token.LSS, token.LEQ, token.GTR, token.GEQ, token.EQL, token.NEQ:
			out = append(out, cmpFact{b.X, op, b.Y}, cmpFact{b.Y, flipOp(op), b.X})
		}
	}
	return out
}

// lenGreater: do the facts imply len(E) > c ?
// lenArg: e is len(X), or a local defined exactly once as `n := len(X)` (typically in the
// init statement of the guard) with X not reassigned between that definition and the use.
func (fc *factCtx) lenArg(e ast.Expr) (ast.Expr, bool) {
	if arg, ok := isLenOf(fc.info, e); ok {
		return arg, true
	}
	id, ok := e.(*ast.Ident)
	if !ok || fc.fn == nil {
		return nil, false
	}
	obj := fc.info.Uses[id]
	if obj == nil {
		return nil, false
	}
	var arg ast.Expr
	var defEnd token.Pos
	defs := 0
	ast.Inspect(fc.fn, func(nd ast.Node) bool {
		switch s := nd.(type) {
		case *ast.AssignStmt:
			for i, l := range s.Lhs {
				lid, ok := l.(*ast.Ident)
				if !ok || (fc.info.Defs[lid] != obj && fc.info.Uses[lid] != obj) {
					continue
				}
				defs++
				if len(s.Rhs) == len(s.Lhs) {
					if a, ok := isLenOf(fc.info, s.Rhs[i]); ok {
						arg, defEnd = a, s.End()
					}
				}
			}
		case *ast.IncDecStmt:
			if lid, ok := s.X.(*ast.Ident); ok && fc.info.Uses[lid] == obj {
				defs++
			}
		case *ast.UnaryExpr:
			if lid, ok := s.X.(*ast.Ident); ok && s.Op == token.AND && fc.info.Uses[lid] == obj {
				defs++
			}
		}
		return true
	})
	if defs != 1 || arg == nil {
		return nil, false
	}
	if fc.assignedBetween(objsIn(fc.info, arg), defEnd, fc.use, nil) {
		return nil, false
	}
	return arg, true
}

func (fc *factCtx) lenGreater(E ast.Expr, c int64) bool {
	want := idExpr(fc.info, E)
	for _, f := range fc.cmps() {
		arg, ok := fc.lenArg(f.x)
		if !ok || idExpr(fc.info, arg) != want {
			continue
		}
		n, ok := intLit(fc.info, f.y)
		if !ok {
			continue
		}
		switch f.op {
		case token.EQL:
			if n > c {
				return true
			}
		case token.GTR:
			if n >= c {
				return true
			}
		case token.GEQ:
			if n > c {
				return true
			}
		case token.NEQ:
			if n == 0 && c == 0 {
				return true
			}
		}
	}
	return false
}

// less: do the facts imply I < len(E) ?
func (fc *factCtx) idxBelowLen(I, E ast.Expr) bool {
	wi, we := idExpr(fc.info, I), idExpr(fc.info, E)
	for _, f := range fc.cmps() {
		if f.op != token.LSS {
			continue
		}
		if idExpr(fc.info, f.x) != wi {
			continue
		}
		if arg, ok := fc.lenArg(f.y); ok && idExpr(fc.info, arg) == we {
			// the same index variable must denote the same object
			return true
		}
	}
	return false
}

// nonNeg: is the integer expression provably >= 0 ?
func (fc *factCtx) nonNeg(e ast.Expr, depth int) bool {
	if depth > 6 {
		return false
	}
	if n, ok := intLit(fc.info, e); ok {
		return n >= 0
	}
	if tv, ok := fc.info.Types[e]; ok {
		if b, ok := tv.Type.Underlying().(*types.Basic); ok && b.Info()&types.IsUnsigned != 0 {
			return true
		}
	}
	switch x := e.(type) {
	case *ast.ParenExpr:
		return fc.nonNeg(x.X, depth+1)
	case *ast.CallExpr:
		if _, ok := isLenOf(fc.info, x); ok {
			return true
		}
	case *ast.BinaryExpr:
		if x.Op == token.ADD || x.Op == token.MUL {
			return fc.nonNeg(x.X, depth+1) && fc.nonNeg(x.Y, depth+1)
		}
	case *ast.Ident:
		obj := fc.info.Uses[x]
		if obj == nil {
			return false
		}
		// explicit facts
		w := idExpr(fc.info, x)
		for _, f := range fc.cmps() {
			if idExpr(fc.info, f.x) != w {
				continue
			}
			if n, ok := intLit(fc.info, f.y); ok {
				if (f.op == token.GEQ && n >= 0) || (f.op == token.GTR && n >= -1) || (f.op == token.EQL && n >= 0) {
					return true
				}
			}
		}
		// every assignment to the variable yields a non-negative value
		if fc.fn == nil {
			return false
		}
		if v, ok := obj.(*types.Var); !ok || v.IsField() {
			return false
		}
		okAll, n := true, 0
		ast.Inspect(fc.fn, func(nd ast.Node) bool {
			switch s := nd.(type) {
			case *ast.AssignStmt:
				for i, l := range s.Lhs {
					id, ok := l.(*ast.Ident)
					if !ok {
						continue
					}
					o := fc.info.Defs[id]
					if o == nil {
						o = fc.info.Uses[id]
					}
					if o != obj {
						continue
					}
					n++
					if len(s.Rhs) != len(s.Lhs) {
						okAll = false // multi-value call result
						continue
					}
					switch s.Tok {
					case token.ASSIGN, token.DEFINE:
						if !fc.nonNegNoSelf(s.Rhs[i], obj, depth+1) {
							okAll = false
						}
					case token.ADD_ASSIGN, token.MUL_ASSIGN:
						if !fc.nonNeg(s.Rhs[i], depth+1) {
							okAll = false
						}
					default:
						okAll = false
					}
				}
			case *ast.IncDecStmt:
				if id, ok := s.X.(*ast.Ident); ok && fc.info.Uses[id] == obj {
					if s.Tok == token.DEC {
						okAll = false
					}
				}
			case *ast.RangeStmt:
				for _, kv := range []ast.Expr{s.Key} {
					if id, ok := kv.(*ast.Ident); ok && (fc.info.Defs[id] == obj || fc.info.Uses[id] == obj) {
						n++
						// range key over slice/array/string/int is non-negative; over a map it is the key type
						if tv, ok := fc.info.Types[s.X]; ok {
							switch tv.Type.Underlying().(type) {
							case *types.Slice, *types.Array, *types.Basic, *types.Pointer:
							default:
								okAll = false
							}
						}
					}
				}
				if id, ok := s.Value.(*ast.Ident); ok && (fc.info.Defs[id] == obj || fc.info.Uses[id] == obj) {
					okAll = false
				}
			case *ast.ValueSpec:
				for i, id := range s.Names {
					if fc.info.Defs[id] == obj {
						n++
						if i < len(s.Values) && !fc.nonNeg(s.Values[i], depth+1) {
							okAll = false
						}
					}
				}
			case *ast.UnaryExpr:
				if s.Op == token.AND {
					if id, ok := s.X.(*ast.Ident); ok && fc.info.Uses[id] == obj {
						okAll = false
					}
				}
			}
			return true
		})
		// parameters are assigned by the caller
		if v := obj.(*types.Var); isParamOf(fc.fn, fc.info, v) {
			return false
		}
		return okAll && n > 0
	}
	return false
}

// nonNegNoSelf treats `i + k` as fine when i is the variable itself (induction).
func (fc *factCtx) nonNegNoSelf(e ast.Expr, self types.Object, depth int) bool {
	if b, ok := e.(*ast.BinaryExpr); ok && b.Op == token.ADD {
		if id, ok := b.X.(*ast.Ident); ok && fc.info.Uses[id] == self {
			return fc.nonNeg(b.Y, depth)
		}
	}
	return fc.nonNeg(e, depth)
}

func isParamOf(fn ast.Node, info *types.Info, v *types.Var) bool {
	var ft *ast.FuncType
	var recv *ast.FieldList
	switch f := fn.(type) {
	case *ast.FuncDecl:
		ft, recv = f.Type, f.Recv
	case *ast.FuncLit:
		ft = f.Type
	}
	if ft == nil {
		return false
	}
	lists := []*ast.FieldList{ft.Params, recv}
	for _, l := range lists {
		if l == nil {
			continue
		}
		for _, fld := range l.List {
			for _, id := range fld.Names {
				if info.Defs[id] == v {
					return true
				}
			}
		}
	}
	return false
}
