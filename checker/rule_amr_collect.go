package main

// R1, collector form: AsyncMapReduce without reducer goroutine and wait group (the caller
// itself receives one acknowledgement per item). Called from ruleAMR once the worker side
// (A1, A1c, A2) is established.

import (
	"fmt"
	"go/constant"
	"go/token"
	"go/types"

	"golang.org/x/tools/go/ssa"
)

type collectorIn struct {
	S, G, Sr   ssa.CallInstruction
	Gtop       ssa.Instruction
	W          *ssa.Function
	lp         *payloadLoop
	loop       map[*ssa.BasicBlock]bool
	cRes, cErr *ssa.MakeChan
	sends      []*ssa.Send
	selects    []*ssa.Select
	recvs      []*ssa.UnOp
	closes     []ssa.CallInstruction
	makeChans  []*ssa.MakeChan
	chanOf     func(ssa.Value) *ssa.MakeChan
}

// collectorForm checks the variant of the protocol without reducer goroutine and wait group:
//
//	for … range payload { go worker }            (A1, A2: checked by the caller of this function)
//	for range payload { select { case v := <-C_res: acc = reduceFunc(acc, v); case e := <-C_err: errs = extend(errs, e) } }
//	return acc, errs
//
// Every worker sends exactly one acknowledgement (A2); the caller receives exactly
// len(payload) of them, so it leaves the loop when and only when every item is mapped and its
// result reduced or its error handed to the extension (join, A6), no worker stays blocked (no leak), and
// reductions are serial because only the caller's goroutine reduces (A3). acc and errs are
// values of the caller's goroutine only (A8).
func (a *amr) collectorForm(in *collectorIn) {
	fn := a.fn
	Sr := in.Sr
	rc, isCall := Sr.(*ssa.Call)
	if !isCall {
		a.bad("A3", "reduce-context", Sr, "reduceFunc is started with go/defer by the caller")
		return
	}
	a.setPre(in.Gtop)
	// ---- A10: nothing else touches the channels
	var sel *ssa.Select
	for _, s := range in.selects {
		if s.Parent() != fn || sel != nil {
			a.bad("A10", "stray-select", s, "select other than the collecting select of the helper")
			continue
		}
		sel = s
	}
	if sel == nil || !sel.Blocking {
		a.bad("A3", "reduce-context", Sr, "reduceFunc is called by the caller without a reducer goroutine, and the caller does not collect the acknowledgements with one blocking select (shape not recognised): reductions can run concurrently with workers or the caller can return early")
		return
	}
	if len(in.recvs) > 0 {
		a.bad("A10", "stray-receive", in.recvs[0], "channel receive outside the collecting select")
	}
	for _, s := range in.sends {
		if s.Parent() != in.W {
			a.bad("A10", "stray-send", s, "channel send that is not a worker acknowledgement")
		}
	}
	for _, mc := range in.makeChans {
		if mc != in.cRes && mc != in.cErr {
			a.bad("A10", "stray-chan", mc, "additional channel created by the helper")
		}
	}
	// ---- A6: exactly len(payload) receives
	cloop := loopBlocks(sel.Block())
	a.note = " [here the loop is the one in which the caller collects the acknowledgements: it must receive exactly one per item, otherwise it blocks for ever or returns while workers are still running/blocked]"
	clp := a.payloadLoop(sel, cloop)
	a.note = ""
	if clp == nil {
		return
	}
	for b := range cloop {
		if in.loop[b] {
			a.bad("A6", "collect-in-spawn-loop", sel, "the collecting loop overlaps the spawning loop")
			return
		}
	}
	if !in.lp.header.Dominates(clp.header) || in.lp.header == clp.header || (in.lp.iter != nil && !instrDominates(in.lp.iter.call, sel)) {
		a.bad("A6", "collect-before-spawn", sel, "the collecting loop is not ordered after the spawning loop: the caller waits for acknowledgements of workers it has not started")
		return
	}
	okJoin := true
	for _, ret := range returnsOf(fn) {
		if a.emptyRets[ret] {
			continue
		}
		if cloop[ret.Block()] || !clp.header.Dominates(ret.Block()) {
			a.bad("A6", "return-without-join", ret, "a return of the helper is not behind the exit of the collecting loop: it can return before all items are mapped and reduced")
			okJoin = false
		}
	}
	if okJoin {
		a.ok("A6", "join", sel, "the caller receives one acknowledgement per element of payload (induction loop to len(payload), one select per iteration, single exit) and every return lies behind the loop exit")
	}
	// ---- the two cases
	var selIdx ssa.Value
	for _, ref := range *sel.Referrers() {
		if ex, ok := ref.(*ssa.Extract); ok && ex.Index == 0 {
			selIdx = ex
		}
	}
	stateBody := func(k int) *ssa.BasicBlock {
		for _, ins := range allInstrs(fn) {
			iff, ok := ins.(*ssa.If)
			if !ok {
				continue
			}
			if bo, ok := iff.Cond.(*ssa.BinOp); ok && bo.Op == token.EQL && bo.X == selIdx {
				if c, ok := bo.Y.(*ssa.Const); ok && c.Value != nil && constant.Compare(c.Value, token.EQL, constant.MakeInt64(int64(k))) {
					return iff.Block().Succs[0]
				}
			}
		}
		return nil
	}
	recvVal := func(k int) ssa.Value {
		n := 0
		for i, st := range sel.States {
			if st.Dir == types.RecvOnly {
				if i == k {
					for _, ref := range *sel.Referrers() {
						if ex, ok := ref.(*ssa.Extract); ok && ex.Index == 2+n {
							return ex
						}
					}
					return nil
				}
				n++
			}
		}
		return nil
	}
	var resBody, errBody *ssa.BasicBlock
	var resV, errV ssa.Value
	for k, st := range sel.States {
		if st.Dir != types.RecvOnly {
			a.bad("A10", "select-send", sel, "the collecting select contains a send case")
			continue
		}
		mc := in.chanOf(st.Chan)
		body := stateBody(k)
		switch {
		case mc != nil && mc == in.cRes && resBody == nil && body != nil:
			resBody, resV = body, recvVal(k)
		case mc != nil && mc == in.cErr && errBody == nil && body != nil:
			errBody, errV = body, recvVal(k)
		default:
			a.bad("A10", "extra-select-case", sel, fmt.Sprintf("collecting select case %d is not the single receive from C_res or from C_err: an iteration can pass without taking an acknowledgement of an item", k))
		}
	}
	if resBody == nil || errBody == nil || resV == nil || errV == nil || len(resBody.Preds) != 1 || len(errBody.Preds) != 1 {
		a.bad("A4", "select-cases", sel, "the caller does not receive from both C_res and C_err in its collecting select")
		return
	}
	selBlock := sel.Block()
	inBodyOf := func(body, b *ssa.BasicBlock) bool { return body == b || body.Dominates(b) }
	// Phis of the loop header carry acc and errs from one iteration to the next.
	// chainOK(v, …): v is what the variable holds at the end of an iteration: the value
	// produced in the case `body`, the unchanged header phi on other paths, merged by phis.
	var chainOK func(v ssa.Value, hp *ssa.Phi, produced ssa.Value, body *ssa.BasicBlock, seen map[ssa.Value]bool) bool
	chainOK = func(v ssa.Value, hp *ssa.Phi, produced ssa.Value, body *ssa.BasicBlock, seen map[ssa.Value]bool) bool {
		if seen[v] {
			return true
		}
		seen[v] = true
		ph, ok := v.(*ssa.Phi)
		if !ok || ph == hp || !cloop[ph.Block()] {
			return false
		}
		for i, e := range ph.Edges {
			pred := ph.Block().Preds[i]
			switch {
			case e == produced && inBodyOf(body, pred):
			case e == ssa.Value(hp) && !inBodyOf(body, pred):
			case chainOK(e, hp, produced, body, seen):
			default:
				return false
			}
		}
		return true
	}
	// ---- A3/A4: acc = reduceFunc(acc, received)
	good := true
	if len(rc.Call.Args) != 2 || unwrap(rc.Call.Args[1]) != resV {
		a.bad("A4", "reduced-value", Sr, "the value passed to reduceFunc is not the value received from C_res")
		good = false
	}
	if !inBodyOf(resBody, Sr.Block()) {
		a.bad("A4", "reduce-in-res-case", Sr, "reduceFunc is not called in the C_res case")
		good = false
	}
	if okp, _ := mustPassUntil(resBody, selBlock, func(i ssa.Instruction) bool { return i == ssa.Instruction(Sr) }); !okp {
		a.bad("A4", "reduce-skipped", Sr, "a path through the C_res case skips reduceFunc: a successful result can be dropped")
		good = false
	}
	var accH *ssa.Phi
	if len(rc.Call.Args) == 2 {
		if ph, ok := unwrap(rc.Call.Args[0]).(*ssa.Phi); ok && ph.Block() == clp.header {
			accH = ph
		}
	}
	if accH == nil {
		a.bad("A3", "acc-threading", Sr, "reduceFunc is not applied as acc = reduceFunc(acc, v) on the accumulator carried by the collecting loop")
		return
	}
	for i, e := range accH.Edges {
		pred := accH.Block().Preds[i]
		if !cloop[pred] {
			if !a.isParam(e, a.accP) {
				a.bad("A3", "acc-initial", Sr, "the accumulator does not start as the acc parameter")
				good = false
			}
		} else if !(e == ssa.Value(rc) && inBodyOf(resBody, pred)) && !(e == ssa.Value(accH) && !inBodyOf(resBody, pred)) && !chainOK(e, accH, rc, resBody, map[ssa.Value]bool{}) {
			a.bad("A3", "acc-threading", Sr, "the result of reduceFunc does not become the accumulator of the next iteration on every path (or the accumulator is changed elsewhere in the loop)")
			good = false
		}
	}
	if good {
		a.ok("A3", "acc-threading", Sr, "acc = reduceFunc(acc, received), single site, called by the caller's goroutine only, between two receives")
	}
	// ---- A4: errs = extend(errs, received)
	var errsH *ssa.Phi
	for _, ins := range clp.header.Instrs {
		ph, ok := ins.(*ssa.Phi)
		if !ok || namedOf(ph.Type()) != modPath+"/gqlerrors.ErrorList" {
			continue
		}
		if errsH != nil {
			a.bad("A4", "errs-cell", sel, "more than one error list is carried by the collecting loop")
			return
		}
		errsH = ph
	}
	if errsH == nil {
		a.bad("A4", "err-not-recorded", sel, "the C_err case does not extend an error list carried by the collecting loop: an error is lost")
		return
	}
	goodE := true
	// the value produced in the error case: the edge value that is computed inside that case
	var produced ssa.Value
	var findProduced func(v ssa.Value, seen map[ssa.Value]bool)
	findProduced = func(v ssa.Value, seen map[ssa.Value]bool) {
		if seen[v] || v == ssa.Value(errsH) {
			return
		}
		seen[v] = true
		if ph, ok := v.(*ssa.Phi); ok && cloop[ph.Block()] {
			for _, e := range ph.Edges {
				findProduced(e, seen)
			}
			return
		}
		if ins, ok := v.(ssa.Instruction); ok && ins.Block() != nil && inBodyOf(errBody, ins.Block()) {
			produced = v
		}
	}
	for i, e := range errsH.Edges {
		if cloop[errsH.Block().Preds[i]] {
			findProduced(e, map[ssa.Value]bool{})
		}
	}
	if produced == nil {
		a.bad("A4", "err-not-recorded", sel, "the C_err case does not store into the error list: an error is lost")
		return
	}
	if !dependsOn(produced, errV) {
		a.bad("A4", "err-value", sel, "the new error list does not depend on the received error")
		goodE = false
	}
	if !dependsOn(produced, errsH) {
		a.bad("A4", "errs-overwritten", sel, "the error list is overwritten instead of extended: earlier errors are lost")
		goodE = false
	}
	for i, e := range errsH.Edges {
		pred := errsH.Block().Preds[i]
		if !cloop[pred] {
			c, isC := e.(*ssa.Const)
			if !isC || c.Value != nil {
				a.bad("A4", "errs-initial", sel, "the error list does not start empty")
				goodE = false
			}
		} else if !(e == produced && inBodyOf(errBody, pred)) && !(e == ssa.Value(errsH) && !inBodyOf(errBody, pred)) && !chainOK(e, errsH, produced, errBody, map[ssa.Value]bool{}) {
			a.bad("A4", "err-record-skipped", sel, "the extended error list does not become the list of the next iteration on every path of the C_err case (or the list is changed elsewhere in the loop)")
			goodE = false
		}
	}
	if goodE {
		a.ok("A4", "err-case", sel, "receive → errs = extend(errs, err), carried to the next iteration (how many entries the extension adds for the error — none for an empty ErrorList — is not checked)")
	}
	// ---- A8: the results are the loop-carried values at the loop exit
	okRet := true
	isErrs := func(v ssa.Value) bool { return unwrap(v) == ssa.Value(errsH) }
	for _, ret := range returnsOf(fn) {
		if len(ret.Results) != 2 || a.emptyRets[ret] {
			continue
		}
		for _, v := range a.retRoots(ret.Results[0], ret) {
			if v != ssa.Value(accH) {
				a.bad("A8", "returned-acc", ret, "the first result is not the accumulator as it leaves the collecting loop")
				okRet = false
			}
		}
		for _, v := range a.retRoots(ret.Results[1], ret) {
			if v == ssa.Value(errsH) {
				continue
			}
			if isNilConst(v) && a.underEmpty(ret.Block(), isErrs) {
				continue
			}
			if isNilConst(v) {
				a.bad("A8", "errors-dropped", ret, "the helper returns a nil error list on a path not guarded by len(errs) == 0: errors are lost")
			} else {
				a.bad("A8", "returned-errs", ret, "the second result is not the error list as it leaves the collecting loop")
			}
			okRet = false
		}
	}
	if okRet {
		a.ok("A8", "read-after-join", sel, "acc/errs are values of the caller's goroutine; both results are the loop-carried values at the loop exit (nil only under len(errs)==0)")
	}
	// ---- A9: close after the join
	for _, c := range in.closes {
		mc := in.chanOf(c.Common().Args[0])
		switch {
		case mc == nil:
			a.bad("A9", "close-unknown", c, "close of a channel that is not one of the helper's own")
		case c.Parent() != fn && a.deferredOnly(c.Parent()):
			a.ok("A9", "deferred-close", c, "inside a deferred literal: runs after the collecting loop")
		case c.Parent() != fn:
			a.bad("A9", "close-in-goroutine", c, "a helper channel is closed by a goroutine other than the caller")
		default:
			if _, isDefer := c.(*ssa.Defer); isDefer {
				a.ok("A9", "deferred-close", c, "deferred: runs after the collecting loop (A6)")
			} else if cloop[c.Block()] || !clp.header.Dominates(c.Block()) {
				a.bad("A9", "close-before-join", c, "channel closed before the collecting loop has finished: a worker can send on a closed channel")
			} else {
				a.ok("A9", "close-after-join", c, "behind the exit of the collecting loop")
			}
		}
	}
	a.r.AtLeast(a.rule, "A-obligations", len(a.r.Obligs), 10)
}
