package main

// Subscription rules (C17, C18):
//  R8a  channel ownership and frozen channel protocol
//  R8b  single writer per connection (or a common lock)
//  R5iv teardown on every exit of subscriptionHandler; R5v Listen's exit handshake
//  R12b no goroutine is spawned on the per-event path (events stay in order)
//  R3d  the message id of a data frame is the entry's constructor-only id

import (
	"fmt"
	"go/token"
	"go/types"
	"sort"
	"strconv"
	"strings"

	"golang.org/x/tools/go/ssa"
)

type chanOp struct {
	fn    *ssa.Function
	ins   ssa.Instruction
	ch    string // identity
	kind  string // send | recv | close | make | select-send | select-recv
	inSel bool
}

// chanIdent names a channel value in a refactor-stable way.
func (r *Run) chanIdent(v ssa.Value, depth int) string {
	if depth > 6 {
		return "?"
	}
	v = unwrap(v)
	switch x := v.(type) {
	case *ssa.UnOp:
		if x.Op == token.MUL {
			switch a := x.X.(type) {
			case *ssa.FieldAddr:
				if f := fieldOf(a); f != nil {
					return shortStruct(namedOf(a.X.Type())) + "." + f.Name()
				}
			case *ssa.FreeVar:
				// captured variable: resolve to the binding in the parent
				fn := a.Parent()
				for i, fv := range fn.FreeVars {
					if fv != a {
						continue
					}
					if par := fn.Parent(); par != nil {
						for _, ins := range allInstrs(par) {
							if mc, ok := ins.(*ssa.MakeClosure); ok && mc.Fn == ssa.Value(fn) && i < len(mc.Bindings) {
								if al, ok := mc.Bindings[i].(*ssa.Alloc); ok {
									sts := storesTo(al)
									if len(sts) >= 1 {
										return r.chanIdent(sts[0].Val, depth+1)
									}
								}
								if fv2, ok := mc.Bindings[i].(*ssa.FreeVar); ok {
									return r.chanIdent(&ssa.UnOp{Op: token.MUL, X: fv2}, depth+1)
								}
							}
						}
					}
				}
			case *ssa.Alloc:
				sts := storesTo(a)
				if len(sts) >= 1 {
					return r.chanIdent(sts[0].Val, depth+1)
				}
			}
		}
	case *ssa.Field:
		if f := fieldOfVal(x); f != nil {
			return shortStruct(namedOf(x.X.Type())) + "." + f.Name()
		}
	case *ssa.MakeChan:
		// a channel made for a field of an object (`closeCh: make(chan struct{})`) is that field's
		// channel, whichever function of the constructor holds the make
		if refs := x.Referrers(); refs != nil {
			for _, ref := range *refs {
				if st, ok := ref.(*ssa.Store); ok && st.Val == ssa.Value(x) {
					if fa, ok := st.Addr.(*ssa.FieldAddr); ok {
						if f := fieldOf(fa); f != nil {
							return shortStruct(namedOf(fa.X.Type())) + "." + f.Name()
						}
					}
				}
			}
		}
		return "local " + shortType(x.Type()) + " of " + fnName(topFn(x.Parent()))
	case *ssa.Parameter:
		fn := x.Parent()
		idx := paramIndex(x)
		ids := map[string]bool{}
		for _, e := range r.P.CG.In[origin(fn)] {
			if e.Kind == "param" || e.Kind == "hoarg" || e.Kind == "extarg" {
				continue
			}
			args := e.Site.Common().Args
			ai := idx
			if e.Kind == "invoke" {
				ai = idx - 1
			}
			if ai >= 0 && ai < len(args) {
				ids[r.chanIdent(args[ai], depth+1)] = true
			}
		}
		if len(ids) == 1 {
			for k := range ids {
				return k
			}
		}
		return fmt.Sprintf("param %d of %s", idx, fnName(fn))
	case *ssa.Call:
		return "result of " + calleeDesc(&x.Call)
	}
	return "?" + shortType(v.Type())
}

func topFn(fn *ssa.Function) *ssa.Function {
	for fn.Parent() != nil {
		fn = fn.Parent()
	}
	return fn
}

func (r *Run) collectChanOps(skipAMR bool) []chanOp {
	var out []chanOp
	for _, fn := range r.P.Funcs {
		if skipAMR && fnName(topFn(fn)) == "common.AsyncMapReduce" {
			continue
		}
		for _, ins := range allInstrs(fn) {
			// a helper of the fan-out that is handed its channels (`go mapOne(value, mapFunc,
			// resChan, errChan)`): those operations belong to the protocol R1 checks
			if skipAMR {
				var ch ssa.Value
				switch x := ins.(type) {
				case *ssa.Send:
					ch = x.Chan
				case *ssa.UnOp:
					if x.Op == token.ARROW {
						ch = x.X
					}
				}
				if ch != nil && strings.HasSuffix(r.chanIdent(ch, 0), "of common.AsyncMapReduce") {
					continue
				}
			}
			switch x := ins.(type) {
			case *ssa.Send:
				out = append(out, chanOp{fn, ins, r.chanIdent(x.Chan, 0), "send", false})
			case *ssa.UnOp:
				if x.Op == token.ARROW {
					out = append(out, chanOp{fn, ins, r.chanIdent(x.X, 0), "recv", false})
				}
			case *ssa.Select:
				for _, st := range x.States {
					k := "select-recv"
					if st.Dir == types.SendOnly {
						k = "select-send"
					}
					out = append(out, chanOp{fn, ins, r.chanIdent(st.Chan, 0), k, true})
				}
			case *ssa.MakeChan:
				out = append(out, chanOp{fn, ins, r.chanIdent(x, 0), "make", false})
			}
			if ci, ok := ins.(ssa.CallInstruction); ok {
				if calleeName(ci.Common()) == "builtin:close" {
					out = append(out, chanOp{fn, ins, r.chanIdent(ci.Common().Args[0], 0), "close", false})
				}
			}
		}
	}
	return out
}

// chanProtocol: the frozen protocol — "function | channel | kind" → count, reason.
var chanProtocol = map[string]tabEntry{
	"pebbles.(*Gateway).newSubscriptionEntry | subscriptionEntry.closeCh | make":                                       {1, "made once per entry by its constructor"},
	"pebbles.(*Gateway).newSubscriptionEntry | subscriptionEntry.queryerCloseCh | make":                                {1, "made once per entry by its constructor"},
	"pebbles.(*Gateway).newSubscriptionEntry | subscriptionEntry.respCh | make":                                        {1, "made once per entry by its constructor"},
	"pebbles.(*subscriptionEntry).Close | subscriptionEntry.closeCh | send":                                            {1, "stop request: blocking rendezvous with Listen's select"},
	"pebbles.(*subscriptionEntry).Listen | subscriptionEntry.respCh | select-recv":                                     {1, "event loop"},
	"pebbles.(*subscriptionEntry).Listen | subscriptionEntry.closeCh | select-recv":                                    {1, "event loop: stop request"},
	"pebbles.(*subscriptionEntry).Listen$1 | subscriptionEntry.queryerCloseCh | send":                                  {1, "tells the upstream closer goroutine to close the upstream connection (blocking rendezvous)"},
	"pebbles.(*subscriptionEntry).Listen | subscriptionEntry.queryerCloseCh | close":                                   {1, "closed by its only sender after its only send"},
	"pebbles.(*subscriptionEntry).Listen | subscriptionEntry.closeCh | close":                                          {1, "closed by the receiver; a stop request blocked in its send ends under Close's recover (repair 24353ad; R8a.own computes it)"},
	"pebbles.(*subscriptionEntry).Listen | subscriptionEntry.respCh | close":                                           {1, "closed by the receiver; every send of the upstream reader is under a recover of its own goroutine (repair 29cb2f6; R8a.own computes it)"},
	"pebbles.sendHeartbeat | Ticker.C | select-recv":                                                                   {1, "keep-alive tick"},
	"pebbles.sendHeartbeat | result of context.Context.Done | select-recv":                                             {1, "cancelled when the handler returns"},
	"queryer.(*MultiOpQueryer).Subscribe | local chan error of queryer.(*MultiOpQueryer).Subscribe | make":             {1, "errCh: result of the upstream handshake"},
	"queryer.(*MultiOpQueryer).Subscribe | local chan error of queryer.(*MultiOpQueryer).Subscribe | close":            {1, "deferred; after the single receive"},
	"queryer.(*MultiOpQueryer).Subscribe | local chan error of queryer.(*MultiOpQueryer).Subscribe | recv":             {1, "waits for the handshake result"},
	"queryer.(*MultiOpQueryer).Subscribe$1 | subscriptionEntry.queryerCloseCh | select-recv":                           {1, "upstream closer: waits for Listen's teardown send — or for the handshake to fail, in which case no Listen exists and nothing would ever be sent (repair 75a29bd)"},
	"queryer.(*MultiOpQueryer).Subscribe$1 | local chan struct{} of queryer.(*MultiOpQueryer).Subscribe | select-recv": {1, "handshake failed: closed by Subscribe on its error return"},
	"queryer.(*MultiOpQueryer).Subscribe | local chan struct{} of queryer.(*MultiOpQueryer).Subscribe | make":          {1, "failed: signals the closer that nobody is going to listen"},
	"queryer.(*MultiOpQueryer).Subscribe | local chan struct{} of queryer.(*MultiOpQueryer).Subscribe | close":         {1, "on the error return only, never sent on"},
	"queryer.(*MultiOpQueryer).Subscribe$2 | local chan error of queryer.(*MultiOpQueryer).Subscribe | send":           {-1, "exactly one handshake result per run: every send is followed by the reader's return or by the read loop, none lies in a cycle and none is reachable from another (computed: singleShotSends), so the number of failure exits that send is layout"},
	"queryer.(*MultiOpQueryer).Subscribe$2 | subscriptionEntry.respCh | send":                                          {-2, "events, upstream error payloads (list form, single-object form) and the reason why the stream ends (connection lost, undecodable frame, error frame without an error), in arrival order"},
	"queryer.(*MultiOpQueryer).Subscribe$2$1 | subscriptionEntry.respCh | send":                                        {-2, "nil = upstream finished; sent only when the handshake had succeeded (somebody listens); inside a deferred function with nested recover"},
}

// chanOwnership: channels whose closer is not their only sender — reason or finding.
var chanOwnership = map[string]string{
	"local chan error of queryer.(*MultiOpQueryer).Subscribe": "the reader goroutine sends exactly one value (no send in a cycle, none reachable from another); Subscribe receives it before its deferred close runs",
}

func ruleChannels(r *Run) {
	const rule = "R8a"
	ops := r.collectChanOps(true)
	sort.Slice(ops, func(i, j int) bool {
		if fnName(ops[i].fn) != fnName(ops[j].fn) {
			return fnName(ops[i].fn) < fnName(ops[j].fn)
		}
		return ops[i].ins.Pos() < ops[j].ins.Pos()
	})
	// the protocol is kept per top-level function: which literal of Subscribe performs an
	// operation (or whether the literal became a named function spawned from it) is layout
	proto := map[string]tabEntry{}
	hasOwn := map[string]bool{}
	for k, e := range chanProtocol {
		parts := strings.SplitN(k, " | ", 2)
		f := parts[0]
		top := f
		if i := strings.Index(top, "$"); i >= 0 {
			top = top[:i]
		}
		hasOwn[top] = true
		// who creates and who closes a channel stays tied to the goroutine that does it: moving
		// a close from the spawner into the reader it starts changes who may still be sending.
		// A literal or helper that is only called or deferred by one function runs in that
		// function's goroutine (`defer func(){ close(…) }()` → `defer se.release()` is layout);
		// sends, receives and selects are grouped per top-level function
		if !strings.HasSuffix(k, "| close") && !strings.HasSuffix(k, "| make") {
			f = top
		} else if tf := r.P.Fn(f); tf != nil {
			f = fnName(r.goroutineCtx(tf))
		}
		nk := f + " | " + parts[1]
		if old, ok := proto[nk]; ok {
			if old.N < 0 || e.N < 0 {
				// computed entries (one-shot / protected stream) stay what they are
				if e.N < old.N {
					old.N = e.N
				}
			} else {
				old.N += e.N
			}
			if !strings.Contains(old.Reason, e.Reason) {
				old.Reason += " | " + e.Reason
			}
			proto[nk] = old
		} else {
			proto[nk] = e
		}
	}
	owner := func(fn *ssa.Function) string {
		top := topFn(fn)
		name := fnName(top)
		if hasOwn[name] {
			return name
		}
		// a helper without protocol lines of its own that only one function calls/spawns
		var caller *ssa.Function
		for _, e := range r.P.CG.In[top] {
			if e.Kind == "param" {
				continue
			}
			t := topFn(e.Caller)
			if t == top {
				continue
			}
			if caller != nil && caller != t {
				return name
			}
			caller = t
		}
		if caller != nil && caller.Pkg == top.Pkg && hasOwn[fnName(caller)] {
			return fnName(caller)
		}
		return name
	}
	seen := map[string]int{}
	chanProtocolN := proto
	for _, op := range ops {
		key := owner(op.fn) + " | " + op.ch + " | " + op.kind
		if op.kind == "close" || op.kind == "make" {
			key = fnName(r.goroutineCtx(op.fn)) + " | " + op.ch + " | " + op.kind
		}
		seen[key]++
		site := r.P.pos(op.ins.Pos())
		if e, ok := chanProtocolN[key]; ok && e.N == -2 {
			// a stream of values from one goroutine to a consumer that closes the channel when it
			// stops listening: any number of send sites, each of them covered by a recover of the
			// sending goroutine (R8a.own)
			if r.recoverProtected(op.ins) {
				r.Tabled(rule, fnName(op.fn), op.kind+" "+op.ch, site, "chanProtocol", e.Reason)
			} else {
				r.Bad(rule, fnName(op.fn), op.kind+" "+op.ch, site, "a send on a channel that its consumer closes when it stops listening is not covered by a deferred recover of the sending goroutine: a value handed over at that moment panics (`send on closed channel`) and ends the process")
			}
		} else if ok && e.N < 0 {
			// a one-shot channel: any number of send sites, at most one of them on a run
			if r.singleShotSends(op.ch, ops) {
				r.Tabled(rule, fnName(op.fn), op.kind+" "+op.ch, site, "chanProtocol", e.Reason)
			} else {
				r.Bad(rule, fnName(op.fn), op.kind+" "+op.ch, site, "a second value can be sent on a channel whose receiver takes exactly one (a send lies in a loop or is reachable from another send): the sender blocks forever, or panics once the channel is closed")
			}
		} else if ok && seen[key] <= e.N {
			r.Tabled(rule, fnName(op.fn), op.kind+" "+op.ch, site, "chanProtocol", e.Reason)
		} else {
			r.Bad(rule, fnName(op.fn), op.kind+" "+op.ch, site, "channel operation outside the frozen teardown/delivery protocol (new operation, different channel, or a plain operation turned into a select alternative / vice versa): the hand-checked argument for close/stop/complete interleavings no longer covers this code")
		}
	}
	var keys []string
	for k := range chanProtocolN {
		keys = append(keys, k)
	}
	sort.Strings(keys)
	for _, k := range keys {
		if chanProtocolN[k].N < 0 && seen[k] == 0 {
			parts := strings.Split(k, " | ")
			r.Bad(rule, parts[0], "missing "+parts[2]+" "+parts[1], "-", "the protocol expects a `"+parts[2]+"` on "+parts[1]+" in "+parts[0]+", found none: the receiver waits forever")
		}
		if seen[k] < chanProtocolN[k].N {
			parts := strings.Split(k, " | ")
			r.Bad(rule, parts[0], "missing "+parts[2]+" "+parts[1], "-", fmt.Sprintf("the protocol expects %d `%s` operation(s) on %s in %s, found %d: a handshake step was removed or changed form (e.g. a blocking send/receive became one alternative of a select)", chanProtocolN[k].N, parts[2], parts[1], parts[0], seen[k]))
		}
	}
	// ownership: close only by the sole sender, else table / finding
	senders := map[string]map[string]bool{}
	closers := map[string]map[string]ssa.Instruction{}
	for _, op := range ops {
		switch op.kind {
		case "send", "select-send":
			if senders[op.ch] == nil {
				senders[op.ch] = map[string]bool{}
			}
			senders[op.ch][fnName(op.fn)] = true
		case "close":
			if closers[op.ch] == nil {
				closers[op.ch] = map[string]ssa.Instruction{}
			}
			closers[op.ch][fnName(op.fn)] = op.ins
		}
	}
	var chs []string
	for ch := range closers {
		chs = append(chs, ch)
	}
	sort.Strings(chs)
	for _, ch := range chs {
		for closer, ins := range closers[ch] {
			var others []string
			for s := range senders[ch] {
				if s != closer {
					others = append(others, s)
				}
			}
			sort.Strings(others)
			site := r.P.pos(ins.Pos())
			if len(others) == 0 {
				r.OK(rule+".own", closer, "close "+ch, site, "closed by its only sender")
				continue
			}
			// every foreign send sits under a recover of its own goroutine: a send that loses the
			// race with the close ends that goroutine, not the process
			unprotected := ""
			for _, op := range ops {
				if op.ch != ch || (op.kind != "send" && op.kind != "select-send") || fnName(op.fn) == closer {
					continue
				}
				if !r.recoverProtected(op.ins) {
					unprotected = r.P.pos(op.ins.Pos())
					break
				}
			}
			if unprotected == "" {
				r.OK(rule+".own", closer, "close "+ch, site, "closed by "+closer+" while "+strings.Join(others, ", ")+" may still send; every such send is dominated by the registration of a deferred function of its own goroutine that calls recover() directly: a late send ends the sender quietly")
				continue
			}
			if reason, ok := chanOwnership[ch]; ok {
				if ch == "local chan error of queryer.(*MultiOpQueryer).Subscribe" && !r.singleShotSends(ch, ops) {
					r.Bad(rule+".own", closer, "close "+ch, site, "the handshake channel is closed by Subscribe while the reader goroutine can send on it more than once")
					continue
				}
				r.Tabled(rule+".own", closer, "close "+ch, site, "chanOwnership", reason)
				continue
			}
			r.Bad(rule+".own", closer, "close "+ch, site, "channel is closed by "+closer+" while "+strings.Join(others, ", ")+" may still send on it from another goroutine (e.g. the send at "+unprotected+", which no recover of its goroutine covers): `send on closed channel` panics and, outside a recover, ends the process")
		}
	}
	r.AtLeast(rule, "channel operations outside AsyncMapReduce", len(ops), 20)
}

// recoverProtected: the instruction is dominated by a `defer func(){ … recover() … }()` of its
// own function, where recover is called directly by the deferred literal (a recover called
// one level deeper would not stop the panic).
func (r *Run) recoverProtected(ins ssa.Instruction) bool { return r.recoverProtectedD(ins, 0) }

func (r *Run) recoverProtectedD(ins ssa.Instruction, depth int) bool {
	fn := ins.Parent()
	for _, i2 := range allInstrs(fn) {
		d, ok := i2.(*ssa.Defer)
		if !ok || !instrDominates(d, ins) {
			continue
		}
		lit := d.Call.StaticCallee() // a literal with or without captured variables
		if lit == nil || lit.Blocks == nil || lit.Parent() != fn {
			continue
		}
		// recover runs on every path through the literal (it is not behind a condition), the
		// literal does not panic again, and no lock is held at the protected instruction (a
		// recovered panic would leave it locked). (Second table audit: these were assumed.)
		recovers, repanics := false, false
		for _, i3 := range allInstrs(lit) {
			if _, isPanic := i3.(*ssa.Panic); isPanic {
				repanics = true // go/ssa lowers panic(x) to an instruction of its own (third audit)
			}
			if c, ok := i3.(ssa.CallInstruction); ok {
				if b, ok := c.Common().Value.(*ssa.Builtin); ok {
					switch b.Name() {
					case "recover":
						every := true
						for _, ret := range returnsOf(lit) {
							if !instrDominates(i3, ret) {
								every = false
							}
						}
						if _, deferred := i3.(*ssa.Defer); !deferred && every {
							recovers = true
						}
					case "panic":
						repanics = true
					}
				}
			}
		}
		if recovers && !repanics && len(analyseLocks(fn).before[ins]) == 0 {
			return true
		}
	}
	// not protected here: a helper or a local literal that runs synchronously in its callers'
	// goroutine is protected when every place that calls it is (`se.requestStop()` under
	// Close's deferred recover; a local `report := func(…){ ch <- … }` called in the reader)
	if depth >= 3 {
		return false
	}
	n := 0
	for _, e := range r.P.CG.In[fn] {
		if e.Kind == "param" {
			continue
		}
		site, ok := e.Site.(*ssa.Call)
		if !ok {
			return false // started with go, or deferred: another goroutine or another moment
		}
		if !r.recoverProtectedD(site, depth+1) {
			return false
		}
		n++
	}
	return n > 0
}

// singleShotSends: no send on ch lies in a cycle and none is reachable from another.
func (r *Run) singleShotSends(ch string, ops []chanOp) bool {
	var sends []ssa.Instruction
	for _, op := range ops {
		if op.ch == ch && op.kind == "send" {
			sends = append(sends, op.ins)
		}
	}
	for _, a := range sends {
		if blockInCycle(a.Block()) {
			return false
		}
		// all sends in one function: a send from another literal (a deferred function of the
		// sender) runs after the sender's own and cannot be ordered against it here
		if a.Parent() != sends[0].Parent() {
			return false
		}
		for _, b := range sends {
			if a == b || a.Parent() != b.Parent() {
				continue
			}
			if a.Block() == b.Block() || blockReach(a.Block())[b.Block()] {
				return false
			}
		}
	}
	return true
}

// ---- R8b ---------------------------------------------------------------------------------

var connWriters = map[string]bool{
	"github.com/gobwas/ws/wsutil.WriteServerText": true, "github.com/gobwas/ws/wsutil.WriteClientText": true,
	"github.com/gobwas/ws/wsutil.WriteServerMessage": true, "github.com/gobwas/ws/wsutil.WriteClientMessage": true,
	"github.com/gobwas/ws.WriteHeader": true, "github.com/gobwas/ws.WriteFrame": true,
	"invoke:(net.Conn).Write": true, "(net.Conn).Write": true,
	// the reading helpers of wsutil answer control frames (ping -> pong, close -> close) on the
	// writer half of the same connection ("may handle and write control frames into the writer
	// part"): a read loop is a writer too (second table audit, repro/audit5: a pong lands between
	// header and payload of a data frame even when every explicit write holds a mutex)
	"github.com/gobwas/ws/wsutil.ReadClientText": true, "github.com/gobwas/ws/wsutil.ReadServerText": true,
	"github.com/gobwas/ws/wsutil.ReadClientBinary": true, "github.com/gobwas/ws/wsutil.ReadServerBinary": true,
	"github.com/gobwas/ws/wsutil.ReadClientData": true, "github.com/gobwas/ws/wsutil.ReadServerData": true,
	"github.com/gobwas/ws/wsutil.ReadClientMessage": true, "github.com/gobwas/ws/wsutil.ReadServerMessage": true,
	"github.com/gobwas/ws/wsutil.ReadData": true, "github.com/gobwas/ws/wsutil.ReadMessage": true,
}

func ruleConnWriters(r *Run) {
	const rule = "R8b"
	type site struct {
		fn  *ssa.Function
		ins ssa.Instruction
	}
	byConn := map[string][]site{}
	for _, fn := range r.P.Funcs {
		for _, ins := range allInstrs(fn) {
			ci, ok := ins.(ssa.CallInstruction)
			if !ok {
				continue
			}
			n := calleeName(ci.Common())
			if !connWriters[n] && !wsIOCall(ci.Common()) {
				continue
			}
			// which connection: client side (server-role writes, handler package) or upstream
			conn := "client connection"
			if shortPkg(topFn(fn).Pkg.Pkg.Path()) == "queryer" {
				conn = "upstream connection"
			}
			byConn[conn] = append(byConn[conn], site{fn, ins})
		}
	}
	// goroutine context of a function: the go-statement callee (or handler entry) it runs under
	ctxOf := func(fn *ssa.Function) string {
		var ctxs []string
		for _, g := range r.P.Funcs {
			for _, ins := range allInstrs(g) {
				gi, ok := ins.(*ssa.Go)
				if !ok {
					continue
				}
				for _, e := range r.P.CG.Out[g] {
					if e.Site == ssa.CallInstruction(gi) && r.P.CG.Reachable([]*ssa.Function{e.Callee}, nil)[fn] {
						ctxs = append(ctxs, "goroutine "+fnName(e.Callee))
					}
				}
			}
		}
		if len(ctxs) == 0 {
			// not under any go statement: it runs on the goroutine of the HTTP entry that
			// reaches it synchronously (a helper split out of the handler keeps its context)
			noGo := func(e *Edge) bool { _, spawned := e.Site.(*ssa.Go); return spawned }
			for _, entry := range []string{"pebbles.(*Gateway).subscriptionHandler", "pebbles.(*Gateway).queryHandler"} {
				if h := r.P.Fn(entry); h != nil && r.P.CG.Reachable([]*ssa.Function{h}, noGo)[fn] {
					return "handler goroutine (" + entry + ")"
				}
			}
			return "handler goroutine (" + fnName(topFn(fn)) + ")"
		}
		sort.Strings(ctxs)
		return strings.Join(ctxs, "+")
	}
	// a goroutine context stands for several goroutines of ONE connection when its go statement
	// can run more than once after the connection was made: it sits in a loop, or in a function
	// called from inside a loop, of the code reachable from the function that makes the connection
	severalFor := func(conn string) map[string]bool {
		maker := "Upgrade"
		if conn == "upstream connection" {
			maker = "Dial"
		}
		var creators []*ssa.Function
		for _, g := range r.P.Funcs {
			for _, ins := range allInstrs(g) {
				if ci, ok := ins.(ssa.CallInstruction); ok {
					cn := calleeName(ci.Common())
					if strings.Contains(cn, "gobwas/ws") && (strings.HasSuffix(cn, "."+maker) || strings.HasSuffix(cn, ")."+maker) || strings.HasSuffix(cn, "."+maker+"HTTP")) {
						creators = append(creators, g)
					}
				}
			}
		}
		region := r.P.CG.Reachable(creators, nil)
		looped := map[*ssa.Function]bool{}
		for g := range region {
			for _, ins := range allInstrs(g) {
				ci, ok := ins.(ssa.CallInstruction)
				if !ok || !inAnyLoop(ins.Block()) {
					continue
				}
				if _, isGo := ins.(*ssa.Go); isGo {
					continue
				}
				for _, e := range r.P.CG.Out[g] {
					if e.Site == ci {
						for f := range r.P.CG.Reachable([]*ssa.Function{e.Callee}, nil) {
							looped[f] = true
						}
					}
				}
			}
		}
		several := map[string]bool{}
		for g := range region {
			for _, ins := range allInstrs(g) {
				gi, ok := ins.(*ssa.Go)
				if !ok || !(inAnyLoop(gi.Block()) || looped[g]) {
					continue
				}
				for _, e := range r.P.CG.Out[g] {
					if e.Site == ssa.CallInstruction(gi) {
						several["goroutine "+fnName(e.Callee)] = true
					}
				}
			}
		}
		return several
	}
	n := 0
	for conn, sites := range byConn {
		several := severalFor(conn)
		ctxs := map[string][]site{}
		for _, s := range sites {
			c := ctxOf(s.fn)
			ctxs[c] = append(ctxs[c], s)
		}
		var names []string
		for c := range ctxs {
			names = append(names, c)
		}
		sort.Strings(names)
		for _, ck := range names {
			for _, kind := range []string{"write to ", "control-frame replies on "} {
				c := ck
				// one obligation per (connection, writer context, kind of write); sites are listed in the argument
				var where []string
				locked := true
				for _, s := range ctxs[c] {
					isReply := strings.Contains(calleeName(s.ins.(ssa.CallInstruction).Common()), ".Read")
					if isReply != (kind != "write to ") {
						continue
					}
					n++
					where = append(where, r.P.pos(s.ins.Pos()))
					la := analyseLocks(s.fn)
					if len(la.before[s.ins]) == 0 {
						locked = false
					}
				}
				if len(where) == 0 {
					continue
				}
				construct := kind + conn + " from " + c
				switch {
				case len(names) == 1 && !several[c]:
					r.OK(rule, "", construct, where[0], "only one goroutine writes this connection (its go statement, if any, is not in a loop)")
				case locked:
					r.OK(rule, "", construct, where[0], "a mutex is held at every write of this context")
				default:
					what := "this context writes at "
					if kind != "write to " {
						what = "the reading helper of wsutil answers ping and close frames on the same connection, at "
					}
					r.Bad(rule, "", construct, where[0], "the "+conn+" is written from "+fmt.Sprint(len(names))+" goroutine contexts ("+strings.Join(names, "; ")+"; a context started in a loop stands for several goroutines) without a common lock ("+what+strings.Join(where, ", ")+"): wsutil writes a frame as header + payload in separate Write calls, so frames from different goroutines can interleave and the peer receives a corrupted message")
				}
			}
		}
	}
	r.AtLeast(rule, "connection write sites", n, 6)
}

// ---- R5 iv / v -----------------------------------------------------------------------------

func ruleTeardown(r *Run) {
	const rule = "R5.teardown"
	h := r.Anchor(rule, "pebbles.(*Gateway).subscriptionHandler")
	if h != nil {
		// the upgrade call and its success side
		var upg *ssa.Call
		for _, ins := range allInstrs(h) {
			if c, ok := ins.(*ssa.Call); ok && strings.HasSuffix(calleeName(&c.Call), "HTTPUpgrader).Upgrade") {
				upg = c
			}
		}
		var cancelDefer, tearDefer *ssa.Defer
		var tear *ssa.Function
		for _, ins := range allInstrs(h) {
			d, ok := ins.(*ssa.Defer)
			if !ok {
				continue
			}
			if mc, ok := d.Call.Value.(*ssa.MakeClosure); ok {
				tearDefer = d
				tear = mc.Fn.(*ssa.Function)
			} else if sf := d.Call.StaticCallee(); sf != nil && inModule(sf) && sf.Blocks != nil {
				tearDefer = d
				tear = sf
			} else if _, ok := d.Call.Value.(*ssa.Extract); ok {
				cancelDefer = d // cancel func from context.WithCancel
			} else if ld, ok := d.Call.Value.(*ssa.UnOp); ok && ld.Op == token.MUL {
				// the same through the variable's cell (the cancel func is also captured by a literal)
				if al, ok := ld.X.(*ssa.Alloc); ok {
					for _, st := range storesTo(al) {
						if ex, ok := st.Val.(*ssa.Extract); ok {
							if c, ok := ex.Tuple.(*ssa.Call); ok && strings.HasSuffix(calleeName(&c.Call), "context.WithCancel") {
								cancelDefer = d
							}
						}
					}
				}
			}
		}
		// no `defer cancel()` of its own: the deferred teardown calls the cancel func on every path
		if cancelDefer == nil && tearDefer != nil && tear != nil && len(tear.Blocks) > 0 {
			callsCancel := func(i ssa.Instruction) bool {
				ci, ok := i.(ssa.CallInstruction)
				if !ok {
					return false
				}
				v := ci.Common().Value
				if ld, ok := v.(*ssa.UnOp); ok && ld.Op == token.MUL {
					v = ld.X
				}
				fv, ok := v.(*ssa.FreeVar)
				return ok && strings.Contains(fv.Type().String(), "context.CancelFunc")
			}
			if ok, _ := mustPass(tear.Blocks[0], 0, callsCancel); ok {
				cancelDefer = tearDefer
			}
		}
		if upg == nil || tearDefer == nil || cancelDefer == nil {
			r.Bad(rule, fnName(h), "shape", r.P.pos(h.Pos()), "upgrade call, deferred cancel or deferred teardown literal not found (shape not recognised)")
		} else {
			okC, okT := true, true
			for _, ret := range returnsOf(h) {
				if !instrDominates(cancelDefer, ret) {
					// the cancel func lives in the teardown: before the upgrade has succeeded
					// nothing was started that it would have to stop
					exempt := false
					if cancelDefer == tearDefer {
						exempt = !instrDominates(upg, ret)
						for _, ref := range *upg.Referrers() {
							if ex, ok := ref.(*ssa.Extract); ok && isErrorish(ex.Type()) {
								for _, t := range failureTests(ex) {
									if t.fail == ret.Block() || t.fail.Dominates(ret.Block()) {
										exempt = true
									}
								}
							}
						}
					}
					if !exempt {
						okC = false
					}
				}
				if instrDominates(upg, ret) && !instrDominates(tearDefer, ret) {
					// returns on the failed-upgrade side are exempt
					onFail := false
					for _, ref := range *upg.Referrers() {
						if ex, ok := ref.(*ssa.Extract); ok && isErrorish(ex.Type()) {
							for _, t := range failureTests(ex) {
								if t.fail == ret.Block() || t.fail.Dominates(ret.Block()) {
									onFail = true
								}
							}
						}
					}
					if !onFail {
						okT = false
					}
				}
			}
			r.Check(okC, rule, fnName(h), "defer cancel()", r.P.pos(cancelDefer.Pos()), "registered before every return: the heartbeat goroutine is cancelled on every exit", "a return of the websocket handler is not preceded by `defer cancel()`: the heartbeat goroutine would never stop")
			r.Check(okT, rule, fnName(h), "deferred teardown", r.P.pos(tearDefer.Pos()), "registered before every return that follows a successful upgrade", "after a successful upgrade the handler can return without its deferred teardown")
			// inside the teardown literal: CleanAll and conn.Close on every path
			for _, want := range []struct{ what, suffix, bad string }{
				{"subDict.CleanAll()", "subscriptionDict).CleanAll", "running subscriptions are not stopped on some exit of the teardown (e.g. when the close frame cannot be written because the client vanished): their upstream connections and goroutines stay alive"},
				{"conn.Close()", "net.Conn).Close", "the client connection is not closed on some exit of the teardown"},
			} {
				ok, bad := mustPass(tear.Blocks[0], 0, func(i ssa.Instruction) bool {
					ci, isCall := i.(ssa.CallInstruction)
					return isCall && strings.HasSuffix(calleeName(ci.Common()), want.suffix)
				})
				site := r.P.pos(tear.Pos())
				if !ok && bad != nil {
					site = r.P.pos(retPos(bad.(*ssa.Return)))
				}
				r.Check(ok, rule, fnName(tear), want.what, site, "executed (directly or deferred) on every path through the teardown", want.bad)
			}
		}
	}
	// (v) Listen: deferred exit handshake
	l := r.Anchor(rule, "pebbles.(*subscriptionEntry).Listen")
	if l != nil {
		var d *ssa.Defer
		var lit *ssa.Function
		for _, ins := range allInstrs(l) {
			if dd, ok := ins.(*ssa.Defer); ok {
				if mc, ok := dd.Call.Value.(*ssa.MakeClosure); ok {
					d = dd
					lit = mc.Fn.(*ssa.Function)
				} else if sf := dd.Call.StaticCallee(); sf != nil && inModule(sf) && sf.Blocks != nil {
					d = dd
					lit = sf
				}
			}
		}
		if d == nil {
			r.Bad(rule, fnName(l), "deferred exit handshake", r.P.pos(l.Pos()), "Listen has no deferred teardown literal")
		} else {
			ok := true
			for _, ret := range returnsOf(l) {
				if !instrDominates(d, ret) {
					ok = false
				}
			}
			r.Check(ok, rule, fnName(l), "deferred exit handshake", r.P.pos(d.Pos()), "registered before every return of Listen", "Listen can return without its deferred teardown")
			// the literal: send on queryerCloseCh on every path, then isClosed = true under the lock
			okSend, _ := mustPass(lit.Blocks[0], 0, func(i ssa.Instruction) bool {
				s, isSend := i.(*ssa.Send)
				return isSend && r.chanIdent(s.Chan, 0) == "subscriptionEntry.queryerCloseCh"
			})
			r.Check(okSend, rule, fnName(lit), "signal upstream closer", r.P.pos(lit.Pos()), "every path tells the upstream closer goroutine to close the upstream connection", "some exit of a subscription does not signal queryerCloseCh: the upstream connection and its two goroutines leak")
			okFlag, _ := mustPass(lit.Blocks[0], 0, func(i ssa.Instruction) bool {
				isTrue := func(v ssa.Value) bool {
					k, isK := v.(*ssa.Const)
					return isK && k.Value != nil && k.Value.ExactString() == "true"
				}
				// the flag kept as a sync/atomic.Bool: isClosed.Store(true)
				if c, isCall := i.(*ssa.Call); isCall && calleeName(&c.Call) == "(*sync/atomic.Bool).Store" && len(c.Call.Args) == 2 {
					fa, ok := c.Call.Args[0].(*ssa.FieldAddr)
					return ok && fieldOf(fa) != nil && fieldOf(fa).Name() == "isClosed" && isTrue(c.Call.Args[1])
				}
				st, isSt := i.(*ssa.Store)
				if !isSt {
					return false
				}
				fa, ok := st.Addr.(*ssa.FieldAddr)
				return ok && fieldOf(fa) != nil && fieldOf(fa).Name() == "isClosed" && isTrue(st.Val)
			})
			r.Check(okFlag, rule, fnName(lit), "isClosed = true", r.P.pos(lit.Pos()), "every path marks the entry closed", "some exit leaves isClosed false: a later Close() blocks forever on closeCh")
		}
	}
}

// ---- R12b / R3d ---------------------------------------------------------------------------

func ruleEventPath(r *Run) {
	const rule = "R12b"
	l := r.Anchor(rule, "pebbles.(*subscriptionEntry).Listen")
	if l == nil {
		return
	}
	reach := r.P.CG.Reachable([]*ssa.Function{l}, nil)
	n := 0
	var fns []*ssa.Function
	for fn := range reach {
		fns = append(fns, fn)
	}
	sort.Slice(fns, func(i, j int) bool { return fnName(fns[i]) < fnName(fns[j]) })
	for _, fn := range fns {
		n++
		if fnName(topFn(fn)) == "common.AsyncMapReduce" {
			continue // joined before it returns (R1)
		}
		for _, ins := range allInstrs(fn) {
			if g, ok := ins.(*ssa.Go); ok {
				r.Bad(rule, fnName(fn), "go on the event path", r.P.pos(g.Pos()), "a goroutine is started between receiving an upstream event and writing it to the client: events of one subscription can then be written out of order (and write errors are no longer seen by Listen)")
			}
		}
	}
	r.OK(rule, fnName(l), "event path is sequential", r.P.pos(l.Pos()), fmt.Sprintf("%d functions reachable from Listen; the only goroutines are those of AsyncMapReduce, joined before return", n))
	// each event is stitched (prepareResponse) and then written by the same goroutine: the write
	// is in Listen or in a function Listen calls (not spawns) after prepareResponse
	var prep, write ssa.Instruction
	sync := r.P.CG.Reachable([]*ssa.Function{l}, func(e *Edge) bool { _, isGo := e.Site.(*ssa.Go); return isGo })
	for _, ins := range allInstrs(l) {
		ci, ok := ins.(ssa.CallInstruction)
		if !ok {
			continue
		}
		if _, isGo := ins.(*ssa.Go); isGo {
			continue
		}
		cn := calleeName(ci.Common())
		if strings.HasSuffix(cn, "subscriptionEntry).prepareResponse") {
			prep = ins
		}
		if strings.HasSuffix(cn, "wsutil.WriteServerText") {
			write = ins
		}
		for _, e := range r.P.CG.Out[l] {
			if e.Site != ci || e.Kind != "static" {
				continue
			}
			for g := range r.P.CG.Reachable([]*ssa.Function{e.Callee}, func(e *Edge) bool { _, isGo := e.Site.(*ssa.Go); return isGo }) {
				for _, i2 := range allInstrs(g) {
					if c2, ok := i2.(ssa.CallInstruction); ok && strings.HasSuffix(calleeName(c2.Common()), "wsutil.WriteServerText") {
						write = ins
					}
				}
			}
		}
	}
	r.Check(prep != nil && write != nil && (instrDominates(prep, write) || prep == write), rule, fnName(l), "stitch then write", r.P.pos(l.Pos()),
		"each event is passed through prepareResponse and then written, in the receiving goroutine",
		"Listen no longer writes each event itself (directly or through a synchronous helper) after prepareResponse")
	// R3d: message id — the ID of the ServerSubMsg built on the event path is the receiver's id field
	okID := false
	for g := range sync {
		if topFn(g).Pkg == nil || topFn(g).Pkg.Pkg.Path() != modPath || len(g.Params) == 0 {
			continue
		}
		for _, ins := range allInstrs(g) {
			st, ok := ins.(*ssa.Store)
			if !ok {
				continue
			}
			fa, ok := st.Addr.(*ssa.FieldAddr)
			if !ok || fieldOf(fa) == nil || fieldOf(fa).Name() != "ID" || !strings.HasSuffix(namedOf(fa.X.Type()), "requests.ServerSubMsg") {
				continue
			}
			if ld, ok := st.Val.(*ssa.UnOp); ok && ld.Op == token.MUL {
				if fa2, ok := ld.X.(*ssa.FieldAddr); ok && fieldOf(fa2) != nil && fieldOf(fa2).Name() == "id" && throughCell(fa2.X) == ssa.Value(g.Params[0]) && namedOf(g.Params[0].Type()) == modPath+".subscriptionEntry" {
					okID = true
				}
			}
		}
	}
	r.Check(okID, "R3d", fnName(l), "data frame id", r.P.pos(l.Pos()), "the id of every data frame is the entry's own id", "data frames are not labelled with the subscription entry's own id")
	// id is written only by the constructor
	for _, fn := range r.P.Funcs {
		for _, ins := range allInstrs(fn) {
			st, ok := ins.(*ssa.Store)
			if !ok {
				continue
			}
			fa, ok := st.Addr.(*ssa.FieldAddr)
			if !ok || fieldOf(fa) == nil || namedOf(fa.X.Type()) != modPath+".subscriptionEntry" {
				continue
			}
			f := fieldOf(fa).Name()
			if f == "isClosed" {
				continue
			}
			if freshObject(fn, fa.X, 0) {
				r.OK("R3d", fnName(fn), "store subscriptionEntry."+f, r.P.pos(st.Pos()), "constructor: the entry was allocated in this function (or by a helper that allocates it and hands it to nobody else)")
			} else {
				r.Bad("R3d", fnName(fn), "store subscriptionEntry."+f, r.P.pos(st.Pos()), "a field of a live subscription entry (other than isClosed) is rewritten after construction: ids/channels/plan of a running subscription must not change")
			}
		}
	}
}

// freshObject: v, used in fn, is an object this activation of fn has just made: an allocation of
// fn itself, or the result of a module function every return of which is an allocation of its
// own that it hands to nobody but its caller (`subEntry := newEntry(id)`: only fields are set
// before it is returned).
func freshObject(fn *ssa.Function, v ssa.Value, depth int) bool {
	switch x := v.(type) {
	case *ssa.Alloc:
		return x.Parent() == fn
	case *ssa.Call:
		sc := x.Call.StaticCallee()
		if x.Parent() != fn || sc == nil || !inModule(sc) || sc.Blocks == nil || depth > 2 {
			return false
		}
		rets := returnsOf(sc)
		if len(rets) == 0 {
			return false
		}
		for _, ret := range rets {
			vals := retVals(ret)
			if len(vals) != 1 {
				return false
			}
			switch y := vals[0].(type) {
			case *ssa.Alloc:
				if y.Parent() != sc || y.Referrers() == nil {
					return false
				}
				for _, ref := range *y.Referrers() {
					switch ref.(type) {
					case *ssa.FieldAddr, *ssa.Return, *ssa.DebugRef:
					default:
						return false // stored, captured or passed on before it is returned
					}
				}
			case *ssa.Call:
				if !freshObject(sc, y, depth+1) {
					return false
				}
			default:
				return false
			}
		}
		return true
	}
	return false
}

// throughCell looks through a load of a single-assignment local cell (a parameter that is
// captured by a closure lives in such a cell).
func throughCell(v ssa.Value) ssa.Value {
	if ld, ok := v.(*ssa.UnOp); ok && ld.Op == token.MUL {
		if al, ok := ld.X.(*ssa.Alloc); ok {
			if sts := storesTo(al); len(sts) == 1 {
				return sts[0].Val
			}
		}
	}
	return v
}

// ruleUpstreamForward (R12b.fwd): in the upstream reader of MultiOpQueryer.Subscribe, every
// frame recognised as a data frame is sent on the result channel before the next frame is
// read: no branch between the type test and the send loops back without forwarding.
func ruleUpstreamForward(r *Run) {
	const rule = "R12b.fwd"
	sub := r.Anchor(rule, "queryer.(*MultiOpQueryer).Subscribe")
	if sub == nil {
		return
	}
	n := 0
	for _, fn := range withClosures(sub) {
		reads := false
		for _, ins := range allInstrs(fn) {
			if c, ok := ins.(*ssa.Call); ok && frameRead(&c.Call, 0) {
				reads = true
			}
		}
		if !reads {
			continue
		}
		for _, ins := range allInstrs(fn) {
			iff, ok := ins.(*ssa.If)
			if !ok {
				continue
			}
			bo, ok := iff.Cond.(*ssa.BinOp)
			if !ok || bo.Op != token.EQL {
				continue
			}
			isData := false
			for _, v := range []ssa.Value{bo.X, bo.Y} {
				if k, ok := v.(*ssa.Const); ok && k.Value != nil && k.Value.ExactString() == `"data"` {
					isData = true
				}
			}
			if !isData {
				continue
			}
			n++
			loop := innermostLoop(iff.Block())
			var header *ssa.BasicBlock
			for b := range loop {
				for _, p := range b.Preds {
					if !loop[p] {
						header = b
					}
				}
			}
			ok2 := header != nil
			if ok2 {
				ok2, _ = mustPassUntil(iff.Block().Succs[0], header, func(i ssa.Instruction) bool {
					_, isSend := i.(*ssa.Send)
					return isSend
				})
			}
			r.Check(ok2, rule, fnName(fn), "data frame forwarded", r.P.pos(iff.Cond.Pos()),
				"every path from the data-frame case back to the next read sends on the result channel",
				"a frame recognised as `data` can be skipped (the loop continues without sending it on the result channel): an event the owning service emitted — for instance one that carries only errors — never reaches the client")
		}
	}
	r.AtLeast(rule, "data-frame cases in the upstream reader", n, 1)
	// an upstream `error` / `connection_error` frame is an upstream error: it has to be handed
	// on (a send on the result channel) before the reader gives up
	nErr := 0
	for _, fn := range withClosures(sub) {
		for _, ins := range allInstrs(fn) {
			iff, ok := ins.(*ssa.If)
			if !ok {
				continue
			}
			errConst := func(fnc *ssa.Function, x ssa.Value) string {
				bo, ok := x.(*ssa.BinOp)
				if !ok || bo.Op != token.EQL {
					return ""
				}
				for _, v := range []ssa.Value{bo.X, bo.Y} {
					if k, ok := v.(*ssa.Const); ok && k.Value != nil && (k.Value.ExactString() == `"error"` || k.Value.ExactString() == `"connection_error"`) {
						return k.Value.ExactString()
					}
				}
				return ""
			}
			which := errConst(fn, iff.Cond)
			if c, ok := iff.Cond.(*ssa.Call); ok && which == "" {
				// the test moved into a predicate of the module (`isUpstreamFailure(frame.Type)`)
				if sc := c.Call.StaticCallee(); sc != nil && inModule(sc) && sc.Blocks != nil && len(returnsOf(sc)) > 0 {
					for _, i3 := range allInstrs(sc) {
						if v, ok := i3.(ssa.Value); ok {
							if w := errConst(sc, v); w != "" {
								which = w + " (through " + fnName(sc) + ")"
							}
						}
					}
				}
			}
			if which == "" {
				continue
			}
			nErr++
			// what is sent has to say that something failed: a response built here with its
			// Errors filled in (the frame's own payload read as a response carries none)
			// Filled in means: known to hold an error on every way to the send — a list made
			// from an error that is not nil, a literal whose elements are not nil, a decoded list
			// that was tested; not a variable that is nil on one of the paths.
			okFwd, _ := mustPass(iff.Block().Succs[0], 0, func(i ssa.Instruction) bool {
				ev, at, ok := r.sentErrorsAt(i, 0)
				return ok && r.carriesError(ev, at, 0)
			})
			r.Check(okFwd, "R12b.err", fnName(fn), "upstream "+which+" frame forwarded", r.P.pos(iff.Cond.Pos()),
				"a response whose error list holds an error on every path (made from a non-nil error, a literal of non-nil elements, or a decoded list tested to be non-empty and free of nulls) is sent on the result channel before the reader returns",
				"an upstream frame of type "+which+" ends the reader without a response that is known to carry an error being sent on the result channel (nothing is sent, or the error list sent can be nil, empty or hold a nil entry on some path): the subscriber is told nothing — no error, no completion — or gets an event with neither data nor errors")
		}
	}
	r.AtLeast("R12b.err", "upstream error-frame cases in the reader", nErr, 1)
	// R12b.err.empty: an error list taken from a decoded frame is handed on as "the upstream's
	// errors" only after its length has been tested: a frame that decodes as an error frame with
	// an empty list (`payload: []`) is not an error message, and handing it on gives the
	// subscriber an event that carries neither data nor an error (second table audit).
	nList := 0
	for _, fn := range withClosures(sub) {
		for _, ins := range allInstrs(fn) {
			// a send, or a call of a helper that sends what it is handed (`fail(errs)`)
			errsVal, at, ok := r.sentErrorsAt(ins, 0)
			if !ok {
				continue
			}
			counted, guarded := decodedListGuarded(at, errsVal, 0)
			if !counted {
				continue // built here (a literal, FormatError): not taken from a frame
			}
			nList++
			r.Check(guarded, "R12b.err.empty", fnName(fn), "decoded error list handed on", r.P.pos(ins.Pos()),
				"the decoded list is tested to be non-empty and to hold no null before it is handed on as the upstream's errors",
				"an error list decoded from an upstream frame is handed on without having been tested to be non-empty and free of null entries: a frame such as {\"type\":\"data\",\"payload\":[]} or {\"type\":\"error\",\"payload\":[null]} decodes as an error frame with no errors and reaches the subscriber as an event with neither data nor an error")
		}
	}
	r.AtLeast("R12b.err.empty", "decoded error lists handed on by the reader", nList, 1)
	// R12b.end: the reader tells Listen that the stream is over (a nil response) on EVERY way
	// out, not only when the upstream says `complete`: the send sits in a function the reader
	// defers before anything can make it return (third audit: moved into the `complete` case,
	// a dropped upstream connection left Listen waiting for ever) — itself or in a helper that
	// function calls — and nothing but the handshake flag decides whether it is executed (fifth
	// audit: `if started && !reported`, with reported set after an error response)
	nEnd := 0
	syncOnly := func(e *Edge) bool { _, isGo := e.Site.(*ssa.Go); return isGo }
	var endRegion []*ssa.Function
	for fn := range r.P.CG.Reachable(withClosures(sub), syncOnly) {
		endRegion = append(endRegion, fn)
	}
	sort.Slice(endRegion, func(i, j int) bool { return fnName(endRegion[i]) < fnName(endRegion[j]) })
	for _, fn := range endRegion {
		for _, ins := range allInstrs(fn) {
			snd, ok := ins.(*ssa.Send)
			if !ok || !isNilConst(unwrap(snd.X)) || !strings.Contains(snd.Chan.Type().String(), "requests.Response") {
				continue
			}
			nEnd++
			good := r.endSignalled(fn, snd, 0)
			r.Check(good, "R12b.end", fnName(fn), "end of stream signalled on every exit", r.P.pos(snd.Pos()),
				"the nil response is sent on every path through a function the reader defers ahead of all its returns (directly or through a helper called there); the only condition around it is a flag that is set once, before the first frame is read — until then nobody listens",
				"the reader signals the end of the stream (nil response) only on some of its exits — the send is not in a function deferred ahead of every return, or it sits behind a condition other than the flag that is set once before the first frame is read: when the reader leaves another way — the upstream connection drops, a frame cannot be decoded — Listen keeps waiting for a stream that is over, and the subscription and its goroutines stay behind")
		}
	}
	r.AtLeast("R12b.end", "end-of-stream signals of the reader", nEnd, 1)
	// R12b.skip: what kind of frame was read is decided on the decoded message, not on the
	// bytes of the frame: a branch whose condition looks into the raw frame (bytes.Contains,
	// a prefix test, a helper handed the bytes that does not decode them) and one side of which
	// reads the next frame — or leaves the reader — without the frame having gone through the
	// decoder drops every frame whose payload happens to look like the pattern. The same holds
	// for its length: a length test may guard an index, it does not decide that a frame is not
	// worth decoding.
	nRead := 0
	for _, fn := range withClosures(sub) {
		for _, ins := range allInstrs(fn) {
			rd, ok := ins.(*ssa.Call)
			if !ok || !frameRead(&rd.Call, 0) {
				continue
			}
			loop := innermostLoop(rd.Block())
			if loop == nil {
				continue
			}
			nRead++
			isDecode := func(i ssa.Instruction) bool {
				ci, ok := i.(ssa.CallInstruction)
				if !ok {
					return false
				}
				if decodes(r, ci.Common(), 0) {
					return true
				}
				return false
			}
			var raw func(v ssa.Value, depth int) bool
			seenRaw := map[ssa.Value]bool{}
			raw = func(v ssa.Value, depth int) bool {
				if v == nil || seenRaw[v] || depth > 12 {
					return false
				}
				seenRaw[v] = true
				switch x := v.(type) {
				case *ssa.Extract:
					if x.Tuple == ssa.Value(rd) {
						_, isBytes := x.Type().Underlying().(*types.Slice)
						bt, isStr := x.Type().Underlying().(*types.Basic)
						return isBytes || (isStr && bt.Info()&types.IsString != 0)
					}
					return raw(x.Tuple, depth+1)
				case *ssa.Call:
					if x == rd {
						_, isBytes := x.Type().Underlying().(*types.Slice)
						bt, isStr := x.Type().Underlying().(*types.Basic)
						return isBytes || (isStr && bt.Info()&types.IsString != 0)
					}
					if decodes(r, &x.Call, 0) {
						return false
					}
					for _, a := range x.Call.Args {
						if raw(a, depth+1) {
							return true
						}
					}
					return false
				case *ssa.Const, *ssa.Global, *ssa.Parameter, *ssa.FreeVar, *ssa.Alloc, *ssa.Function:
					return false
				case ssa.Instruction:
					for _, op := range operandsOf(x) {
						if raw(op, depth+1) {
							return true
						}
					}
				}
				return false
			}
			nIf := 0
			var loopBlocks []*ssa.BasicBlock
			for b := range loop {
				loopBlocks = append(loopBlocks, b)
			}
			sort.Slice(loopBlocks, func(i, j int) bool { return loopBlocks[i].Index < loopBlocks[j].Index })
			for _, b := range loopBlocks {
				iff, ok := b.Instrs[len(b.Instrs)-1].(*ssa.If)
				if !ok || !instrDominates(rd, iff) {
					continue
				}
				seenRaw = map[ssa.Value]bool{}
				if !raw(iff.Cond, 0) {
					continue
				}
				nIf++
				// both sides, the one that leaves the loop included: a frame the reader gives up on
				// without decoding it is as lost as one it skips
				good := true
				for _, s := range b.Succs {
					if !decodedBefore(s, rd.Block(), isDecode) {
						good = false
					}
				}
				key := "frame kind decided on the decoded message"
				if nIf > 1 {
					key += "#" + strconv.Itoa(nIf)
				}
				r.Check(good, "R12b.skip", fnName(fn), key, r.P.pos(iff.Cond.Pos()),
					"the branch looks at the raw frame (its bytes or its length), but both sides still run the frame through the decoder before the next read or the end of the reader",
					"a branch on the raw bytes or the length of an upstream frame goes on to the next read, or ends the reader, without decoding the frame: a data frame whose payload happens to contain the pattern (or to have that size) is dropped, and the event never reaches the subscriber")
			}
			if nIf == 0 {
				r.OK("R12b.skip", fnName(fn), "frame kind decided on the decoded message", r.P.pos(rd.Pos()), "no branch of the read loop depends on the raw bytes of the frame or on its length (the decoder apart)")
			}
		}
	}
	r.AtLeast("R12b.skip", "upstream frame reads in a loop", nRead, 1)
}

// decodedListGuarded: v, used in block `at`, is a list loaded from a decoded struct (counted)
// and every way to `at` has tested it to be non-empty (guarded). The decoding may sit in a
// helper of the module that returns the list next to an error: then every return of the helper
// that hands out the list is guarded in the helper, the other returns hand out nil together
// with an error, and `at` lies on the success side of the caller's test of that error.
func decodedListGuarded(at *ssa.BasicBlock, v ssa.Value, depth int) (counted, guarded bool) {
	v = unwrap(v)
	if ex, ok := v.(*ssa.Extract); ok && depth < 2 {
		call, ok := ex.Tuple.(*ssa.Call)
		if !ok {
			return false, false
		}
		sc := call.Call.StaticCallee()
		if sc == nil || !inModule(sc) || sc.Blocks == nil {
			return false, false
		}
		var errEx *ssa.Extract
		for _, ref := range *call.Referrers() {
			if e2, ok := ref.(*ssa.Extract); ok && isErrorish(e2.Type()) {
				errEx = e2
			}
		}
		any, all := false, true
		for _, ret := range returnsOf(sc) {
			rv := retVals(ret)
			if ex.Index >= len(rv) {
				return false, false
			}
			if isNilConst(unwrap(rv[ex.Index])) {
				// nothing handed out: there must be an error instead, and the caller must look at it
				withErr := false
				for _, o := range rv {
					if isErrorish(o.Type()) && !isNilConst(unwrap(o)) {
						withErr = true
					}
				}
				if !withErr || errEx == nil {
					all = false
				}
				continue
			}
			c, g := decodedListGuarded(ret.Block(), rv[ex.Index], depth+1)
			if !c {
				return false, false
			}
			any = true
			all = all && g
		}
		if !any {
			return false, false
		}
		if errEx != nil {
			onOK := false
			for _, t := range failureTests(errEx) {
				if t.ok != nil && len(t.ok.Preds) == 1 && (t.ok == at || t.ok.Dominates(at)) {
					onOK = true
				}
			}
			all = all && onOK
		}
		return true, all
	}
	ld, ok := v.(*ssa.UnOp)
	if !ok || ld.Op != token.MUL {
		return false, false
	}
	src, ok := ld.X.(*ssa.FieldAddr)
	if !ok {
		return false, false
	}
	sameList := func(x ssa.Value) bool {
		l2, ok := unwrap(x).(*ssa.UnOp)
		if !ok || l2.Op != token.MUL {
			return false
		}
		s2, ok := l2.X.(*ssa.FieldAddr)
		return ok && s2.X == src.X && s2.Field == src.Field
	}
	// both tests: a decoded list can be empty, and it can hold nulls (`payload: [null]`)
	nonEmpty, noNil := false, false
	for _, i2 := range allInstrs(at.Parent()) {
		iff, ok := i2.(*ssa.If)
		if !ok {
			continue
		}
		for k, test := range []func(ssa.Value, func(ssa.Value) bool, int) (bool, bool){nonEmptyTest, noNilTest} {
			// which side of the branch is only taken for a non-empty (nil-free) list
			pos, neg := test(iff.Cond, sameList, 0)
			var side *ssa.BasicBlock
			switch {
			case pos:
				side = iff.Block().Succs[0]
			case neg:
				side = iff.Block().Succs[1]
			default:
				continue
			}
			if len(side.Preds) == 1 && (side == at || side.Dominates(at)) {
				if k == 0 {
					nonEmpty = true
				} else {
					noNil = true
				}
			}
		}
	}
	return true, nonEmpty && noNil
}

// decodes: the call hands its argument to encoding/json (Unmarshal, a Decoder), directly or in
// a helper of the module.
func decodes(r *Run, c *ssa.CallCommon, depth int) bool {
	n := calleeName(c)
	if strings.HasSuffix(n, "encoding/json.Unmarshal") || strings.HasSuffix(n, "json.Decoder).Decode") || strings.HasSuffix(n, ".UnmarshalJSON") {
		return true
	}
	sc := c.StaticCallee()
	if sc == nil || !inModule(sc) || sc.Blocks == nil || depth > 3 {
		return false
	}
	for _, i := range allInstrs(sc) {
		if ci, ok := i.(ssa.CallInstruction); ok && decodes(r, ci.Common(), depth+1) {
			return true
		}
	}
	return false
}

// ruleSubscriptionRegistry (R8e): an entry is put into the per-connection subscription
// dictionary only after whatever was registered under that id has been stopped (a dominating
// Clean of the same key) or shown absent (the failing side of a comma-ok lookup of the same
// key). Overwriting a live entry makes it unreachable for stop, terminate and the teardown's
// CleanAll: its Listen goroutine, both upstream goroutines and the upstream connection outlive
// the client connection.
func ruleSubscriptionRegistry(r *Run) {
	const rule = "R8e"
	n := 0
	for _, fn := range r.P.Funcs {
		for _, ins := range allInstrs(fn) {
			mu, ok := ins.(*ssa.MapUpdate)
			if !ok || namedOf(mu.Map.Type()) != modPath+".subscriptionDict" {
				continue
			}
			if isNilConst(unwrap(mu.Value)) {
				continue
			}
			n++
			good := false
			for _, i2 := range allInstrs(fn) {
				switch x := i2.(type) {
				case ssa.CallInstruction:
					c := x.Common()
					if strings.HasSuffix(calleeName(c), "subscriptionDict).Clean") && len(c.Args) == 2 && sameValue(unwrap(c.Args[1]), unwrap(mu.Key)) && instrDominates(x, mu) {
						good = true
					}
				case *ssa.Lookup:
					if x.CommaOk && namedOf(x.X.Type()) == modPath+".subscriptionDict" && sameValue(unwrap(x.Index), unwrap(mu.Key)) {
						for _, ref := range *x.Referrers() {
							ex, ok := ref.(*ssa.Extract)
							if !ok || ex.Index != 1 {
								continue
							}
							for _, r2 := range *ex.Referrers() {
								if iff, ok := r2.(*ssa.If); ok {
									absent := iff.Block().Succs[1]
									if len(absent.Preds) == 1 && (absent == mu.Block() || absent.Dominates(mu.Block())) {
										good = true
									}
								}
							}
						}
					}
				}
			}
			r.Check(good, rule, fnName(fn), "register subscription under its id", r.P.pos(mu.Pos()),
				"the previous entry with this id is stopped first (or the id is shown to be free)",
				"a subscription is stored under an id that may already be in use, without stopping the entry it replaces: the replaced subscription can no longer be stopped by the client, by connection_terminate or by the teardown's CleanAll — its goroutines and its upstream connection stay alive after the client has gone")
		}
	}
	r.AtLeast(rule, "insertions into the subscription dictionary", n, 1)
}

// nonEmptyTest classifies a condition over a list: pos = "true only if the list is non-empty",
// neg = "false only if the list is non-empty". It understands len(list) compared with 0 or 1,
// negation, and a predicate of the module whose answer can be true only behind such a test of
// its parameter (`func carriesErrors(l) bool { return len(l) != 0 && … }`).
func nonEmptyTest(cond ssa.Value, isList func(ssa.Value) bool, depth int) (pos, neg bool) {
	return listTest(cond, isList, lenTest, depth)
}

// noNilTest does the same for "the list holds no nil element": pos = "true only if no element
// is nil", neg = "false only if no element is nil". The test itself is lo.Contains(list, nil) /
// slices.Contains(list, nil) (true when there IS a nil element), or a predicate of the module
// that is handed the list and whose body shows that it answers false only if no element is
// nil (falseOnlyIfNoNil: a hand-written loop over the list, a wrapper of lo.Contains).
func noNilTest(cond ssa.Value, isList func(ssa.Value) bool, depth int) (pos, neg bool) {
	return listTest(cond, isList, containsNilTest, depth)
}

func lenTest(cond ssa.Value, isList func(ssa.Value) bool) (pos, neg bool) {
	c, ok := cond.(*ssa.BinOp)
	if !ok {
		return false, false
	}
	lenOf := func(v ssa.Value) bool {
		cl, ok := v.(*ssa.Call)
		if !ok {
			return false
		}
		b, ok := cl.Call.Value.(*ssa.Builtin)
		return ok && b.Name() == "len" && isList(cl.Call.Args[0])
	}
	op, x, y := c.Op, c.X, c.Y
	if lenOf(y) { // constant on the left: mirror
		x, y = y, x
		switch op {
		case token.LSS:
			op = token.GTR
		case token.GTR:
			op = token.LSS
		case token.LEQ:
			op = token.GEQ
		case token.GEQ:
			op = token.LEQ
		}
	}
	if !lenOf(x) {
		return false, false
	}
	switch {
	case op == token.NEQ && isIntConst(y, 0), op == token.GTR && isIntConst(y, 0), op == token.GEQ && isIntConst(y, 1):
		return true, false
	case op == token.EQL && isIntConst(y, 0), op == token.LSS && isIntConst(y, 1), op == token.LEQ && isIntConst(y, 0):
		return false, true
	}
	return false, false
}

func containsNilTest(cond ssa.Value, isList func(ssa.Value) bool) (pos, neg bool) {
	return containsNilTestD(cond, isList, 0)
}

func containsNilTestD(cond ssa.Value, isList func(ssa.Value) bool, depth int) (pos, neg bool) {
	c, ok := cond.(*ssa.Call)
	if !ok {
		return false, false
	}
	switch calleeName(&c.Call) {
	case "github.com/samber/lo.Contains", "slices.Contains":
		if len(c.Call.Args) == 2 && isList(c.Call.Args[0]) && isNilConst(unwrap(c.Call.Args[1])) {
			return false, true
		}
		return false, false
	}
	// a predicate of the module is judged by its body: it answers false only if no element of
	// the list it is handed is nil (`func hasNil(l) bool { for _, e := range l { if e == nil {
	// return true } }; return false }`, or a wrapper of lo.Contains(l, nil))
	sc := c.Call.StaticCallee()
	if sc == nil || !inModule(sc) || sc.Blocks == nil || depth > 2 {
		return false, false
	}
	res := sc.Signature.Results()
	if res.Len() != 1 || !types.Identical(res.At(0).Type().Underlying(), types.Typ[types.Bool]) {
		return false, false
	}
	for i, a := range c.Call.Args {
		if i < len(sc.Params) && isList(a) && falseOnlyIfNoNil(sc, sc.Params[i], depth) {
			return false, true
		}
	}
	return false, false
}

// falseOnlyIfNoNil: the predicate fn can answer false only if no element of its slice
// parameter is nil. Every return of fn yields the constant true, or the outcome of such a test
// of the parameter (lo.Contains(param, nil), another predicate of this kind), or lies behind
// the exit of a loop that has compared every element of the parameter with nil and has gone
// on to the next element only on the non-nil side of that comparison.
func falseOnlyIfNoNil(fn *ssa.Function, param *ssa.Parameter, depth int) bool {
	if _, ok := param.Type().Underlying().(*types.Slice); !ok {
		return false
	}
	exits := nilScanExits(fn, param)
	isParam := func(v ssa.Value) bool { return unwrap(v) == ssa.Value(param) }
	rets := returnsOf(fn)
	for _, ret := range rets {
		rv := retVals(ret)
		if len(rv) != 1 {
			return false
		}
		if c, ok := rv[0].(*ssa.Const); ok && c.Value != nil && c.Value.ExactString() == "true" {
			continue
		}
		behind := false
		for _, x := range exits {
			if x == ret.Block() || x.Dominates(ret.Block()) {
				behind = true
			}
		}
		if behind {
			continue
		}
		if _, n := listTest(rv[0], isParam, func(v ssa.Value, l func(ssa.Value) bool) (bool, bool) {
			return containsNilTestD(v, l, depth+1)
		}, depth+1); n {
			continue
		}
		return false
	}
	return len(rets) > 0
}

// nilScanExits: the blocks of fn that are entered only when a loop over the slice parameter
// has run to its end (index >= len(param)) and every round of that loop has compared the
// element at the index with nil and has reached the next round only on the non-nil side. The
// index starts at 0 and advances by one (`for _, e := range param`, `for i := range param`,
// `for i := 0; i < len(param); i++`), and fn does not store into the slice.
func nilScanExits(fn *ssa.Function, param *ssa.Parameter) []*ssa.BasicBlock {
	for _, ref := range *param.Referrers() {
		if ia, ok := ref.(*ssa.IndexAddr); ok {
			for _, r2 := range *ia.Referrers() {
				if st, ok := r2.(*ssa.Store); ok && st.Addr == ssa.Value(ia) {
					return nil
				}
			}
		}
	}
	isLen := func(v ssa.Value) bool {
		cl, ok := v.(*ssa.Call)
		if !ok {
			return false
		}
		b, ok := cl.Call.Value.(*ssa.Builtin)
		return ok && b.Name() == "len" && unwrap(cl.Call.Args[0]) == ssa.Value(param)
	}
	plusOne := func(v ssa.Value, of ssa.Value) bool {
		b, ok := v.(*ssa.BinOp)
		return ok && b.Op == token.ADD && b.X == of && isIntConst(b.Y, 1)
	}
	var out []*ssa.BasicBlock
	for _, h := range fn.Blocks {
		if len(h.Instrs) == 0 || len(h.Succs) != 2 {
			continue
		}
		iff, ok := h.Instrs[len(h.Instrs)-1].(*ssa.If)
		if !ok {
			continue
		}
		cond, ok := iff.Cond.(*ssa.BinOp)
		if !ok || cond.Op != token.LSS || !isLen(cond.Y) {
			continue
		}
		// cur: the index of this round; phi: the induction variable behind it
		cur := cond.X
		var phi *ssa.Phi
		var first int64
		switch x := cur.(type) {
		case *ssa.Phi: // for i := 0; i < len(l); i++
			phi, first = x, 0
		case *ssa.BinOp: // range: phi starts at -1, the index is phi+1
			if p, ok := x.X.(*ssa.Phi); ok && plusOne(x, p) {
				phi, first = p, -1
			}
		}
		if phi == nil || phi.Block() != h {
			continue
		}
		done := h.Succs[1]
		if done == h || len(done.Preds) != 1 {
			continue
		}
		good, rounds := true, 0
		for i, e := range phi.Edges {
			if isIntConst(e, first) {
				continue // (re)start of the scan
			}
			next := e == cur
			if first == 0 {
				next = plusOne(e, phi)
			}
			if !next || !onlyAfterNonNil(h.Preds[i], h, param, cur) {
				good = false
				break
			}
			rounds++
		}
		if good && rounds > 0 {
			out = append(out, done)
		}
	}
	return out
}

// onlyAfterNonNil: the edge from -> header is taken only after param[index] has been compared
// with nil in this round of the loop and was found to be non-nil.
func onlyAfterNonNil(from, header *ssa.BasicBlock, param *ssa.Parameter, index ssa.Value) bool {
	isElem := func(v ssa.Value) bool {
		ld, ok := unwrap(v).(*ssa.UnOp)
		if !ok || ld.Op != token.MUL {
			return false
		}
		ia, ok := ld.X.(*ssa.IndexAddr)
		return ok && unwrap(ia.X) == ssa.Value(param) && ia.Index == index
	}
	for d := from; d != nil; d = d.Idom() {
		if len(d.Instrs) > 0 && len(d.Succs) == 2 {
			if iff, ok := d.Instrs[len(d.Instrs)-1].(*ssa.If); ok {
				if c, ok := iff.Cond.(*ssa.BinOp); ok && (c.Op == token.EQL || c.Op == token.NEQ) &&
					(isElem(c.X) && isNilConst(unwrap(c.Y)) || isElem(c.Y) && isNilConst(unwrap(c.X))) {
					nonNil, isNil := d.Succs[1], d.Succs[0]
					if c.Op == token.NEQ {
						nonNil, isNil = isNil, nonNil
					}
					switch {
					case d == from && nonNil == header && isNil != header:
						return true
					case nonNil != isNil && len(nonNil.Preds) == 1 && nonNil != header && (nonNil == from || nonNil.Dominates(from)):
						return true
					}
				}
			}
		}
		if d == header {
			break
		}
	}
	return false
}

// listTest: base recognises the elementary test; negation and predicates of the module whose
// answer can be true only behind such a test of their parameter are looked through here.
func listTest(cond ssa.Value, isList func(ssa.Value) bool, base func(ssa.Value, func(ssa.Value) bool) (bool, bool), depth int) (pos, neg bool) {
	if depth > 3 {
		return false, false
	}
	if p, n := base(cond, isList); p || n {
		return p, n
	}
	switch c := cond.(type) {
	case *ssa.UnOp:
		if c.Op == token.NOT {
			p, n := listTest(c.X, isList, base, depth+1)
			return n, p
		}
	case *ssa.Call:
		sc := c.Call.StaticCallee()
		if sc == nil || !inModule(sc) || sc.Blocks == nil {
			return false, false
		}
		for i, a := range c.Call.Args {
			if !isList(a) || i >= len(sc.Params) {
				continue
			}
			param := sc.Params[i]
			isParam := func(v ssa.Value) bool { return unwrap(v) == ssa.Value(param) }
			// the block of the predicate that is entered only for a parameter that passes the test
			for _, ins := range allInstrs(sc) {
				iff, ok := ins.(*ssa.If)
				if !ok {
					continue
				}
				p, n := listTest(iff.Cond, isParam, base, depth+1)
				var ok2 *ssa.BasicBlock
				if p {
					ok2 = iff.Block().Succs[0]
				} else if n {
					ok2 = iff.Block().Succs[1]
				}
				if ok2 == nil || len(ok2.Preds) != 1 {
					continue
				}
				all := true
				for _, ret := range returnsOf(sc) {
					if !trueOnlyAfter(retVals(ret)[0], ok2, 0) {
						all = false
					}
				}
				if all {
					return true, false
				}
			}
			// without a branch on the test itself: `return len(l) != 0`, or the test as one
			// operand of && (`return len(l) != 0 && !lo.Contains(l, nil)`: false, or the value of
			// the last operand)
			var onlyIf func(v ssa.Value, d int) bool
			onlyIf = func(v ssa.Value, d int) bool {
				if p, _ := listTest(v, isParam, base, depth+1); p {
					return true
				}
				switch x := v.(type) {
				case *ssa.Const:
					return x.Value != nil && x.Value.ExactString() == "false"
				case *ssa.Phi:
					if d > 3 {
						return false
					}
					for _, e := range x.Edges {
						if !onlyIf(e, d+1) {
							return false
						}
					}
					return len(x.Edges) > 0
				}
				return false
			}
			all := len(returnsOf(sc)) > 0
			for _, ret := range returnsOf(sc) {
				if !onlyIf(retVals(ret)[0], 0) {
					all = false
				}
			}
			if all {
				return true, false
			}
		}
	}
	return false, false
}

// wsIOCall: any function of gobwas/ws or gobwas/ws/wsutil that reads or writes frames on a
// connection it is handed (an argument whose type has a Write method): the table above names
// the ones in use; WriteMessage, the binary variants, ReadFrame … do the same.
func wsIOCall(c *ssa.CallCommon) bool {
	sc := c.StaticCallee()
	if sc == nil || sc.Pkg == nil {
		return false
	}
	path := sc.Pkg.Pkg.Path()
	if path != "github.com/gobwas/ws" && path != "github.com/gobwas/ws/wsutil" {
		return false
	}
	name := sc.Name()
	if !(strings.HasPrefix(name, "Write") || strings.HasPrefix(name, "Read") || strings.HasPrefix(name, "Control") || strings.HasPrefix(name, "Send")) {
		return false
	}
	for _, a := range c.Args {
		t := a.Type()
		if it, ok := t.Underlying().(*types.Interface); ok {
			for i := 0; i < it.NumMethods(); i++ {
				if it.Method(i).Name() == "Write" {
					return true
				}
			}
		}
	}
	return false
}

// sentErrors: for a value that is sent as *requests.Response, the value its Errors field was
// given — in a literal built here, or in a constructor of the module that builds one and is
// handed the errors as an argument (`requests.NewErrorResponse(errs)`). ok=false when v is not
// a response built in one of these ways.
func sentErrors(v ssa.Value) (ssa.Value, bool) {
	v = unwrap(v)
	fromAlloc := func(al *ssa.Alloc) (ssa.Value, bool) {
		for _, ref := range *al.Referrers() {
			if fa, ok := ref.(*ssa.FieldAddr); ok && fieldOf(fa) != nil && fieldOf(fa).Name() == "Errors" {
				for _, r2 := range *fa.Referrers() {
					if st, ok := r2.(*ssa.Store); ok && st.Addr == ssa.Value(fa) {
						return st.Val, true
					}
				}
			}
		}
		return nil, false
	}
	switch x := v.(type) {
	case *ssa.Alloc:
		if !strings.HasSuffix(x.Type().String(), "requests.Response") {
			return nil, false
		}
		return fromAlloc(x)
	case *ssa.Call:
		sc := x.Call.StaticCallee()
		if sc == nil || !inModule(sc) || sc.Blocks == nil {
			return nil, false
		}
		var out ssa.Value
		for _, ret := range returnsOf(sc) {
			vals := retVals(ret)
			if len(vals) != 1 {
				return nil, false
			}
			al, ok := unwrap(vals[0]).(*ssa.Alloc)
			if !ok {
				return nil, false
			}
			ev, ok := fromAlloc(al)
			if !ok {
				return nil, false
			}
			p, isParam := unwrap(ev).(*ssa.Parameter)
			if !isParam {
				return ev, true // built inside the constructor
			}
			for i, q := range sc.Params {
				if q == p && i < len(x.Call.Args) {
					out = x.Call.Args[i]
				}
			}
		}
		return out, out != nil
	}
	return nil, false
}

// goroutineCtx: the function in whose goroutine fn runs, as far as that is plain from the
// code: a literal that its parent only calls or defers (never starts with go), and a named
// function with a single caller that calls or defers it, run in that function's goroutine.
func (r *Run) goroutineCtx(fn *ssa.Function) *ssa.Function {
	for depth := 0; depth < 4; depth++ {
		if parent := fn.Parent(); parent != nil {
			started := false
			for _, ins := range allInstrs(parent) {
				g, ok := ins.(*ssa.Go)
				if !ok {
					continue
				}
				if mc, ok := g.Call.Value.(*ssa.MakeClosure); ok && mc.Fn == ssa.Value(fn) {
					started = true
				}
				if g.Call.StaticCallee() == fn {
					started = true
				}
			}
			if started {
				return fn
			}
			fn = parent
			continue
		}
		var caller *ssa.Function
		single := true
		for _, e := range r.P.CG.In[fn] {
			if e.Kind == "param" {
				continue
			}
			if _, spawned := e.Site.(*ssa.Go); spawned || e.Kind != "static" {
				return fn
			}
			if caller != nil && caller != e.Caller {
				single = false
			}
			caller = e.Caller
		}
		if caller == nil || !single || topFn(caller).Pkg != fn.Pkg || fn.Object() == nil || fn.Object().Exported() {
			return fn
		}
		fn = caller
	}
	return fn
}

// frameRead: the call reads a frame from a websocket connection — one of wsutil's reading
// helpers, or a function of the module that hands back what such a call read (judged by its
// body: a bytes or string result of one of its returns is the result of a frame read).
func frameRead(c *ssa.CallCommon, depth int) bool {
	if strings.Contains(calleeName(c), "wsutil.Read") {
		return true
	}
	sc := c.StaticCallee()
	if sc == nil || !inModule(sc) || sc.Blocks == nil || depth > 2 {
		return false
	}
	for _, ret := range returnsOf(sc) {
		for _, rv := range retVals(ret) {
			_, isBytes := rv.Type().Underlying().(*types.Slice)
			bt, isStr := rv.Type().Underlying().(*types.Basic)
			if !isBytes && !(isStr && bt.Info()&types.IsString != 0) {
				continue
			}
			v := unwrap(rv)
			if ex, ok := v.(*ssa.Extract); ok {
				v = ex.Tuple
			}
			if call, ok := v.(*ssa.Call); ok && frameRead(&call.Call, depth+1) {
				return true
			}
		}
	}
	return false
}

// decodedBefore: every path from the start of block from reaches an instruction satisfying
// isDecode before it comes to block next (the next read) or to a return of the function.
func decodedBefore(from, next *ssa.BasicBlock, isDecode func(ssa.Instruction) bool) bool {
	seen := map[*ssa.BasicBlock]bool{}
	var visit func(b *ssa.BasicBlock) bool
	visit = func(b *ssa.BasicBlock) bool {
		if b == next {
			return false
		}
		if seen[b] {
			return true
		}
		seen[b] = true
		for _, ins := range b.Instrs {
			if isDecode(ins) {
				return true
			}
			if _, isRet := ins.(*ssa.Return); isRet {
				return false
			}
		}
		for _, s := range b.Succs {
			if !visit(s) {
				return false
			}
		}
		return true
	}
	return visit(from)
}

// sentErrorsAt: ins hands a response to the consumer — a send of a response built here, or a
// call of a function of the module every path through which makes such a send (a local
// `fail := func(errs) { resCh <- &Response{Errors: errs} }`, a named helper). It returns the
// value the response's Errors field is given and the block in which that value is used, seen
// from the side of ins: for a helper that sends what it is handed, the argument of the call.
func (r *Run) sentErrorsAt(ins ssa.Instruction, depth int) (ssa.Value, *ssa.BasicBlock, bool) {
	switch x := ins.(type) {
	case *ssa.Send:
		ev, ok := sentErrors(x.X)
		return ev, x.Block(), ok
	case *ssa.Call:
		sc := x.Call.StaticCallee()
		if sc == nil || !inModule(sc) || sc.Blocks == nil || depth > 1 {
			return nil, nil, false
		}
		var ev ssa.Value
		var at *ssa.BasicBlock
		every, _ := mustPass(sc.Blocks[0], 0, func(i ssa.Instruction) bool {
			if _, isSend := i.(*ssa.Send); !isSend {
				if _, isCall := i.(*ssa.Call); !isCall || depth > 0 {
					return false
				}
			}
			v, b, ok := r.sentErrorsAt(i, depth+1)
			if !ok {
				return false
			}
			if ev != nil && ev != v {
				ev, at = nil, nil // several sends of different lists: not a plain sender
				return false
			}
			ev, at = v, b
			return true
		})
		if !every || ev == nil {
			return nil, nil, false
		}
		if p, isParam := unwrap(ev).(*ssa.Parameter); isParam && p.Parent() == sc {
			idx := paramIndex(p)
			if idx < 0 || idx >= len(x.Call.Args) {
				return nil, nil, false
			}
			return x.Call.Args[idx], x.Block(), true
		}
		return ev, at, true
	}
	return nil, nil, false
}

// carriesError: the error list v, used in block at, is known to hold at least one error and no
// nil entry on every path that leads there:
//   - gqlerrors.FormatError of an error that is not nil (R6s: the formatter answers the empty
//     list for the nil error only),
//   - a literal list each element of which is not nil,
//   - a list loaded from a decoded frame behind a test that it is non-empty and holds no null,
//   - the result of a function of the module every return of which is such a list, a parameter
//     every caller gives such a list, a variable every assignment of which is such a list.
func (r *Run) carriesError(v ssa.Value, at *ssa.BasicBlock, depth int) bool {
	if v == nil || depth > 5 {
		return false
	}
	v = unwrap(v)
	switch x := v.(type) {
	case *ssa.Const:
		return false
	case *ssa.Phi:
		for i, e := range x.Edges {
			if !r.carriesError(e, x.Block().Preds[i], depth+1) {
				return false
			}
		}
		return len(x.Edges) > 0
	case *ssa.Parameter:
		n := 0
		for _, site := range r.callSitesOf(x.Parent()) {
			idx := paramIndex(x)
			if site == nil || idx < 0 || idx >= len(site.Common().Args) {
				return false
			}
			if !r.carriesError(site.Common().Args[idx], site.Block(), depth+1) {
				return false
			}
			n++
		}
		return n > 0
	case *ssa.Slice:
		// a literal: `gqlerrors.ErrorList{a, b}` is a slice of a fresh array every element of
		// which is stored once
		arr, ok := x.X.(*ssa.Alloc)
		if !ok || x.Low != nil || x.High != nil {
			return false
		}
		at2, ok := derefType(arr.Type()).Underlying().(*types.Array)
		if !ok || at2.Len() == 0 || arr.Referrers() == nil {
			return false
		}
		filled := map[int64]bool{}
		for _, ref := range *arr.Referrers() {
			ia, ok := ref.(*ssa.IndexAddr)
			if !ok {
				continue
			}
			k, ok := ia.Index.(*ssa.Const)
			if !ok || ia.Referrers() == nil {
				return false
			}
			for _, r2 := range *ia.Referrers() {
				st, ok := r2.(*ssa.Store)
				if !ok || st.Addr != ssa.Value(ia) {
					continue
				}
				if !r.notNilIn(st.Val, st.Block(), depth+1) {
					return false
				}
				filled[k.Int64()] = true
			}
		}
		return int64(len(filled)) == at2.Len()
	case *ssa.Call:
		if strings.HasSuffix(calleeName(&x.Call), "gqlerrors.FormatError") && len(x.Call.Args) == 1 {
			return r.notNilIn(x.Call.Args[0], x.Block(), depth+1)
		}
		sc := x.Call.StaticCallee()
		if sc == nil || !inModule(sc) || sc.Blocks == nil {
			return false
		}
		rets := returnsOf(sc)
		for _, ret := range rets {
			vals := retVals(ret)
			if len(vals) != 1 || !r.carriesError(vals[0], ret.Block(), depth+1) {
				return false
			}
		}
		return len(rets) > 0
	}
	counted, guarded := decodedListGuarded(at, v, 0)
	return counted && guarded
}

// notNilIn: the pointer or interface v, used in block at, is known not to be nil there: a fresh
// object, an error made by errors.New / fmt.Errorf, the result of a module function that only
// returns such values, a value on the non-nil side of a test of it, a variable every
// assignment of which is one of these.
func (r *Run) notNilIn(v ssa.Value, at *ssa.BasicBlock, depth int) bool {
	if v == nil || depth > 6 {
		return false
	}
	if mi, ok := v.(*ssa.MakeInterface); ok {
		switch mi.X.Type().Underlying().(type) {
		case *types.Pointer, *types.Interface, *types.Slice, *types.Map, *types.Chan, *types.Signature:
		default:
			return true // a struct, a string, a number in an interface
		}
	}
	v = unwrap(v)
	switch x := v.(type) {
	case *ssa.Alloc:
		return true
	case *ssa.Const:
		return false
	case *ssa.Phi:
		for i, e := range x.Edges {
			if !r.notNilIn(e, x.Block().Preds[i], depth+1) {
				return false
			}
		}
		return len(x.Edges) > 0
	case *ssa.Call:
		switch calleeName(&x.Call) {
		case "errors.New", "fmt.Errorf":
			return true
		}
		if sc := x.Call.StaticCallee(); sc != nil && inModule(sc) && sc.Blocks != nil {
			rets := returnsOf(sc)
			for _, ret := range rets {
				vals := retVals(ret)
				if len(vals) != 1 || !r.notNilIn(vals[0], ret.Block(), depth+1) {
					return false
				}
			}
			if len(rets) > 0 {
				return true
			}
		}
	}
	// behind a test of the value itself (or of another load of the same variable or field)
	if len(at.Instrs) == 0 {
		return false
	}
	ok, _ := r.nonNilAt(v, at.Instrs[len(at.Instrs)-1])
	return ok
}

// callSitesOf: the places where fn is called, when they can all be listed: plain, deferred or
// spawned calls of the function or of a closure value that is only ever called. A nil entry
// stands for a caller that cannot be listed (the function is handed to code outside the
// module, or reaches its call through a parameter).
func (r *Run) callSitesOf(fn *ssa.Function) []ssa.CallInstruction {
	var out []ssa.CallInstruction
	for _, e := range r.P.CG.In[origin(fn)] {
		switch e.Kind {
		case "static", "dynamic":
			// the callee is the first operand of the call: the arguments line up with the parameters
			out = append(out, e.Site)
		case "hoarg":
			// handed to a higher-order function of the module: the call inside it is listed on its
			// own (kind param) and its arguments are the ones that count
		case "param":
			out = append(out, e.Site)
		default:
			out = append(out, nil)
		}
	}
	return out
}

// endSignalled: target (the nil send, or the call of the helper that makes it) is executed on
// every way out of the reader: it lies on every path through fn — but for the side of a test
// of the handshake flag on which the flag is still false — and fn is a function that is
// deferred ahead of every return of the function that defers it, or is itself called, in the
// same way, from such a function.
func (r *Run) endSignalled(fn *ssa.Function, target ssa.Instruction, depth int) bool {
	if depth > 2 {
		return false
	}
	n := 0
	for _, e := range r.P.CG.In[origin(fn)] {
		if e.Kind == "param" {
			continue
		}
		if e.Kind != "static" && e.Kind != "dynamic" {
			return false
		}
		n++
		switch site := e.Site.(type) {
		case *ssa.Defer:
			// the arguments of a deferred call are evaluated when it is registered: a flag handed
			// over as an argument would be the flag of that moment
			if !r.onEveryPathButHandshake(fn, target, nil) {
				return false
			}
			for _, ret := range returnsOf(e.Caller) {
				if !instrDominates(site, ret) {
					return false
				}
			}
		case *ssa.Call:
			if !r.onEveryPathButHandshake(fn, target, site) || !r.endSignalled(e.Caller, site, depth+1) {
				return false
			}
		default:
			return false
		}
	}
	return n > 0
}

// onEveryPathButHandshake: every path from the entry of fn to a return passes target, apart
// from paths that leave through the false side of a test of a handshake flag. A condition on a
// parameter of fn is read as the argument of the call site.
func (r *Run) onEveryPathButHandshake(fn *ssa.Function, target ssa.Instruction, site *ssa.Call) bool {
	if len(fn.Blocks) == 0 {
		return false
	}
	seen := map[*ssa.BasicBlock]bool{fn.Blocks[0]: true}
	var visit func(b *ssa.BasicBlock) bool
	visit = func(b *ssa.BasicBlock) bool {
		for _, ins := range b.Instrs {
			if ins == target {
				return true
			}
			if _, isRet := ins.(*ssa.Return); isRet {
				return false
			}
		}
		exempt := -1
		if iff, ok := b.Instrs[len(b.Instrs)-1].(*ssa.If); ok {
			exempt = r.handshakeFalseSide(iff.Cond, fn, site)
		}
		for i, s := range b.Succs {
			if i == exempt || seen[s] {
				continue
			}
			seen[s] = true
			if !visit(s) {
				return false
			}
		}
		return true
	}
	return visit(fn.Blocks[0])
}

// handshakeFalseSide: cond reads a handshake flag (or its negation); the index of the successor
// taken while the flag is false, or -1.
func (r *Run) handshakeFalseSide(cond ssa.Value, fn *ssa.Function, site *ssa.Call) int {
	neg := false
	for {
		u, ok := cond.(*ssa.UnOp)
		if !ok || u.Op != token.NOT {
			break
		}
		neg = !neg
		cond = u.X
	}
	if p, ok := cond.(*ssa.Parameter); ok && p.Parent() == fn && site != nil {
		idx := paramIndex(p)
		if idx < 0 || idx >= len(site.Call.Args) {
			return -1
		}
		cond = site.Call.Args[idx]
	}
	ld, ok := cond.(*ssa.UnOp)
	if !ok || ld.Op != token.MUL {
		return -1
	}
	owner := cellOwner(ld.X)
	if owner == nil || !handshakeFlag(owner) {
		return -1
	}
	if neg {
		return 0
	}
	return 1
}

// handshakeFlag: a boolean variable that starts as false in the function that declares it
// and is assigned in one other place only: in the reader, outside any loop, before the first
// frame is read (`started = true`, `started = err == nil`). Nothing that happens while frames
// are read can change it; while it is false the consumer has not been told that the
// subscription stands, so there is nobody to tell that it is over.
func handshakeFlag(owner *ssa.Alloc) bool {
	bt, ok := derefType(owner.Type()).Underlying().(*types.Basic)
	if !ok || bt.Kind() != types.Bool {
		return false
	}
	var set *ssa.Store
	var initial []*ssa.Store
	for _, st := range storesTo(owner) {
		if k, ok := st.Val.(*ssa.Const); ok && k.Value != nil && k.Value.ExactString() == "false" {
			initial = append(initial, st)
			continue
		}
		if set != nil {
			return false
		}
		set = st
	}
	if set == nil || inAnyLoop(set.Block()) {
		return false
	}
	for _, st := range initial {
		if st.Parent() != owner.Parent() || inAnyLoop(st.Block()) {
			return false
		}
		if st.Parent() == set.Parent() && !instrDominates(st, set) {
			return false // reset after it was set
		}
	}
	reads := 0
	for _, ins := range allInstrs(set.Parent()) {
		if c, ok := ins.(*ssa.Call); ok && frameRead(&c.Call, 0) {
			reads++
			if !instrDominates(set, c) {
				return false
			}
		}
	}
	return reads > 0
}

// ruleEntryAdopted (R8h.adopt): a subscription entry that was made successfully owns an open
// upstream connection and two goroutines of the queryer; the only things that ever end them are
// the teardown of its Listen goroutine and the Clean/CleanAll of the dictionary it is kept in.
// So on every path from the successful return of newSubscriptionEntry to a return of the handler,
// or back to the next message, the entry is put into a map AND its Listen is started. A return
// slipped in between ("this message is malformed after all") leaks the connection for good.
func ruleEntryAdopted(r *Run) {
	const rule = "R8h.adopt"
	mk := r.Anchor(rule, "pebbles.(*Gateway).newSubscriptionEntry")
	listen := r.Anchor(rule, "pebbles.(*subscriptionEntry).Listen")
	if mk == nil || listen == nil {
		return
	}
	n := 0
	for _, e := range r.P.CG.In[origin(mk)] {
		call, ok := e.Site.(*ssa.Call)
		if !ok || e.Caller == nil || !inModule(e.Caller) {
			continue
		}
		n++
		var entry, errv ssa.Value
		if refs := call.Referrers(); refs != nil {
			for _, u := range *refs {
				if ex, ok := u.(*ssa.Extract); ok {
					if ex.Index == 0 {
						entry = ex
					} else {
						errv = ex
					}
				}
			}
		}
		site := r.P.pos(call.Pos())
		if entry == nil {
			r.Check(false, rule, fnName(e.Caller), "entry made", site, "", "the entry returned by newSubscriptionEntry is dropped: nothing can ever close its upstream connection")
			continue
		}
		// the block where the error has been found nil
		start, startIdx := call.Block(), 0
		for i, ins := range call.Block().Instrs {
			if ins == ssa.Instruction(call) {
				startIdx = i + 1
			}
		}
		if errv != nil {
			if refs := errv.Referrers(); refs != nil {
				for _, u := range *refs {
					b, ok := u.(*ssa.BinOp)
					if !ok || (b.Op != token.NEQ && b.Op != token.EQL) {
						continue
					}
					if br := b.Referrers(); br != nil {
						for _, w := range *br {
							if iff, ok := w.(*ssa.If); ok && len(iff.Block().Succs) == 2 {
								if b.Op == token.NEQ {
									start, startIdx = iff.Block().Succs[1], 0
								} else {
									start, startIdx = iff.Block().Succs[0], 0
								}
							}
						}
					}
				}
			}
		}
		// the entry, or a load of the cell it was put into (a variable captured by a closure
		// lives in a cell)
		var cells []ssa.Value
		if refs := entry.Referrers(); refs != nil {
			for _, u := range *refs {
				if st, ok := u.(*ssa.Store); ok && st.Val == entry {
					if al, ok := st.Addr.(*ssa.Alloc); ok && len(storesTo(al)) == 1 {
						cells = append(cells, al)
					}
				}
			}
		}
		isEntry := func(v ssa.Value) bool {
			if v == entry {
				return true
			}
			if ld, ok := v.(*ssa.UnOp); ok && ld.Op == token.MUL {
				for _, c := range cells {
					if ld.X == c {
						return true
					}
				}
			}
			return false
		}
		kept := func(i ssa.Instruction) bool {
			if mu, ok := i.(*ssa.MapUpdate); ok {
				return isEntry(mu.Value)
			}
			// a method or function of the module that puts the parameter it is handed into a
			// map (`subDict.Replace(id, entry)`)
			if c, ok := i.(*ssa.Call); ok {
				if h := c.Call.StaticCallee(); h != nil && inModule(h) {
					for pi, a := range c.Call.Args {
						if !isEntry(a) || pi >= len(h.Params) {
							continue
						}
						for _, hi := range allInstrs(h) {
							if mu, ok := hi.(*ssa.MapUpdate); ok && mu.Value == ssa.Value(h.Params[pi]) {
								return true
							}
						}
					}
				}
			}
			return false
		}
		started := func(i ssa.Instruction) bool {
			g, ok := i.(*ssa.Go)
			if !ok {
				return false
			}
			c := g.Common()
			if c.StaticCallee() != nil && origin(c.StaticCallee()) == origin(listen) && len(c.Args) > 0 && isEntry(c.Args[0]) {
				return true
			}
			// `go func() { entry.Listen(conn) }()`: a literal that calls Listen on the captured entry
			if mc, ok := c.Value.(*ssa.MakeClosure); ok {
				lit, _ := mc.Fn.(*ssa.Function)
				for bi, b := range mc.Bindings {
					isCell := false
					for _, cl := range cells {
						if b == cl {
							isCell = true
						}
					}
					if lit == nil || bi >= len(lit.FreeVars) || !(isCell || isEntry(b)) {
						continue
					}
					fv := lit.FreeVars[bi]
					for _, li := range allInstrs(lit) {
						lc, ok := li.(ssa.CallInstruction)
						if !ok {
							continue
						}
						cc := lc.Common()
						if cc.StaticCallee() == nil || origin(cc.StaticCallee()) != origin(listen) || len(cc.Args) == 0 {
							continue
						}
						a := cc.Args[0]
						if a == ssa.Value(fv) {
							return true
						}
						if ld, ok := a.(*ssa.UnOp); ok && ld.Op == token.MUL && ld.X == ssa.Value(fv) {
							return true
						}
					}
				}
			}
			return false
		}
		for _, what := range []struct {
			name string
			pred func(ssa.Instruction) bool
			bad  string
		}{
			{"kept in the dictionary", kept, "is not put into the dictionary of running subscriptions: stop, terminate and disconnect cannot reach it"},
			{"Listen started", started, "is not listened to: nothing ever sends on its queryerCloseCh, the upstream connection and the queryer's goroutines stay for good"},
		} {
			okAll, where := true, ""
			seen := map[*ssa.BasicBlock]bool{}
			var visit func(b *ssa.BasicBlock, from int)
			visit = func(b *ssa.BasicBlock, from int) {
				if !okAll {
					return
				}
				for i := from; i < len(b.Instrs); i++ {
					ins := b.Instrs[i]
					if what.pred(ins) {
						return
					}
					if _, isRet := ins.(*ssa.Return); isRet {
						okAll, where = false, "the return at "+r.P.pos(retPos(ins.(*ssa.Return)))
						return
					}
				}
				for _, s := range b.Succs {
					if s == call.Block() {
						okAll, where = false, "the way back to the next message from "+r.P.pos(b.Instrs[len(b.Instrs)-1].Pos())
						return
					}
					if !seen[s] {
						seen[s] = true
						visit(s, 0)
					}
				}
			}
			visit(start, startIdx)
			r.Check(okAll, rule, fnName(e.Caller), "entry made: "+what.name, site,
				"on every path from the successful newSubscriptionEntry to a return or to the next message the entry is "+what.name,
				"on the path to "+where+" the entry made here "+what.bad)
		}
	}
	r.Check(n >= 1, rule, "", "call sites of newSubscriptionEntry", "-", strconv.Itoa(n)+" call site(s) judged", "no call site of newSubscriptionEntry found in the module")
}
