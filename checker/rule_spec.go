package main

// R11 — SPECTABLE (DESIGN §3 R11): agreement with a specification that is itself parsed.
//  R11c the introspection query sent to services and the structs its answer is decoded into
//       agree key for key; it validates against gqlparser's introspection schema; deprecated
//       members are requested (C15)
//  R10c every decoded field is consumed by the reconstruction (C15)
//  R11b kind-specific fields are read/answered exactly under the kinds the specification
//       names (kind-set dataflow; C15 reader, C16 resolver)
//  R11a every resolver covers all fields of its introspection type; list elements are
//       resolved by the resolver of the declared element type (C16)
//  R3b  request code does not write gateway state (C16)

import (
	"fmt"
	"go/ast"
	"go/constant"
	"go/token"
	"go/types"
	"reflect"
	"sort"
	"strings"

	"github.com/vektah/gqlparser/v2"
	gast "github.com/vektah/gqlparser/v2/ast"
	"golang.org/x/tools/go/ssa"
)

const introPkg = modPath + "/introspection"

// preludeSchema is gqlparser's own introspection schema (the version pinned by /repo's go.mod
// is also the version the checker links, v2.5.1).
func preludeSchema() (*gast.Schema, error) {
	s, err := gqlparser.LoadSchema(&gast.Source{Name: "q", Input: "type Query { x: Int }"})
	if err != nil {
		return nil, err
	}
	return s, nil
}

// constString evaluates a string-valued expression: literal, constant, or package-level
// variable with a constant initialiser; fmt.Sprintf with %s verbs only.
func constString(info *types.Info, pkgFiles []*ast.File, e ast.Expr, depth int) (string, bool) {
	if depth > 5 {
		return "", false
	}
	if tv, ok := info.Types[e]; ok && tv.Value != nil && tv.Value.Kind() == constant.String {
		return constant.StringVal(tv.Value), true
	}
	switch x := e.(type) {
	case *ast.ParenExpr:
		return constString(info, pkgFiles, x.X, depth)
	case *ast.BinaryExpr:
		// a text assembled with `+` from literals, constants and initialised variables
		if x.Op != token.ADD {
			return "", false
		}
		a, ok := constString(info, pkgFiles, x.X, depth)
		if !ok {
			return "", false
		}
		b, ok := constString(info, pkgFiles, x.Y, depth)
		if !ok {
			return "", false
		}
		return a + b, true
	case *ast.Ident:
		obj := info.Uses[x]
		if obj == nil {
			obj = info.Defs[x]
		}
		for _, f := range pkgFiles {
			for _, d := range f.Decls {
				gd, ok := d.(*ast.GenDecl)
				if !ok {
					continue
				}
				for _, sp := range gd.Specs {
					vs, ok := sp.(*ast.ValueSpec)
					if !ok {
						continue
					}
					for i, n := range vs.Names {
						if info.Defs[n] == obj && i < len(vs.Values) {
							return constString(info, pkgFiles, vs.Values[i], depth+1)
						}
					}
				}
			}
		}
	case *ast.CallExpr:
		if qualifiedCallee(info, x) == "fmt.Sprintf" && len(x.Args) >= 1 {
			format, ok := constString(info, pkgFiles, x.Args[0], depth+1)
			if !ok {
				return "", false
			}
			var args []interface{}
			for _, a := range x.Args[1:] {
				s, ok := constString(info, pkgFiles, a, depth+1)
				if !ok {
					return "", false
				}
				args = append(args, s)
			}
			return fmt.Sprintf(format, args...), true
		}
	}
	return "", false
}

// introspectionQueryText evaluates the text that is *sent*: the expression given as `Query` of
// the request built by introspectRemoteSchema (whatever the variable behind it is called).
func (r *Run) introspectionQueryText() (string, token.Pos, bool) {
	p := r.P.ByPath[introPkg]
	if p == nil {
		return "", token.NoPos, false
	}
	var sent []ast.Expr
	// (the function is found the way every anchor is: by its frozen signature when renamed)
	var bodies []ast.Node
	if fn := r.P.Fn("introspection.introspectRemoteSchema"); fn != nil {
		if nd := syntaxOf(fn); nd != nil {
			bodies = append(bodies, nd)
		}
	}
	for _, body := range bodies {
		ast.Inspect(body, func(nd ast.Node) bool {
			cl, ok := nd.(*ast.CompositeLit)
			if !ok {
				return true
			}
			tv, ok := p.TypesInfo.Types[cl]
			if !ok || tv.Type == nil || !strings.HasSuffix(namedOf(tv.Type), "requests.Request") {
				return true
			}
			for _, e := range cl.Elts {
				if kv, ok := e.(*ast.KeyValueExpr); ok {
					if id, ok := kv.Key.(*ast.Ident); ok && id.Name == "Query" {
						sent = append(sent, kv.Value)
					}
				}
			}
			return true
		})
	}
	if len(sent) != 1 {
		return "", token.NoPos, false
	}
	s, ok := constString(p.TypesInfo, p.Syntax, sent[0], 0)
	return s, sent[0].Pos(), ok
}

// decodeStructs: the structs the services' answer is decoded into, found by role — the root is
// the struct of package introspection with a field decoded from the key "__schema"; the others
// are the named structs of the package reachable through its fields (embedded ones included).
func (r *Run) decodeStructs() (root *types.Named, all []*types.Named) {
	p := r.P.ByPath[introPkg]
	if p == nil {
		return nil, nil
	}
	scope := p.Types.Scope()
	for _, name := range scope.Names() {
		tn, ok := scope.Lookup(name).(*types.TypeName)
		if !ok {
			continue
		}
		nt, ok := tn.Type().(*types.Named)
		if !ok {
			continue
		}
		st, ok := nt.Underlying().(*types.Struct)
		if !ok {
			continue
		}
		for i := 0; i < st.NumFields(); i++ {
			if jsonKey(st.Tag(i)) == "__schema" {
				root = nt
			}
		}
	}
	if root == nil {
		return nil, nil
	}
	seen := map[*types.Named]bool{}
	var visit func(t types.Type, depth int)
	visit = func(t types.Type, depth int) {
		for i := 0; i < 6; i++ {
			switch x := t.(type) {
			case *types.Pointer:
				t = x.Elem()
				continue
			case *types.Slice:
				t = x.Elem()
				continue
			case *types.Array:
				t = x.Elem()
				continue
			case *types.Map:
				t = x.Elem()
				continue
			}
			break
		}
		nt, ok := t.(*types.Named)
		if !ok || seen[nt] || nt.Obj().Pkg() == nil || nt.Obj().Pkg().Path() != introPkg {
			return
		}
		st, ok := nt.Underlying().(*types.Struct)
		if !ok {
			return
		}
		seen[nt] = true
		all = append(all, nt)
		for i := 0; i < st.NumFields(); i++ {
			visit(st.Field(i).Type(), depth+1)
		}
	}
	visit(root, 0)
	sort.Slice(all, func(i, j int) bool { return all[i].Obj().Name() < all[j].Obj().Name() })
	return root, all
}

// decodeRoleNames: the names under which the decode structs are reported, by the place of the
// answer they are decoded from (the first JSON path that reaches them) — obligations and known
// findings keep their key when a struct is renamed.
var decodeRoleNames = map[string]string{
	"$":                                 "IntrospectionQueryResult",
	"$.__schema":                        "IntrospectionQuerySchema",
	"$.__schema.queryType":              "IntrospectionQueryRootType",
	"$.__schema.mutationType":           "IntrospectionQueryRootType",
	"$.__schema.subscriptionType":       "IntrospectionQueryRootType",
	"$.__schema.types":                  "IntrospectionQueryFullType",
	"$.__schema.types.fields":           "IntrospectionQueryFullTypeField",
	"$.__schema.types.enumValues":       "IntrospectionQueryEnumDefinition",
	"$.__schema.types.inputFields":      "IntrospectionInputValue",
	"$.__schema.directives.args":        "IntrospectionInputValue",
	"$.__schema.types.fields.args":      "IntrospectionInputValue",
	"$.__schema.types.interfaces":       "IntrospectionTypeRef",
	"$.__schema.types.possibleTypes":    "IntrospectionTypeRef",
	"$.__schema.types.fields.type":      "IntrospectionTypeRef",
	"$.__schema.types.inputFields.type": "IntrospectionTypeRef",
	"$.__schema.directives.args.type":   "IntrospectionTypeRef",
	"$.__schema.directives":             "IntrospectionQueryDirective",
}

// decodeRoles maps each decode struct to its role name (its Go name when the place it is decoded
// from has no entry) and to the first JSON path reaching it.
func (r *Run) decodeRoles() (names map[*types.Named]string, paths map[*types.Named]string) {
	names, paths = map[*types.Named]string{}, map[*types.Named]string{}
	root, _ := r.decodeStructs()
	if root == nil {
		return
	}
	type item struct {
		nt   *types.Named
		path string
	}
	queue := []item{{root, "$"}}
	for len(queue) > 0 {
		it := queue[0]
		queue = queue[1:]
		if _, done := paths[it.nt]; done {
			continue
		}
		paths[it.nt] = it.path
		if n, ok := decodeRoleNames[it.path]; ok {
			names[it.nt] = n
		} else {
			names[it.nt] = it.nt.Obj().Name()
		}
		st, ok := it.nt.Underlying().(*types.Struct)
		if !ok {
			continue
		}
		type kf struct {
			k string
			t types.Type
		}
		var fs []kf
		for i := 0; i < st.NumFields(); i++ {
			k := jsonKey(st.Tag(i))
			if k == "-" {
				continue
			}
			if k == "" {
				if !st.Field(i).Embedded() {
					continue
				}
				k = "<" + st.Field(i).Name() + ">"
			}
			fs = append(fs, kf{k, st.Field(i).Type()})
		}
		sort.Slice(fs, func(i, j int) bool { return fs[i].k < fs[j].k })
		for _, f := range fs {
			t := f.t
			for i := 0; i < 6; i++ {
				switch x := t.(type) {
				case *types.Pointer:
					t = x.Elem()
				case *types.Slice:
					t = x.Elem()
				case *types.Array:
					t = x.Elem()
				case *types.Map:
					t = x.Elem()
				}
			}
			if nt, ok := t.(*types.Named); ok && nt.Obj().Pkg() != nil && nt.Obj().Pkg().Path() == introPkg {
				if _, isStruct := nt.Underlying().(*types.Struct); isStruct {
					queue = append(queue, item{nt, it.path + "." + f.k})
				}
			}
		}
	}
	return
}

// directiveNameField: the field the name of a directive of the answer is decoded into (it may
// be promoted from an embedded struct) and the struct a directive is decoded into.
func (r *Run) directiveNameField() (*types.Var, *types.Named) {
	_, paths := r.decodeRoles()
	for nt, p := range paths {
		if p == "$.__schema.directives" {
			return jsonFields(nt.Underlying().(*types.Struct), 0)["name"], nt
		}
	}
	return nil, nil
}

// jsonFields lists the fields of a decode struct as encoding/json sees them: the fields of an
// embedded struct without a key of its own are promoted.
func jsonFields(st *types.Struct, depth int) map[string]*types.Var {
	out := map[string]*types.Var{}
	if depth > 4 {
		return out
	}
	for i := 0; i < st.NumFields(); i++ {
		f := st.Field(i)
		k := jsonKey(st.Tag(i))
		if k == "-" {
			continue
		}
		if k == "" {
			if f.Embedded() {
				if sub := structOf(f.Type()); sub != nil {
					for kk, v := range jsonFields(sub, depth+1) {
						if _, dup := out[kk]; !dup {
							out[kk] = v
						}
					}
				}
			}
			continue
		}
		out[k] = f
	}
	return out
}

func jsonKey(tag string) string {
	k := reflect.StructTag(tag).Get("json")
	if i := strings.IndexByte(k, ','); i >= 0 {
		k = k[:i]
	}
	return k
}

func structOf(t types.Type) *types.Struct {
	for i := 0; i < 4; i++ {
		switch x := t.Underlying().(type) {
		case *types.Pointer:
			t = x.Elem()
		case *types.Slice:
			t = x.Elem()
		case *types.Struct:
			return x
		default:
			return nil
		}
	}
	return nil
}

func ruleIntrospectionQuery(r *Run) {
	const rule = "R11c"
	text, pos, ok := r.introspectionQueryText()
	site := r.P.pos(pos)
	if !ok {
		r.Bad(rule, "introspection", "introspection query text", site, "the text given as Query of the request sent by introspectRemoteSchema could not be evaluated statically (not a literal, a constant, an initialised package variable, a `+` or a Sprintf of those)")
		return
	}
	schema, err := preludeSchema()
	if err != nil {
		r.Bad(rule, "introspection", "prelude", site, "cannot load gqlparser's introspection schema: "+err.Error())
		return
	}
	doc, errs := gqlparser.LoadQuery(schema, text)
	if errs != nil {
		r.Bad(rule, "introspection", "query validates against the introspection schema", site, "the introspection query sent to services is not a valid introspection document: "+errs.Error())
		return
	}
	r.OK(rule, "introspection", "query validates against the introspection schema", site, "parsed and validated against gqlparser's prelude")
	if len(doc.Operations) != 1 {
		r.Bad(rule, "introspection", "single operation", site, "the introspection document does not contain exactly one operation")
		return
	}
	root, _ := r.decodeStructs()
	if root == nil {
		r.Bad(rule, "introspection", "anchor IntrospectionQueryResult", site, "decode struct not found (no struct of package introspection has a field decoded from the key \"__schema\")")
		return
	}
	n := 0
	var walk func(ss gast.SelectionSet, st *types.Struct, path string, depth int)
	collect := func(ss gast.SelectionSet) []*gast.Field {
		var out []*gast.Field
		var f func(ss gast.SelectionSet)
		f = func(ss gast.SelectionSet) {
			for _, s := range ss {
				switch x := s.(type) {
				case *gast.Field:
					out = append(out, x)
				case *gast.InlineFragment:
					f(x.SelectionSet)
				case *gast.FragmentSpread:
					if x.Definition != nil {
						f(x.Definition.SelectionSet)
					}
				}
			}
		}
		f(ss)
		return out
	}
	walk = func(ss gast.SelectionSet, st *types.Struct, path string, depth int) {
		if depth > 12 {
			return
		}
		fields := collect(ss)
		selected := map[string]*gast.Field{}
		for _, f := range fields {
			k := f.Alias
			if k == "" {
				k = f.Name
			}
			selected[k] = f
		}
		tags := jsonFields(st, 0)
		var keys []string
		for k := range tags {
			keys = append(keys, k)
		}
		sort.Strings(keys)
		for _, k := range keys {
			n++
			fv := tags[k]
			if f, ok := selected[k]; ok {
				r.OK(rule, "introspection", "decode "+path+"."+k, r.P.pos(fv.Pos()), "the key is selected by the query")
				if sub := structOf(fv.Type()); sub != nil && len(f.SelectionSet) > 0 {
					walk(f.SelectionSet, sub, path+"."+k, depth+1)
				}
			} else if sub := structOf(fv.Type()); sub != nil && sub == st {
				// recursive reference deeper than the query nests (ofType chain): fine
				r.OK(rule, "introspection", "decode "+path+"."+k, r.P.pos(fv.Pos()), "recursive field beyond the nesting depth of the query")
			} else {
				r.Bad(rule, "introspection", "decode "+path+"."+k, r.P.pos(fv.Pos()), "struct field "+fv.Name()+" is decoded from JSON key \""+k+"\" but the introspection query never selects that key at "+path+": the field is always empty and whatever it should carry is lost from the reconstructed schema")
			}
		}
		var sel []string
		for k := range selected {
			sel = append(sel, k)
		}
		sort.Strings(sel)
		for _, k := range sel {
			if _, ok := tags[k]; !ok {
				n++
				r.Bad(rule, "introspection", "select "+path+"."+k, site, "the query selects \""+k+"\" at "+path+" but the decode struct has no field for it: that part of the service's answer is thrown away")
			}
		}
		// includeDeprecated must be passed as true wherever the introspection schema offers it
		for _, f := range fields {
			if f.Definition == nil {
				continue
			}
			if ad := f.Definition.Arguments.ForName("includeDeprecated"); ad != nil {
				n++
				a := f.Arguments.ForName("includeDeprecated")
				good := a != nil && a.Value != nil && a.Value.Kind == gast.BooleanValue && a.Value.Raw == "true"
				r.Check(good, rule, "introspection", "includeDeprecated on "+path+"."+f.Name, site,
					"deprecated members are requested explicitly", "`"+f.Name+"` is selected without includeDeprecated: true — the specification's default is false, so a compliant service omits its deprecated fields/enum values and they silently vanish from the gateway's schema")
			}
		}
	}
	st, _ := root.Underlying().(*types.Struct)
	if st == nil {
		r.Bad(rule, "introspection", "anchor IntrospectionQueryResult", site, "decode root is not a struct")
		return
	}
	walk(doc.Operations[0].SelectionSet, st, "$", 0)
	r.AtLeast(rule, "query/struct keys", n, 30)
}

// ruleDecodedFieldsUsed (R10c)
func ruleDecodedFieldsUsed(r *Run) {
	const rule = "R10c"
	root := r.Anchor(rule, "introspection.introspectRemoteSchema")
	if root == nil {
		return
	}
	reach := r.P.CG.Reachable([]*ssa.Function{root}, nil)
	read := map[*types.Var]bool{}
	readBy := map[*types.Var]map[string]bool{}
	for fn := range reach {
		for _, ins := range allInstrs(fn) {
			var fv *types.Var
			switch x := ins.(type) {
			case *ssa.FieldAddr:
				// address taken: read if loaded (or ranged)
				fv = fieldOf(x)
				used := false
				for _, ref := range *x.Referrers() {
					if _, isStore := ref.(*ssa.Store); isStore && ref.(*ssa.Store).Addr == ssa.Value(x) {
						continue
					}
					used = true
				}
				if !used {
					fv = nil
				}
			case *ssa.Field:
				fv = fieldOfVal(x)
			}
			if fv != nil {
				read[fv] = true
				if readBy[fv] == nil {
					readBy[fv] = map[string]bool{}
				}
				readBy[fv][fnName(fn)] = true
			}
		}
	}
	_, decoded := r.decodeStructs()
	if len(decoded) == 0 {
		r.Bad(rule, "introspection", "anchor decode structs", "-", "the structs the answer is decoded into were not found (no struct of package introspection has a field decoded from the key \"__schema\"): nothing could be checked")
		return
	}
	n := 0
	roleNames, _ := r.decodeRoles()
	for _, nt := range decoded {
		name := roleNames[nt]
		if name == "" {
			name = nt.Obj().Name()
		}
		st := nt.Underlying().(*types.Struct)
		for i := 0; i < st.NumFields(); i++ {
			f := st.Field(i)
			if k := jsonKey(st.Tag(i)); k == "" || k == "-" {
				// an embedded struct is a decode struct of its own (its fields are promoted)
				continue
			}
			n++
			if read[f] {
				r.OK(rule, "introspection", "consume "+name+"."+f.Name(), r.P.pos(f.Pos()), "read by the reconstruction")
			} else {
				r.Bad(rule, "introspection", "consume "+name+"."+f.Name(), r.P.pos(f.Pos()), "the answer's `"+jsonKey(st.Tag(i))+"` is decoded into "+name+"."+f.Name()+" but no code reachable from introspectRemoteSchema reads it: that information is dropped from the reconstructed schema")
			}
		}
	}
	r.AtLeast(rule, "decoded fields", n, 25)
	// sibling constructors of the input value struct (input fields and arguments are decoded
	// into the same struct: the parameter of parseInputField) read the same fields
	var iv *types.Struct
	ivName := "IntrospectionInputValue"
	if pf := r.P.Fn("introspection.parseInputField"); pf != nil && pf.Signature.Params().Len() == 1 {
		if nt, ok := pf.Signature.Params().At(0).Type().(*types.Named); ok {
			iv, _ = nt.Underlying().(*types.Struct)
			if rn := roleNames[nt]; rn != "" {
				ivName = rn
			} else {
				ivName = nt.Obj().Name()
			}
		}
	}
	if iv != nil {
		sibs := []string{"introspection.parseInputField", "introspection.parseArgList"}
		for i := 0; i < iv.NumFields(); i++ {
			f := iv.Field(i)
			var missing []string
			for _, s := range sibs {
				fn := r.P.Fn(s)
				if fn == nil {
					continue
				}
				cl := r.P.CG.Reachable([]*ssa.Function{fn}, nil)
				found := false
				for g := range cl {
					if readBy[f][fnName(g)] {
						found = true
					}
				}
				if !found {
					missing = append(missing, s)
				}
			}
			if len(missing) == 0 {
				r.OK(rule, "introspection", "siblings read "+ivName+"."+f.Name(), r.P.pos(f.Pos()), "both constructors of input values read this field")
			} else if len(missing) < len(sibs) {
				r.Bad(rule, missing[0], "siblings read "+ivName+"."+f.Name(), r.P.pos(f.Pos()), "input fields and arguments are both decoded as "+ivName+", but "+strings.Join(missing, ", ")+" ignores "+f.Name()+" while its sibling uses it: argument "+strings.ToLower(f.Name())+"s are lost")
			}
		}
	}
}

// ---- kind-set dataflow ---------------------------------------------------------------------

var allKinds = []string{"SCALAR", "OBJECT", "INTERFACE", "UNION", "ENUM", "INPUT_OBJECT"}

// kindsOf maps the kind-specific introspection fields to the kinds for which the
// specification requires a non-null answer (from the comments in gqlparser's prelude).
var kindsOf = map[string][]string{
	"fields":        {"OBJECT", "INTERFACE"},
	"interfaces":    {"OBJECT", "INTERFACE"},
	"possibleTypes": {"INTERFACE", "UNION"},
	"enumValues":    {"ENUM"},
	"inputFields":   {"INPUT_OBJECT"},
}

type kindVar struct {
	base  ssa.Value
	field *types.Var
}

func kindVarOf(v ssa.Value) (kindVar, bool) {
	v = unwrap(v)
	switch x := v.(type) {
	case *ssa.UnOp:
		if x.Op == token.MUL {
			if fa, ok := x.X.(*ssa.FieldAddr); ok && fieldOf(fa) != nil && fieldOf(fa).Name() == "Kind" {
				return kindVar{canonBase(fa.X), fieldOf(fa)}, true
			}
		}
	case *ssa.Field:
		if f := fieldOfVal(x); f != nil && f.Name() == "Kind" {
			return kindVar{x.X, f}, true
		}
	}
	return kindVar{}, false
}

type kset map[string]bool

func fullKinds() kset {
	k := kset{}
	for _, x := range allKinds {
		k[x] = true
	}
	return k
}

// kindSets computes, per block and per kind variable, the set of kinds under which the
// block can be entered. A branch condition is *evaluated* for each kind (absval.go): a direct
// comparison with a constant on either side, a negation, a predicate of the module or of
// gqlparser over the kind (`hasFields(t.Kind)`, `t.IsAbstractType()`), a lookup in a constant
// table (`kindsWithX[t.Kind]`). A condition that cannot be evaluated admits both branches.
func kindSets(P *Prog, fn *ssa.Function) map[*ssa.BasicBlock]map[kindVar]kset {
	in := map[*ssa.BasicBlock]map[kindVar]kset{}
	vars := map[kindVar]bool{}
	// kind variables mentioned by a condition (directly, as an argument, as a table index) and
	// values with a Kind field handed to a predicate
	var scan func(v ssa.Value, depth int)
	scan = func(v ssa.Value, depth int) {
		if depth > 4 || v == nil {
			return
		}
		if kv, ok := kindVarOf(v); ok {
			vars[kv] = true
			return
		}
		switch x := v.(type) {
		case *ssa.UnOp:
			if x.Op == token.NOT {
				scan(x.X, depth+1)
			}
		case *ssa.BinOp:
			scan(x.X, depth+1)
			scan(x.Y, depth+1)
		case *ssa.Lookup:
			scan(x.Index, depth+1)
		case *ssa.ChangeType:
			scan(x.X, depth+1)
		case *ssa.Convert:
			scan(x.X, depth+1)
		case *ssa.Call:
			if b, isBuiltin := x.Call.Value.(*ssa.Builtin); isBuiltin && b.Name() != "" {
				return
			}
			for _, a := range x.Call.Args {
				if _, isConst := a.(*ssa.Const); isConst {
					continue
				}
				if _, nested := a.(*ssa.Call); nested {
					continue
				}
				scan(a, depth+1)
				if st := structOf(a.Type()); st != nil {
					if _, isSlice := a.Type().Underlying().(*types.Slice); isSlice {
						continue
					}
					for i := 0; i < st.NumFields(); i++ {
						if st.Field(i).Name() == "Kind" {
							vars[kindVar{canonBase(a), st.Field(i)}] = true
						}
					}
				}
			}
		}
	}
	for _, b := range fn.Blocks {
		if iff, ok := b.Instrs[len(b.Instrs)-1].(*ssa.If); ok {
			scan(iff.Cond, 0)
		}
	}
	if len(vars) == 0 {
		return in
	}
	// the branch taken by block b when kind variable v has kind k: 0, 1, or -1 (either)
	type bk struct {
		b *ssa.BasicBlock
		v kindVar
		k string
	}
	memo := map[bk]int{}
	ctxs := map[kindVar]map[string]*absCtx{}
	branch := func(b *ssa.BasicBlock, v kindVar, k string) int {
		iff, ok := b.Instrs[len(b.Instrs)-1].(*ssa.If)
		if !ok {
			return -1
		}
		key := bk{b, v, k}
		if r, ok := memo[key]; ok {
			return r
		}
		if ctxs[v] == nil {
			ctxs[v] = map[string]*absCtx{}
		}
		c := ctxs[v][k]
		if c == nil {
			base := v.base
			c = &absCtx{P: P, kind: k, budget: 100000, memo: map[string][]aval{}, isSubject: func(x ssa.Value) bool {
				return x == base || canonBase(x) == base
			}}
			ctxs[v][k] = c
		}
		fr := &frame{c: c, fn: fn, root: true}
		st := &pathState{env: map[ssa.Value]aval{}, tup: map[ssa.Value][]aval{}, visits: map[*ssa.BasicBlock]int{}}
		// a predicate called right in this block for the condition
		var calls func(v ssa.Value, depth int)
		calls = func(v ssa.Value, depth int) {
			ins, ok := v.(ssa.Instruction)
			if !ok || depth > 4 || ins.Block() != b {
				return
			}
			for _, op := range operandsOf(ins) {
				calls(op, depth+1)
			}
			if call, ok := v.(*ssa.Call); ok {
				if _, done := st.env[call]; done {
					return
				}
				if res := fr.execCall(call, st); len(res) == 1 {
					st.env[call] = res[0]
				} else if len(res) > 1 {
					st.tup[call] = res
				}
			}
		}
		calls(iff.Cond, 0)
		r := -1
		if a := fr.eval(iff.Cond, st); a.k == avConst && a.c.Kind() == constant.Bool && !c.overflow {
			if constant.BoolVal(a.c) {
				r = 0
			} else {
				r = 1
			}
		}
		memo[key] = r
		return r
	}
	for _, b := range fn.Blocks {
		in[b] = map[kindVar]kset{}
		for v := range vars {
			in[b][v] = kset{}
		}
	}
	for v := range vars {
		in[fn.Blocks[0]][v] = fullKinds()
	}
	for changed := true; changed; {
		changed = false
		for _, b := range fn.Blocks {
			for v := range vars {
				for k := range in[b][v] {
					br := branch(b, v, k)
					for si, s := range b.Succs {
						if br >= 0 && len(b.Succs) == 2 && si != br {
							continue
						}
						if !in[s][v][k] {
							in[s][v][k] = true
							changed = true
						}
					}
				}
			}
		}
	}
	return in
}

func ksetString(k kset) string {
	var s []string
	for x := range k {
		s = append(s, x)
	}
	sort.Strings(s)
	return "{" + strings.Join(s, ",") + "}"
}

// ruleKindGuardsReader (C15): reads of the kind-specific answer fields in the reconstruction
// are not restricted to fewer kinds than the specification names.
func ruleKindGuardsReader(r *Run) {
	const rule = "R11b.read"
	root := r.Anchor(rule, "introspection.introspectRemoteSchema")
	if root == nil {
		return
	}
	// the kind-specific lists of the answer, by role: the fields of the decode struct of a full
	// type (the one decoded from `kind` and the kind-specific keys), by their JSON key
	field2key := map[*types.Var]string{}
	_, decoded := r.decodeStructs()
	for _, nt := range decoded {
		tags := jsonFields(nt.Underlying().(*types.Struct), 0)
		have := 0
		for key := range kindsOf {
			if tags[key] != nil {
				have++
			}
		}
		if tags["kind"] == nil || have < 3 {
			continue
		}
		for key := range kindsOf {
			if tags[key] != nil {
				field2key[tags[key]] = key
			}
		}
	}
	if len(field2key) == 0 {
		r.Bad(rule, "introspection", "anchor full-type decode struct", "-", "no decode struct with the keys `kind` and the kind-specific lists was found: the reader's kind guards could not be checked")
		return
	}
	n := 0
	// per function and key: the kinds for which some read of the list is reachable (a reader
	// that dispatches on the kind reads `fields` once under OBJECT and once under INTERFACE)
	covered := map[string]kset{}
	firstSite := map[string]string{}
	firstFn := map[string]string{}
	example := map[string]string{}
	for fn := range r.P.CG.Reachable([]*ssa.Function{root}, nil) {
		ks := kindSets(r.P, fn)
		for _, ins := range allInstrs(fn) {
			var fv *types.Var
			switch x := ins.(type) {
			case *ssa.FieldAddr:
				fv = fieldOf(x)
			case *ssa.Field:
				fv = fieldOfVal(x)
			}
			key, ok := field2key[fv]
			if fv == nil || !ok {
				continue
			}
			n++
			key = fnName(fn) + "\x00" + key
			if covered[key] == nil {
				covered[key] = kset{}
			}
			site := r.P.pos(ins.Pos())
			if firstSite[key] == "" || site < firstSite[key] {
				firstSite[key], firstFn[key] = site, fnName(fn)
			}
			for _, k := range allKinds {
				admitted := true
				for v, set := range ks[ins.Block()] {
					if !set[k] {
						admitted = false
						if example[key] == "" {
							example[key] = fmt.Sprintf("the read at %s is reachable only for kinds %s of %s.Kind", site, ksetString(set), shortType(v.base.Type()))
						}
					}
				}
				if admitted {
					covered[key][k] = true
				}
			}
		}
	}
	var keys []string
	for k := range covered {
		keys = append(keys, k)
	}
	sort.Strings(keys)
	for _, fkey := range keys {
		key := fkey[strings.IndexByte(fkey, 0)+1:]
		var missing []string
		for _, need := range kindsOf[key] {
			if !covered[fkey][need] {
				missing = append(missing, need)
			}
		}
		r.Check(len(missing) == 0, rule, firstFn[fkey], "read `"+key+"` of the answer", firstSite[fkey],
			"read for every kind for which the specification answers `"+key+"`",
			"`"+key+"` of a service's answer is not read for "+fmt.Sprint(missing)+", kinds that carry it ("+example[fkey]+"; the specification gives `"+key+"` for "+fmt.Sprint(kindsOf[key])+"): e.g. the interfaces implemented by an interface, or the fields of an interface, are lost from the reconstruction")
	}
	r.AtLeast(rule, "reads of kind-specific answer fields", n, 5)
	r.AtLeast(rule, "consumptions of kind-specific answer lists", r.kindListConsumers(root, field2key), 5)
}

// kindListConsumers: reading the list is not enough — what is done with its elements must be
// possible for every kind the specification gives the list for. For each read of a
// kind-specific list of the answer, the effects that consume its elements (stores, appends,
// calls) are collected, following the list through phis (a list replaced by nil on a
// kind-dependent branch is restricted to the other branches' kinds); at least one consuming
// effect must be reachable for all the kinds of the specification.
func (r *Run) kindListConsumers(root *ssa.Function, field2key map[*types.Var]string) int {
	const rule = "R11b.read"
	n := 0
	// per key, over all reads of the list: the kinds for which some consuming effect is reachable
	kcov := map[string]kset{}
	ksite, kfn, kwhy := map[string]string{}, map[string]string{}, map[string]string{}
	kcount := map[string]int{}
	for fn := range r.P.CG.Reachable([]*ssa.Function{root}, nil) {
		ks := kindSets(r.P, fn)
		kindsAt := func(b *ssa.BasicBlock, restr map[kindVar]kset, need []string) (bool, string) {
			vars := map[kindVar]bool{}
			for v := range ks[b] {
				vars[v] = true
			}
			for v := range restr {
				vars[v] = true
			}
			for v := range vars {
				for _, k := range need {
					inBlock := true
					if set, ok := ks[b][v]; ok {
						inBlock = set[k]
					}
					inRestr := true
					if set, ok := restr[v]; ok {
						inRestr = set[k]
					}
					if !inBlock || !inRestr {
						return false, fmt.Sprintf("not for kind %s of %s.Kind", k, shortType(v.base.Type()))
					}
				}
			}
			return true, ""
		}
		for _, ins := range allInstrs(fn) {
			var fv *types.Var
			var lists []ssa.Value
			switch x := ins.(type) {
			case *ssa.FieldAddr:
				fv = fieldOf(x)
				for _, ref := range *x.Referrers() {
					if ld, ok := ref.(*ssa.UnOp); ok && ld.Op == token.MUL {
						lists = append(lists, ld)
					}
				}
			case *ssa.Field:
				fv = fieldOfVal(x)
				lists = append(lists, x)
			}
			key, ok := field2key[fv]
			if fv == nil || !ok {
				continue
			}
			type cons struct {
				ins   ssa.Instruction
				restr map[kindVar]kset
			}
			var consumers []cons
			seen := map[ssa.Value]bool{}
			var elemUses func(v ssa.Value, restr map[kindVar]kset, depth int)
			elemUses = func(v ssa.Value, restr map[kindVar]kset, depth int) {
				if depth > 6 || v.Referrers() == nil {
					return
				}
				for _, ref := range *v.Referrers() {
					switch x := ref.(type) {
					case *ssa.FieldAddr, *ssa.Field, *ssa.UnOp, *ssa.IndexAddr, *ssa.MakeInterface, *ssa.ChangeType, *ssa.Slice:
						elemUses(x.(ssa.Value), restr, depth+1)
					case *ssa.Store:
						if x.Val == v {
							if al, ok := x.Addr.(*ssa.Alloc); ok && !al.Heap || ok && al.Comment != "" && al.Parent() == fn {
								// the range variable: a local copy of the element
								elemUses(al, restr, depth+1)
								continue
							}
							consumers = append(consumers, cons{x, restr})
						}
					case *ssa.MapUpdate:
						consumers = append(consumers, cons{x, restr})
					case ssa.CallInstruction:
						if b, ok := x.Common().Value.(*ssa.Builtin); ok && b.Name() == "len" {
							continue
						}
						consumers = append(consumers, cons{x, restr})
					}
				}
			}
			var follow func(l ssa.Value, restr map[kindVar]kset, depth int)
			follow = func(l ssa.Value, restr map[kindVar]kset, depth int) {
				if seen[l] || depth > 4 || l.Referrers() == nil {
					return
				}
				seen[l] = true
				for _, ref := range *l.Referrers() {
					switch x := ref.(type) {
					case *ssa.Phi:
						// the kinds under which the phi still carries the list
						nr := map[kindVar]kset{}
						for v, set := range restr {
							nr[v] = set
						}
						carried := map[kindVar]kset{}
						for i, e := range x.Edges {
							if unwrap(e) != l {
								continue
							}
							pred := x.Block().Preds[i]
							for v, set := range ks[pred] {
								if carried[v] == nil {
									carried[v] = kset{}
								}
								for k := range set {
									carried[v][k] = true
								}
							}
						}
						for v, set := range carried {
							if old, ok := nr[v]; ok {
								inter := kset{}
								for k := range set {
									if old[k] {
										inter[k] = true
									}
								}
								nr[v] = inter
							} else {
								nr[v] = set
							}
						}
						follow(x, nr, depth+1)
					case *ssa.IndexAddr:
						if x.X == l {
							elemUses(x, restr, 0)
						}
					case *ssa.Range:
						elemUses(x, restr, 0)
					case ssa.CallInstruction:
						if b, ok := x.Common().Value.(*ssa.Builtin); ok && b.Name() == "len" {
							continue
						}
						consumers = append(consumers, cons{x, restr})
					case *ssa.Store:
						if x.Val == l {
							consumers = append(consumers, cons{x, restr})
						}
					}
				}
			}
			for _, l := range lists {
				follow(l, map[kindVar]kset{}, 0)
			}
			if len(consumers) == 0 {
				continue
			}
			n++
			key = fnName(fn) + "\x00" + key
			if kcov[key] == nil {
				kcov[key] = kset{}
			}
			site := r.P.pos(ins.Pos())
			if ksite[key] == "" || site < ksite[key] {
				ksite[key], kfn[key] = site, fnName(fn)
			}
			kcount[key] += len(consumers)
			for _, c := range consumers {
				for _, k := range allKinds {
					if ok, w := kindsAt(c.ins.Block(), c.restr, []string{k}); ok {
						kcov[key][k] = true
					} else if kwhy[key] == "" {
						kwhy[key] = fmt.Sprintf("e.g. the effect at %s is %s", r.P.pos(c.ins.Pos()), w)
					}
				}
			}
		}
	}
	var keys []string
	for k := range kcov {
		keys = append(keys, k)
	}
	sort.Strings(keys)
	for _, fkey := range keys {
		key := fkey[strings.IndexByte(fkey, 0)+1:]
		var missing []string
		for _, need := range kindsOf[key] {
			if !kcov[fkey][need] {
				missing = append(missing, need)
			}
		}
		r.Check(len(missing) == 0, rule, kfn[fkey], "consume `"+key+"` of the answer", ksite[fkey],
			fmt.Sprintf("%d effect(s) consume the list's elements; for every kind the specification answers `%s` for, at least one is reachable", kcount[fkey], key),
			"no effect that consumes the elements of `"+key+"` is reachable for "+fmt.Sprint(missing)+" although the specification answers it for "+fmt.Sprint(kindsOf[key])+" ("+kwhy[fkey]+"): for those kinds the service's answer is read and then dropped — e.g. an interface that implements another interface loses its `implements` clause")
	}
	return n
}

// switchCases extracts `switch <tag> { case "c": … }` lowered to an If chain on one tag value.
type strSwitch struct {
	tag   ssa.Value
	cases map[string]*ssa.BasicBlock
	deflt *ssa.BasicBlock
	first *ssa.If
}

func nameSwitches(fn *ssa.Function) []*strSwitch {
	byTag := map[ssa.Value]*strSwitch{}
	var order []*strSwitch
	for _, b := range fn.Blocks {
		iff, ok := b.Instrs[len(b.Instrs)-1].(*ssa.If)
		if !ok {
			continue
		}
		bo, ok := iff.Cond.(*ssa.BinOp)
		if !ok || bo.Op != token.EQL {
			continue
		}
		c, ok := bo.Y.(*ssa.Const)
		if !ok || c.Value == nil || c.Value.Kind() != constant.String {
			continue
		}
		// tag: load of <field>.Name where the struct is gqlparser's ast.Field
		ld, ok := bo.X.(*ssa.UnOp)
		if !ok || ld.Op != token.MUL {
			continue
		}
		fa, ok := ld.X.(*ssa.FieldAddr)
		if !ok || fieldOf(fa) == nil || fieldOf(fa).Name() != "Name" || !strings.HasSuffix(namedOf(fa.X.Type()), "gqlparser/v2/ast.Field") {
			continue
		}
		sw := byTag[bo.X]
		if sw == nil {
			sw = &strSwitch{tag: bo.X, cases: map[string]*ssa.BasicBlock{}, first: iff}
			byTag[bo.X] = sw
			order = append(order, sw)
		}
		sw.cases[constant.StringVal(c.Value)] = b.Succs[0]
		sw.deflt = b.Succs[1]
	}
	return order
}

func ruleResolverSpec(r *Run) {
	const rule = "R11a"
	schema, err := preludeSchema()
	if err != nil {
		r.Bad(rule, "introspection", "prelude", "-", err.Error())
		return
	}
	var intro []*gast.Definition
	for _, name := range []string{"__Schema", "__Type", "__Field", "__InputValue", "__EnumValue", "__Directive"} {
		if d := schema.Types[name]; d != nil {
			intro = append(intro, d)
		}
	}
	// resolver functions: those in package introspection with a name switch
	type resolver struct {
		fn  *ssa.Function
		sw  *strSwitch
		def *gast.Definition
	}
	var resolvers []resolver
	byType := map[string][]*ssa.Function{}
	for _, fn := range r.P.Funcs {
		if fn.Pkg == nil || fn.Pkg.Pkg.Path() != introPkg {
			continue
		}
		for _, sw := range nameSwitches(fn) {
			// best overlapping prelude type
			var best *gast.Definition
			bestN, bestScore := 0, 0
			for _, d := range intro {
				k := 0
				for _, f := range d.Fields {
					if _, ok := sw.cases[f.Name]; ok {
						k++
					}
				}
				// prefer the type that is covered best (ties between __Field and __EnumValue)
				score := k*1000 + k*1000/len(d.Fields)
				if score > bestScore {
					best, bestN, bestScore = d, k, score
				}
			}
			if best == nil || bestN*2 < len(sw.cases) {
				continue // e.g. the top-level __type/__schema dispatcher
			}
			resolvers = append(resolvers, resolver{fn, sw, best})
			byType[best.Name] = append(byType[best.Name], fn)
		}
	}
	r.AtLeast(rule, "introspection resolvers", len(resolvers), 6)
	n := 0
	isResolverFn := map[*ssa.Function]bool{}
	for _, fs := range byType {
		for _, f := range fs {
			isResolverFn[f] = true
		}
	}
	// one round of the selection loop, evaluated path by path (absval.go): what is stored under
	// the alias of the selected field `name` when the type has kind `kind`
	type roundKey struct {
		sw         *strSwitch
		name, kind string
		absent     string
	}
	rounds := map[roundKey][]*roundOutcome{}
	roundBad := map[roundKey]string{}
	runners := map[*strSwitch]*roundRunner{}
	round := func(rs resolver, name, kind, absent string) ([]*roundOutcome, string) {
		k := roundKey{rs.sw, name, kind, absent}
		if o, ok := rounds[k]; ok {
			return o, roundBad[k]
		}
		rr, ok := runners[rs.sw]
		if !ok {
			var cb *ssa.BasicBlock
			var names []string
			for c := range rs.sw.cases {
				names = append(names, c)
			}
			sort.Strings(names)
			if len(names) > 0 {
				cb = rs.sw.cases[names[0]]
			}
			if cb != nil {
				rr = newRoundRunner(r.P, rs.fn, cb, isResolverFn)
			}
			runners[rs.sw] = rr
		}
		if rr == nil {
			rounds[k], roundBad[k] = nil, "the switch over the selected field's name is not inside a loop over the selection"
			return nil, roundBad[k]
		}
		outs, overflow := rr.run(name, kind, absent)
		bad := ""
		if overflow {
			outs, bad = nil, "the resolver has too many paths to be evaluated"
		} else if len(outs) == 0 {
			bad = "no path through one round of the selection loop could be evaluated"
		}
		rounds[k], roundBad[k] = outs, bad
		return outs, bad
	}
	kindsFor := func(rs resolver) []string {
		if rs.def.Name == "__Type" && len(rs.sw.cases) >= 6 {
			return allKinds
		}
		return []string{""}
	}
	for _, rs := range resolvers {
		name := fnName(rs.fn)
		site := r.P.pos(rs.sw.first.Cond.Pos())
		// R11a.key: every answer is stored under the alias of the selected field
		if rr0 := innermostLoop(rs.sw.first.Block()); rr0 != nil {
			res := resultMaps(rs.fn)
			for _, ins := range allInstrs(rs.fn) {
				mu, ok := ins.(*ssa.MapUpdate)
				if !ok || !res[mu.Map] || !rr0[mu.Block()] {
					continue
				}
				n++
				r.Check(aliasKey(mu.Key), "R11a.key", name, "answer of "+rs.def.Name+" stored under the alias", r.P.pos(mu.Pos()),
					"the key is the alias of the selected field", "an answer of "+rs.def.Name+" is stored under a key that is not the alias of the selected field: `x: description` is answered under `description`, the key the client asked for is missing")
			}
		}
		for _, f := range rs.def.Fields {
			if strings.HasPrefix(f.Name, "__") {
				continue
			}
			n++
			_, has := rs.sw.cases[f.Name]
			construct := rs.def.Name + "." + f.Name
			missing, null, bad := "", "", ""
			for _, k := range kindsFor(rs) {
				outs, b := round(rs, f.Name, k, "")
				if b != "" {
					bad = b
					break
				}
				for _, o := range outs {
					v, mu, ok := o.final()
					if !ok && missing == "" {
						missing = k
						if k == "" {
							missing = "any kind"
						}
					}
					if ok && v.isNull() && null == "" {
						null = r.P.pos(mu.Pos())
					}
				}
			}
			switch {
			case bad != "":
				r.Bad(rule, name, construct, site, "what the resolver for "+rs.def.Name+" answers for `"+f.Name+"` could not be determined: "+bad)
			case missing != "":
				r.Bad(rule, name, construct, site, "the resolver for "+rs.def.Name+" stores nothing for `"+f.Name+"` (type "+f.Type.String()+") on some path (for "+missing+"): validation accepts a query selecting it, but the key is missing from the answer")
			case f.Type.NonNull && null != "":
				r.Bad(rule, name, construct, site, "the resolver for "+rs.def.Name+" answers null for `"+f.Name+"` (stored at "+null+") although its type "+f.Type.String()+" is non-null")
			case has:
				r.OK(rule, name, construct, site, "explicit case; a value is stored under the alias on every path through the round")
			default:
				r.OK(rule, name, construct, site, "no case of its own; null is stored under the alias on every path through the round")
			}
		}
		// element resolver of list/object-typed fields
		var cnames []string
		for cname := range rs.sw.cases {
			cnames = append(cnames, cname)
		}
		sort.Strings(cnames)
		for _, cname := range cnames {
			body := rs.sw.cases[cname]
			fd := rs.def.Fields.ForName(cname)
			if fd == nil {
				r.Bad(rule, name, rs.def.Name+"."+cname, r.P.pos(firstPos(body)), "the resolver has a case `"+cname+"` that "+rs.def.Name+" does not define")
				continue
			}
			elem := fd.Type.Name()
			want := byType[elem]
			if !strings.HasPrefix(elem, "__") || len(want) == 0 || elem == "__TypeKind" || elem == "__DirectiveLocation" {
				continue
			}
			// functions called from the case body (blocks dominated by the body entry)
			called := map[*ssa.Function]bool{}
			for _, b := range rs.fn.Blocks {
				if !(b == body || (len(body.Preds) == 1 && body.Dominates(b))) {
					continue
				}
				for _, e := range r.P.CG.Out[rs.fn] {
					if e.Site.Block() == b {
						for g := range r.P.CG.Reachable([]*ssa.Function{e.Callee}, nil) {
							called[g] = true
						}
					}
				}
			}
			// R11e: a case that filters on @deprecated must belong to a field that has the
			// includeDeprecated argument — otherwise nothing the client can send makes the
			// filtered elements appear, while validation still accepts their use
			// (the test sits in the case body itself or in a helper it calls directly; element
			// resolvers also look at the directive, to answer isDeprecated — they do not filter)
			isResolver := map[*ssa.Function]bool{}
			for _, fs := range byType {
				for _, f := range fs {
					isResolver[f] = true
				}
			}
			callsDeprecatedTest := func(f *ssa.Function) bool {
				for _, ins := range allInstrs(f) {
					if ci, ok := ins.(ssa.CallInstruction); ok && strings.HasSuffix(calleeName(ci.Common()), "introspection.hasDeprecatedDirective") {
						return true
					}
				}
				return false
			}
			filters := false
			for _, b := range rs.fn.Blocks {
				if b == body || (len(body.Preds) == 1 && body.Dominates(b)) {
					for _, ins := range b.Instrs {
						ci, ok := ins.(ssa.CallInstruction)
						if !ok {
							continue
						}
						if strings.HasSuffix(calleeName(ci.Common()), "introspection.hasDeprecatedDirective") {
							filters = true
						}
						// the directive looked up by name right here: Directives.ForName("deprecated")
						for _, a := range ci.Common().Args {
							if k, ok := a.(*ssa.Const); ok && k.Value != nil && k.Value.Kind() == constant.String && constant.StringVal(k.Value) == "deprecated" {
								filters = true
							}
						}
						if sc := ci.Common().StaticCallee(); sc != nil && inModule(sc) {
							if g := r.P.declared(sc); g != nil && !isResolver[g] && g.Blocks != nil && callsDeprecatedTest(g) {
								filters = true
							}
						}
					}
				}
			}
			if filters && fd.Type.Elem != nil {
				n++
				r.Check(fd.Arguments.ForName("includeDeprecated") != nil, "R11e", name, rs.def.Name+"."+cname+" filters deprecated elements", r.P.pos(firstPos(body)),
					"the specification gives `"+cname+"` the includeDeprecated argument that switches the filter off",
					"the list answered for `"+cname+"` leaves out elements marked @deprecated, but "+rs.def.Name+"."+cname+" has no includeDeprecated argument: a deprecated "+elem+" can never be listed although validation accepts requests that use it")
			}
			// the elements are produced by the resolver of the declared element type — on some
			// path of the round, and for a kind-specific list for every kind that carries it
			elemKinds := kindsFor(rs)
			if _, kindSpecific := kindsOf[cname]; kindSpecific && len(elemKinds) > 1 {
				elemKinds = kindsOf[cname]
			}
			okElem, elemWhy := true, ""
			var elemOuts [][]*roundOutcome
			for _, k := range elemKinds {
				outs, bad := round(rs, cname, k, "")
				if bad != "" {
					okElem, elemWhy = false, bad
					break
				}
				elemOuts = append(elemOuts, outs)
				found := false
				for _, o := range outs {
					for _, ev := range o.events {
						if ev.call == nil {
							continue
						}
						for _, w := range want {
							if ev.call == w || r.P.CG.Reachable([]*ssa.Function{ev.call}, nil)[w] {
								found = true
							}
						}
					}
				}
				if !found {
					okElem = false
					if k != "" {
						elemWhy = "for kind " + k + " no path of the round reaches it"
					}
				}
			}
			_ = called
			n++
			r.Check(okElem, "R11b.elem", name, rs.def.Name+"."+cname+" resolved as "+elem, r.P.pos(firstPos(body)),
				"elements are produced by the resolver matched to "+elem,
				"`"+cname+"` is declared as "+fd.Type.String()+" but its elements are not produced by the resolver for "+elem+" ("+elemWhy+"): fields of that type (e.g. defaultValue of input fields) are missing or wrong")
			// R11e.default: includeDeprecated defaults to false — when the argument is absent the
			// elements marked @deprecated are tested for and left out
			if fd.Arguments.ForName("includeDeprecated") != nil && fd.Type.Elem != nil {
				okDef, whyDef := true, ""
				for _, k := range elemKinds {
					outs, bad := round(rs, cname, k, "includeDeprecated")
					if bad != "" {
						okDef, whyDef = false, bad
						break
					}
					for _, o := range outs {
						tested := false
						for _, ev := range o.events {
							if ev.depr {
								tested = true
							}
							if ev.call != nil && isResolverFn[ev.call] && !tested {
								okDef = false
								whyDef = "a path of the round reaches " + fnName(ev.call) + " without the test for @deprecated"
							}
						}
					}
				}
				n++
				r.Check(okDef, "R11e.default", name, rs.def.Name+"."+cname+" without includeDeprecated leaves deprecated elements out", r.P.pos(firstPos(body)),
					"with the argument absent every element passes the test for @deprecated before it is resolved",
					"`"+cname+"` selected without includeDeprecated lists elements marked @deprecated ("+whyDef+"): the specification's default is false, clients that do not ask for deprecated members get them")
			}
			// R11e.builtin: the fields of a type are listed without the introspection meta fields
			// gqlparser adds to the query root (__schema, __type): their name is tested
			if rs.def.Name == "__Type" && cname == "fields" {
				direct, okB := false, true
				for _, outs := range elemOuts {
					for _, o := range outs {
						tested := false
						for _, ev := range o.events {
							if ev.nameT {
								tested = true
							}
							for _, w := range want {
								if ev.call == w {
									direct = true
									if !tested {
										okB = false
									}
								}
							}
						}
					}
				}
				if direct {
					n++
					r.Check(okB, "R11e.builtin", name, "__Type.fields leaves the introspection meta fields out", r.P.pos(firstPos(body)),
						"every field definition passes a test of its name before it is resolved",
						"`fields` resolves field definitions without a test of their name: gqlparser adds `__schema` and `__type` to the fields of the query root, and they are listed as fields of Query although the specification says they are not part of the type's fields")
				}
			}
		}
		// values answered by the cases
		for _, cname := range cnames {
			fd := rs.def.Fields.ForName(cname)
			if fd == nil {
				continue
			}
			seenMu := map[*ssa.MapUpdate]bool{}
			for _, k := range kindsFor(rs) {
				outs, _ := round(rs, cname, k, "")
				for _, o := range outs {
					_, mu, ok := o.final()
					if !ok || seenMu[mu] {
						continue
					}
					seenMu[mu] = true
					r.checkAnsweredValue(name, rs.def.Name, cname, mu)
				}
			}
		}
	}
	// R11a.arg: a resolver that is handed a definition built on the spot reads only fields the
	// builder filled in (resolveInputField builds the ArgumentDefinition of an input field)
	doneArgs := map[*ssa.Function]bool{}
	for _, rs := range resolvers {
		if !doneArgs[rs.fn] {
			doneArgs[rs.fn] = true
			r.checkBuiltArguments(rs.fn, rs.def.Name)
		}
	}
	r.AtLeast(rule, "introspection fields checked", n, 30)

	// R11b: kind guards of the __Type resolver — for every kind-specific field and every kind,
	// what one round of the selection loop stores under the alias: not null exactly for the kinds
	// the specification names (a dropped case, a nil list, a guard in a helper or a predicate are
	// all evaluated, not recognised by shape)
	for _, rs := range resolvers {
		if rs.def.Name != "__Type" || len(rs.sw.cases) < 6 {
			continue
		}
		var keys []string
		for key := range kindsOf {
			keys = append(keys, key)
		}
		sort.Strings(keys)
		for _, key := range keys {
			wantSet := kset{}
			for _, k := range kindsOf[key] {
				wantSet[k] = true
			}
			site := r.P.pos(rs.sw.first.Cond.Pos())
			if body, ok := rs.sw.cases[key]; ok {
				site = r.P.pos(firstPos(body))
			}
			got, nullFor := kset{}, kset{}
			understoodIn, understoodOut := false, false
			why := ""
			for _, k := range allKinds {
				outs, bad := round(rs, key, k, "")
				if bad != "" {
					why = bad
					break
				}
				allNotNull, allNull := len(outs) > 0, len(outs) > 0
				for _, o := range outs {
					v, _, ok := o.final()
					if !ok || !v.isNotNull() {
						allNotNull = false
					}
					if !ok || !v.isNull() {
						allNull = false
					}
					if ok && v.isNotNull() {
						got[k] = true
					}
					if !ok || v.isNull() {
						nullFor[k] = true
					}
				}
				if wantSet[k] && allNotNull {
					understoodIn = true
				}
				if !wantSet[k] && allNull {
					understoodOut = true
				}
			}
			eq := why == "" && understoodIn && (understoodOut || len(wantSet) == len(allKinds))
			for _, k := range allKinds {
				if wantSet[k] && nullFor[k] || !wantSet[k] && got[k] {
					eq = false
				}
			}
			if why == "" && !(understoodIn && understoodOut) {
				why = "the value stored could not be determined for any kind"
			}
			r.Check(eq, "R11b.kind", fnName(rs.fn), "__Type."+key+" non-null exactly for "+ksetString(wantSet), site,
				"a non-null answer is produced exactly for the kinds the specification names (evaluated per kind on every path of the round)",
				"`"+key+"` is answered non-null for kinds "+ksetString(got)+" and null (or not at all) for kinds "+ksetString(nullFor)+" but the specification requires a list exactly for "+ksetString(wantSet)+" (null otherwise) ["+why+"]: clients rebuilding the schema see fields/members on the wrong kinds or miss them")
		}
	}
	// R11e.scope: sibling fields of one selection are answered independently. In the loop over
	// the selected fields nothing but the loop position is carried from one field to the next:
	// a flag evaluated for one field (`includeDeprecated: true` on `all: fields(...)`) that
	// survives into the next iteration answers the sibling `current: fields` with it.
	nLoops := 0
	for _, rs := range resolvers {
		var swBlock *ssa.BasicBlock
		for _, b := range rs.sw.cases {
			swBlock = b
			break
		}
		if swBlock == nil {
			continue
		}
		loop := innermostLoop(swBlock)
		if loop == nil {
			continue
		}
		nLoops++
		for b := range loop {
			isHeader := false
			for _, p := range b.Preds {
				if !loop[p] {
					isHeader = true
				}
			}
			if !isHeader {
				continue
			}
			for _, ins := range b.Instrs {
				phi, ok := ins.(*ssa.Phi)
				if !ok {
					break
				}
				if phi.Comment == "rangeindex" {
					continue
				}
				carried := false
				for i, e := range phi.Edges {
					if !loop[b.Preds[i]] || e == ssa.Value(phi) {
						continue
					}
					// the position of a hand-written index loop (`i++`)
					if bo, ok := e.(*ssa.BinOp); ok && bo.Op == token.ADD && bo.X == ssa.Value(phi) {
						if _, isC := bo.Y.(*ssa.Const); isC {
							continue
						}
					}
					// only what was worked out from the selected field itself can leak from one
					// field into the next (its arguments); a value computed from the schema alone
					// and kept for the next round (sorted type names) is a memo
					if !dependsOnSelection(e, loop, 0) {
						continue
					}
					carried = true
				}
				if !carried {
					continue
				}
				name := phi.Comment
				if name == "" {
					name = phi.Name()
				}
				r.Bad("R11e.scope", fnName(rs.fn), "value `"+name+"` carried between sibling fields", r.P.pos(phi.Pos()),
					"the loop over the selected fields of "+rs.def.Name+" carries `"+name+"` from one selected field to the next: what was evaluated for one field (an argument such as includeDeprecated) also decides the answer of its siblings")
			}
		}
	}
	// the same through a variable whose address is taken (`ir.boolArgument(f, name, &flag)`
	// with flag declared above the loop): a cell made outside the loop, written inside it from
	// the selected field, and not reset at the top of every round
	for _, rs := range resolvers {
		var swBlock *ssa.BasicBlock
		for _, b := range rs.sw.cases {
			swBlock = b
			break
		}
		if swBlock == nil {
			continue
		}
		loop := innermostLoop(swBlock)
		if loop == nil {
			continue
		}
		for _, ins := range allInstrs(rs.fn) {
			al, ok := ins.(*ssa.Alloc)
			if !ok || loop[al.Block()] {
				continue
			}
			if _, basic := al.Type().Underlying().(*types.Pointer).Elem().Underlying().(*types.Basic); !basic {
				continue
			}
			writtenIn, readIn, reset := false, false, false
			for _, ref := range *al.Referrers() {
				if !loop[ref.Block()] {
					continue
				}
				switch x := ref.(type) {
				case *ssa.Store:
					if x.Addr == ssa.Value(al) {
						if _, isC := x.Val.(*ssa.Const); isC {
							// a constant stored at the top of the round resets it
							hdrSucc := false
							for b := range loop {
								for _, p := range b.Preds {
									if !loop[p] {
										for _, s2 := range b.Succs {
											if loop[s2] && (s2 == x.Block() || s2.Dominates(x.Block())) && x.Block().Dominates(swBlock) {
												hdrSucc = true
											}
										}
									}
								}
							}
							reset = reset || hdrSucc
						} else {
							writtenIn = true
						}
					}
				case *ssa.UnOp:
					readIn = true
				case ssa.CallInstruction:
					writtenIn = true // its address is handed to a call inside the loop
				}
			}
			if writtenIn && readIn && !reset {
				r.Bad("R11e.scope", fnName(rs.fn), "variable `"+al.Comment+"` carried between sibling fields", r.P.pos(al.Pos()),
					"the loop over the selected fields of "+rs.def.Name+" writes `"+al.Comment+"` (declared above the loop) from one selected field and reads it for the next: what was evaluated for one field (an argument such as includeDeprecated) also decides the answer of its siblings")
			}
		}
	}
	r.AtLeast("R11e.scope", "selection loops of the introspection resolvers", nLoops, 5)
}

// dependsOnSelection: the value is computed (also) from the element of the selection loop —
// something loaded through the loop's own position, or the result of a call that was handed
// such a thing.
func dependsOnSelection(v ssa.Value, loop map[*ssa.BasicBlock]bool, depth int) bool {
	return dependsOnSelectionM(v, loop, map[ssa.Value]bool{})
}

func dependsOnSelectionM(v ssa.Value, loop map[*ssa.BasicBlock]bool, seen map[ssa.Value]bool) bool {
	if v == nil || seen[v] {
		return false
	}
	seen[v] = true
	if phi, ok := v.(*ssa.Phi); ok && phi.Comment == "rangeindex" {
		return true
	}
	if ex, ok := v.(*ssa.Extract); ok {
		if _, isNext := ex.Tuple.(*ssa.Next); isNext {
			return true
		}
	}
	ins, ok := v.(ssa.Instruction)
	if !ok || !loop[ins.Block()] {
		return false
	}
	for _, op := range ins.Operands(nil) {
		if *op != nil && dependsOnSelectionM(*op, loop, seen) {
			return true
		}
	}
	return false
}

// ruleIntrospectionSources (R13l, R3b): argument values are evaluated against the request
// variables; resolvers read the schema they are given; request code does not write Gateway
// state.
func ruleIntrospectionSources(r *Run) {
	const rule = "R13l"
	n := 0
	for _, fn := range r.P.Funcs {
		if fn.Pkg == nil || fn.Pkg.Pkg.Path() != introPkg || !strings.Contains(fnName(fn), "IntrospectionResolver") {
			continue
		}
		for _, ins := range allInstrs(fn) {
			c, ok := ins.(*ssa.Call)
			if !ok || !strings.HasSuffix(calleeName(&c.Call), "ast.ArgumentList).ForName") {
				continue
			}
			// only arguments of *query* fields (receiver is Field.Arguments), not of schema directives
			ld, ok := c.Call.Args[0].(*ssa.UnOp)
			if !ok {
				continue
			}
			fa, ok := ld.X.(*ssa.FieldAddr)
			if !ok || !strings.HasSuffix(namedOf(fa.X.Type()), "ast.Field") {
				continue
			}
			n++
			usesValue, usesRaw := false, false
			var walk func(v ssa.Value, d int)
			walk = func(v ssa.Value, d int) {
				if d > 4 || v.Referrers() == nil {
					return
				}
				for _, ref := range *v.Referrers() {
					switch x := ref.(type) {
					case *ssa.FieldAddr:
						if f := fieldOf(x); f != nil && f.Name() == "Raw" {
							usesRaw = true
						}
						walk(x, d+1)
					case *ssa.UnOp:
						walk(x, d+1)
					case *ssa.Call:
						if strings.HasSuffix(calleeName(&x.Call), "ast.Value).Value") {
							usesValue = true
						}
					case *ssa.Phi:
						walk(x, d+1)
					}
				}
			}
			walk(c, 0)
			r.Check(usesValue && !usesRaw, rule, fnName(fn), "argument of a query field evaluated with variables", r.P.pos(c.Pos()),
				"the argument is evaluated through Value(vars)", "an argument of an introspection field is read through .Raw: for a variable that is the variable's *name*, so the request is answered as if a different value had been given")
		}
	}
	r.AtLeast(rule, "query-field argument reads in the resolver", n, 2)
	// R3b: no writes to Gateway state on the request path
	h := r.Anchor("R3b", "pebbles.(*Gateway).Handler")
	if h == nil {
		return
	}
	// the three consumers of the schema on the request path read the one field Gateway.schema
	k := 0
	for fn := range r.P.CG.Reachable([]*ssa.Function{h}, nil) {
		if topFn(fn).Pkg == nil || topFn(fn).Pkg.Pkg.Path() != modPath {
			continue
		}
		for _, ins := range allInstrs(fn) {
			ci, ok := ins.(ssa.CallInstruction)
			if !ok {
				continue
			}
			cn := calleeName(ci.Common())
			idx := -1
			switch {
			case cn == loadQueryName:
				idx = 0
			case strings.HasSuffix(cn, "IntrospectionResolver).ResolveIntrospectionFields"):
				idx = 2
			}
			if idx < 0 || idx >= len(ci.Common().Args) {
				continue
			}
			k++
			r.Check(isGatewaySchemaLoad(ci.Common().Args[idx]), "R3b", fnName(fn), "schema argument of "+cn[strings.LastIndex(cn, ".")+1:], r.P.pos(ins.Pos()),
				"validation and introspection read the same Gateway.schema field", "validation or introspection is given a schema other than Gateway.schema: what the gateway reports and what it enforces can differ")
		}
	}
	// the schema stored into a planning context: the field Gateway.schema read on the spot, or —
	// in a constructor, of this package or another (`newPlanningContext(…, g.schema, …)`,
	// `planner.NewPlanningContext(…)`) — the constructor's parameter, judged at each call on the
	// request path
	reach := r.P.CG.Reachable([]*ssa.Function{h}, nil)
	var schemaGiven func(fn *ssa.Function, v ssa.Value, at ssa.Instruction, through string, depth int)
	schemaGiven = func(fn *ssa.Function, v ssa.Value, at ssa.Instruction, through string, depth int) {
		if isGatewaySchemaLoad(v) {
			k++
			r.OK("R3b", fnName(fn), "PlanningContext.Schema"+through, r.P.pos(at.Pos()), "planning reads the same Gateway.schema field")
			return
		}
		if param, isParam := unwrap(v).(*ssa.Parameter); isParam && depth < 3 {
			pi := -1
			for i, p := range fn.Params {
				if p == param {
					pi = i
				}
			}
			var sites []*Edge
			traceable := pi >= 0
			for _, e := range r.P.CG.In[fn] {
				if !reach[e.Caller] {
					continue
				}
				if e.Kind != "static" || pi >= len(e.Site.Common().Args) {
					traceable = false
				}
				sites = append(sites, e)
			}
			if traceable && len(sites) > 0 {
				for _, e := range sites {
					schemaGiven(e.Caller, e.Site.Common().Args[pi], e.Site, " through "+fnName(fn), depth+1)
				}
				return
			}
		}
		k++
		if topFn(fn).Pkg != nil && topFn(fn).Pkg.Pkg.Path() == modPath {
			r.Bad("R3b", fnName(fn), "PlanningContext.Schema"+through, r.P.pos(at.Pos()), "the planner is given a schema other than Gateway.schema")
		} else {
			r.Bad("R3b", fnName(fn), "PlanningContext.Schema"+through, r.P.pos(at.Pos()), "a planning context on the request path is given a schema the rule cannot trace to Gateway.schema")
		}
	}
	for _, fn := range r.P.Funcs {
		if !reach[fn] || topFn(fn).Pkg == nil {
			continue
		}
		for _, ins := range allInstrs(fn) {
			st, ok := ins.(*ssa.Store)
			if !ok {
				continue
			}
			fa, ok := st.Addr.(*ssa.FieldAddr)
			if !ok || fieldOf(fa) == nil || fieldOf(fa).Name() != "Schema" || namedOf(fa.X.Type()) != plannerPkg+".PlanningContext" {
				continue
			}
			schemaGiven(fn, st.Val, st, "", 0)
		}
	}
	r.AtLeast("R3b", "schema consumers on the request path", k, 5)
}

// ruleEnumTables (R11f): a table (map or slice literal) of constants of one of gqlparser's
// closed enumerations that lists most of them lists all of them. An allow-list of directive
// locations that forgets one silently strips that location from every reconstructed directive.
func ruleEnumTables(r *Run) {
	const rule = "R11f"
	const astPath = "github.com/vektah/gqlparser/v2/ast"
	enums := map[*types.Named][]*types.Const{}
	var astPkg *types.Package
	for _, p := range r.P.Pkgs {
		if ip := p.Imports[astPath]; ip != nil && ip.Types != nil {
			astPkg = ip.Types
			break
		}
	}
	if astPkg == nil {
		r.Bad(rule, "", "gqlparser ast package", "-", "type information of "+astPath+" not found")
		return
	}
	sc := astPkg.Scope()
	for _, name := range sc.Names() {
		c, ok := sc.Lookup(name).(*types.Const)
		if !ok {
			continue
		}
		if nt, ok := c.Type().(*types.Named); ok && nt.Obj().Pkg() == astPkg {
			enums[nt] = append(enums[nt], c)
		}
	}
	nEnums, nTables := 0, 0
	for nt, cs := range enums {
		if len(cs) >= 3 {
			nEnums++
		}
		_ = nt
	}
	for _, p := range r.P.Pkgs {
		for _, f := range p.Syntax {
			ast.Inspect(f, func(nd ast.Node) bool {
				// `case A, B, C, …:` of a switch — an allow-list written as a switch clause
				if cc, isCase := nd.(*ast.CaseClause); isCase && len(cc.List) >= 3 {
					seenC := map[*types.Named]map[string]bool{}
					for _, ex := range cc.List {
						var obj types.Object
						switch x := ex.(type) {
						case *ast.SelectorExpr:
							obj = p.TypesInfo.Uses[x.Sel]
						case *ast.Ident:
							obj = p.TypesInfo.Uses[x]
						}
						if c, ok := obj.(*types.Const); ok {
							if nt, ok := c.Type().(*types.Named); ok && enums[nt] != nil {
								if seenC[nt] == nil {
									seenC[nt] = map[string]bool{}
								}
								seenC[nt][c.Name()] = true
							}
						}
					}
					for nt, have := range seenC {
						all := enums[nt]
						if len(all) < 12 || len(have)*4 < len(all)*3 {
							continue // one clause of a dispatch over a small enumeration, or a deliberate subset
						}
						nTables++
						var missing []string
						for _, c := range all {
							if !have[c.Name()] {
								missing = append(missing, c.Name())
							}
						}
						sort.Strings(missing)
						r.Check(len(missing) == 0, rule, "package "+shortPkg(p.PkgPath), "switch clause of "+nt.Obj().Name()+" constants", r.P.pos(cc.Pos()),
							fmt.Sprintf("lists all %d constants of the enumeration", len(all)),
							fmt.Sprintf("one switch clause lists %d of the %d %s constants of gqlparser but not %s: whatever the clause admits, the missing ones are silently dropped or refused", len(have), len(all), nt.Obj().Name(), strings.Join(missing, ", ")))
					}
					return true
				}
				cl, ok := nd.(*ast.CompositeLit)
				if !ok || len(cl.Elts) < 3 {
					return true
				}
				// constants of one enumeration among the elements / keys
				seen := map[*types.Named]map[string]bool{}
				for _, e := range cl.Elts {
					ex := e
					if kv, isKV := e.(*ast.KeyValueExpr); isKV {
						ex = kv.Key
					}
					var obj types.Object
					switch x := ex.(type) {
					case *ast.SelectorExpr:
						obj = p.TypesInfo.Uses[x.Sel]
					case *ast.Ident:
						obj = p.TypesInfo.Uses[x]
					}
					c, isConst := obj.(*types.Const)
					if !isConst {
						// a plain string literal that spells the value of an enumeration constant
						// ("FIELD_DEFINITION"): counted for every enumeration that has the value
						if tv, ok := p.TypesInfo.Types[ex]; ok && tv.Value != nil && tv.Value.Kind() == constant.String {
							val := constant.StringVal(tv.Value)
							for nt, cs := range enums {
								for _, ec := range cs {
									if ec.Val().Kind() == constant.String && constant.StringVal(ec.Val()) == val {
										if seen[nt] == nil {
											seen[nt] = map[string]bool{}
										}
										seen[nt][ec.Name()] = true
									}
								}
							}
						}
						continue
					}
					nt, isNamed := c.Type().(*types.Named)
					if !isNamed || enums[nt] == nil {
						continue
					}
					if seen[nt] == nil {
						seen[nt] = map[string]bool{}
					}
					seen[nt][c.Name()] = true
				}
				// a membership set (map[K]bool / map[K]struct{}) over a small enumeration is a
				// predicate with a deliberate subset ("kinds that have members"); a translation
				// table, a list, or a set over a large enumeration that stops one short is not
				isSet := false
				if tv, ok := p.TypesInfo.Types[cl]; ok && tv.Type != nil {
					if mt, ok := tv.Type.Underlying().(*types.Map); ok {
						switch et := mt.Elem().Underlying().(type) {
						case *types.Basic:
							isSet = et.Kind() == types.Bool
						case *types.Struct:
							isSet = et.NumFields() == 0
						}
					}
				}
				for nt, have := range seen {
					all := enums[nt]
					if len(all) < 3 || len(have)*4 < len(all)*3 {
						continue // a deliberate subset
					}
					if isSet && len(all) < 12 {
						continue
					}
					nTables++
					var missing []string
					for _, c := range all {
						if !have[c.Name()] {
							missing = append(missing, c.Name())
						}
					}
					sort.Strings(missing)
					fname := "package " + shortPkg(p.PkgPath)
					r.Check(len(missing) == 0, rule, fname, "table of "+nt.Obj().Name()+" constants", r.P.pos(cl.Pos()),
						fmt.Sprintf("lists all %d constants of the enumeration", len(all)),
						fmt.Sprintf("a table lists %d of the %d %s constants of gqlparser but not %s: whatever the table admits, the missing ones are silently dropped or refused", len(have), len(all), nt.Obj().Name(), strings.Join(missing, ", ")))
				}
				return true
			})
		}
	}
	if nTables == 0 {
		r.OK(rule, "", "no near-complete enumeration tables", "-", fmt.Sprintf("no composite literal in the module lists three quarters or more of a gqlparser enumeration (%d enumerations known): nothing to compare", nEnums))
	}
	r.AtLeast(rule, "gqlparser enumerations known", nEnums, 3)
}

// checkAnsweredValue: what a case stores is the thing its label names.
func (r *Run) checkAnsweredValue(fn, typ, cname string, mu *ssa.MapUpdate) {
	site := r.P.pos(mu.Pos())
	v := unwrap(mu.Value)
	// a field of a gqlparser definition answered directly: it is the field the label names when
	// the definition has one of that name (`description` answers X.Description, not X.Name)
	if ld, ok := v.(*ssa.UnOp); ok && ld.Op == token.MUL {
		if fa, ok := ld.X.(*ssa.FieldAddr); ok && fieldOf(fa) != nil && strings.Contains(namedOf(fa.X.Type()), "gqlparser/v2/ast.") {
			if st := structOf(fa.X.Type()); st != nil {
				hasNamed := false
				for i := 0; i < st.NumFields(); i++ {
					if strings.EqualFold(st.Field(i).Name(), cname) {
						hasNamed = true
					}
				}
				if hasNamed {
					r.Check(strings.EqualFold(fieldOf(fa).Name(), cname), "R11a.value", fn, typ+"."+cname+" answers the field of that name", site,
						"the definition's field of the same name is answered",
						"`"+cname+"` of "+typ+" answers "+shortType(fa.X.Type())+"."+fieldOf(fa).Name()+" although the definition has a field for `"+cname+"`: clients read the wrong text")
				}
			}
			// a default value is answered as a GraphQL literal: Raw is the bare text of a scalar
			// (a string without its quotes) and empty for lists and objects
			if cname == "defaultValue" && fieldOf(fa).Name() == "Raw" && strings.HasSuffix(namedOf(fa.X.Type()), "gqlparser/v2/ast.Value") {
				r.Bad("R11a.value", fn, typ+".defaultValue is a GraphQL literal", site,
					"`defaultValue` answers ast.Value.Raw: for a string default the quotes are missing and for a list or an object it is empty — the specification wants the value encoded as a GraphQL literal (Value.String())")
			}
		}
	}
	// the root types: `queryType` answers the query root and no other
	if typ == "__Schema" && strings.HasSuffix(cname, "Type") {
		own := strings.TrimSuffix(cname, "Type")
		roots := map[string]bool{}
		seen := map[ssa.Value]bool{}
		var walk func(v ssa.Value, d int)
		walk = func(v ssa.Value, d int) {
			if v == nil || seen[v] || d > 8 {
				return
			}
			seen[v] = true
			switch x := v.(type) {
			case *ssa.Const:
				if x.Value != nil && x.Value.Kind() == constant.String {
					roots[constant.StringVal(x.Value)] = true
				}
				return
			case *ssa.FieldAddr:
				if f := fieldOf(x); f != nil && strings.HasSuffix(namedOf(x.X.Type()), "gqlparser/v2/ast.Schema") {
					roots[f.Name()] = true
				}
			case *ssa.Alloc:
				// a literal built on the spot: what is stored into it
				for _, ref := range *x.Referrers() {
					if fa, ok := ref.(*ssa.FieldAddr); ok {
						for _, r2 := range *fa.Referrers() {
							if st, ok := r2.(*ssa.Store); ok && st.Addr == ssa.Value(fa) {
								walk(st.Val, d+1)
							}
						}
					}
				}
			}
			if ins, ok := v.(ssa.Instruction); ok {
				for _, op := range operandsOf(ins) {
					walk(op, d+1)
				}
			}
		}
		walk(mu.Value, 0)
		other := ""
		for _, root := range []string{"Query", "Mutation", "Subscription"} {
			if roots[root] && !strings.EqualFold(root, own) {
				other = root
			}
		}
		r.Check(other == "", "R11a.value", fn, typ+"."+cname+" answers its own root", site,
			"no other root operation type is named by the answer",
			"`"+cname+"` is answered from the "+other+" root: clients see the wrong type as the "+own+" root")
	}
}

// checkBuiltArguments: at every call of the resolver with a definition built by a literal at the
// call site, the literal fills in every field the resolver reads.
func (r *Run) checkBuiltArguments(fn *ssa.Function, typ string) {
	for pi, p := range fn.Params {
		st := structOf(p.Type())
		if _, isPtr := p.Type().Underlying().(*types.Pointer); !isPtr || st == nil || !strings.Contains(namedOf(p.Type()), "gqlparser/v2/ast.") {
			continue
		}
		reads := map[string]bool{}
		for _, ref := range *p.Referrers() {
			if fa, ok := ref.(*ssa.FieldAddr); ok && fieldOf(fa) != nil {
				for _, r2 := range *fa.Referrers() {
					if ld, ok := r2.(*ssa.UnOp); ok && ld.Op == token.MUL {
						reads[fieldOf(fa).Name()] = true
					}
				}
			}
		}
		if len(reads) == 0 {
			continue
		}
		for _, caller := range r.P.Funcs {
			if caller.Pkg == nil || caller.Pkg.Pkg.Path() != introPkg {
				continue
			}
			for _, ins := range allInstrs(caller) {
				call, ok := ins.(*ssa.Call)
				if !ok || pi >= len(call.Call.Args) {
					continue
				}
				sc := call.Call.StaticCallee()
				if sc == nil || (sc != fn && r.P.declared(sc) != fn) {
					continue
				}
				al, ok := call.Call.Args[pi].(*ssa.Alloc)
				if !ok {
					continue
				}
				// the literal converts another definition: fields copied under their own name
				// from one source (`Name: field.Name, Description: field.Description, …`)
				filled := map[string]bool{}
				copied := map[ssa.Value]int{}
				for _, ref := range *al.Referrers() {
					if fa, ok := ref.(*ssa.FieldAddr); ok && fieldOf(fa) != nil {
						for _, r2 := range *fa.Referrers() {
							if s, ok := r2.(*ssa.Store); ok && s.Addr == ssa.Value(fa) {
								filled[fieldOf(fa).Name()] = true
								if ld, ok := s.Val.(*ssa.UnOp); ok && ld.Op == token.MUL {
									if sfa, ok := ld.X.(*ssa.FieldAddr); ok && fieldOf(sfa) != nil && fieldOf(sfa).Name() == fieldOf(fa).Name() {
										copied[sfa.X]++
									}
								}
							}
						}
					}
				}
				var src ssa.Value
				for v, k := range copied {
					if k >= 2 && (src == nil || k > copied[src]) {
						src = v
					}
				}
				if src == nil {
					continue // built from scratch (`&ast.Type{NamedType: name}`): zero fields are meant
				}
				srcSt := structOf(src.Type())
				var missing []string
				for f := range reads {
					if filled[f] || srcSt == nil {
						continue
					}
					for i := 0; i < srcSt.NumFields(); i++ {
						if srcSt.Field(i).Name() == f {
							missing = append(missing, f)
						}
					}
				}
				sort.Strings(missing)
				r.Check(len(missing) == 0, "R11a.arg", fnName(caller), "definition built for "+fnName(fn), r.P.pos(call.Pos()),
					"the literal copies every field of its source that the resolver reads",
					"the "+shortType(p.Type())+" built here from a "+shortType(src.Type())+" for the resolver of "+typ+" does not copy "+strings.Join(missing, ", ")+", which the source has and the resolver reads to answer its fields: they are answered empty/null (e.g. an input field loses its defaultValue)")
			}
		}
	}
}
