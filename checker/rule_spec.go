package main

// R11 — SPECTABLE (DESIGN §3 R11): agreement with a specification that is itself parsed.
//  R11c the introspection query sent to services and the structs its answer is decoded into
//       agree key for key; it validates against gqlparser's introspection schema; deprecated
//       members are requested (C15)
//  R10c every decoded field is consumed by the reconstruction (C15)
//  R11b kind-specific fields are read/answered exactly under the kinds the specification
//       names (kind-set dataflow; C15 reader, C16 resolver)
//  R11a every resolver covers all fields of its introspection type; list elements are
//       resolved by the resolver of the declared element type (C16)
//  R3b  request code does not write gateway state (C16)

import (
	"fmt"
	"go/ast"
	"go/constant"
	"go/token"
	"go/types"
	"reflect"
	"sort"
	"strings"

	"github.com/vektah/gqlparser/v2"
	gast "github.com/vektah/gqlparser/v2/ast"
	"golang.org/x/tools/go/ssa"
)

const introPkg = modPath + "/introspection"

// preludeSchema is gqlparser's own introspection schema (the version pinned by /repo's go.mod
// is also the version the checker links, v2.5.1).
func preludeSchema() (*gast.Schema, error) {
	s, err := gqlparser.LoadSchema(&gast.Source{Name: "q", Input: "type Query { x: Int }"})
	if err != nil {
		return nil, err
	}
	return s, nil
}

// constString evaluates a string-valued expression: literal, constant, or package-level
// variable with a constant initialiser; fmt.Sprintf with %s verbs only.
func constString(info *types.Info, pkgFiles []*ast.File, e ast.Expr, depth int) (string, bool) {
	if depth > 5 {
		return "", false
	}
	if tv, ok := info.Types[e]; ok && tv.Value != nil && tv.Value.Kind() == constant.String {
		return constant.StringVal(tv.Value), true
	}
	switch x := e.(type) {
	case *ast.Ident:
		obj := info.Uses[x]
		if obj == nil {
			obj = info.Defs[x]
		}
		for _, f := range pkgFiles {
			for _, d := range f.Decls {
				gd, ok := d.(*ast.GenDecl)
				if !ok {
					continue
				}
				for _, sp := range gd.Specs {
					vs, ok := sp.(*ast.ValueSpec)
					if !ok {
						continue
					}
					for i, n := range vs.Names {
						if info.Defs[n] == obj && i < len(vs.Values) {
							return constString(info, pkgFiles, vs.Values[i], depth+1)
						}
					}
				}
			}
		}
	case *ast.CallExpr:
		if qualifiedCallee(info, x) == "fmt.Sprintf" && len(x.Args) >= 1 {
			format, ok := constString(info, pkgFiles, x.Args[0], depth+1)
			if !ok {
				return "", false
			}
			var args []interface{}
			for _, a := range x.Args[1:] {
				s, ok := constString(info, pkgFiles, a, depth+1)
				if !ok {
					return "", false
				}
				args = append(args, s)
			}
			return fmt.Sprintf(format, args...), true
		}
	}
	return "", false
}

func (r *Run) introspectionQueryText() (string, token.Pos, bool) {
	p := r.P.ByPath[introPkg]
	if p == nil {
		return "", token.NoPos, false
	}
	// the text passed as Query in the request built by introspectRemoteSchema
	for _, f := range p.Syntax {
		for _, d := range f.Decls {
			gd, ok := d.(*ast.GenDecl)
			if !ok {
				continue
			}
			for _, sp := range gd.Specs {
				vs, ok := sp.(*ast.ValueSpec)
				if !ok {
					continue
				}
				for i, n := range vs.Names {
					if n.Name == "introspectionQuery" && i < len(vs.Values) {
						s, ok := constString(p.TypesInfo, p.Syntax, vs.Values[i], 0)
						return s, n.Pos(), ok
					}
				}
			}
		}
	}
	return "", token.NoPos, false
}

func jsonKey(tag string) string {
	k := reflect.StructTag(tag).Get("json")
	if i := strings.IndexByte(k, ','); i >= 0 {
		k = k[:i]
	}
	return k
}

func structOf(t types.Type) *types.Struct {
	for i := 0; i < 4; i++ {
		switch x := t.Underlying().(type) {
		case *types.Pointer:
			t = x.Elem()
		case *types.Slice:
			t = x.Elem()
		case *types.Struct:
			return x
		default:
			return nil
		}
	}
	return nil
}

func ruleIntrospectionQuery(r *Run) {
	const rule = "R11c"
	text, pos, ok := r.introspectionQueryText()
	site := r.P.pos(pos)
	if !ok {
		r.Bad(rule, "introspection", "introspection query text", site, "the introspection query constant could not be evaluated statically (no longer a literal / Sprintf of constants)")
		return
	}
	schema, err := preludeSchema()
	if err != nil {
		r.Bad(rule, "introspection", "prelude", site, "cannot load gqlparser's introspection schema: "+err.Error())
		return
	}
	doc, errs := gqlparser.LoadQuery(schema, text)
	if errs != nil {
		r.Bad(rule, "introspection", "query validates against the introspection schema", site, "the introspection query sent to services is not a valid introspection document: "+errs.Error())
		return
	}
	r.OK(rule, "introspection", "query validates against the introspection schema", site, "parsed and validated against gqlparser's prelude")
	if len(doc.Operations) != 1 {
		r.Bad(rule, "introspection", "single operation", site, "the introspection document does not contain exactly one operation")
		return
	}
	root := r.P.ByPath[introPkg].Types.Scope().Lookup("IntrospectionQueryResult")
	if root == nil {
		r.Bad(rule, "introspection", "anchor IntrospectionQueryResult", site, "decode struct not found")
		return
	}
	n := 0
	var walk func(ss gast.SelectionSet, st *types.Struct, path string, depth int)
	collect := func(ss gast.SelectionSet) []*gast.Field {
		var out []*gast.Field
		var f func(ss gast.SelectionSet)
		f = func(ss gast.SelectionSet) {
			for _, s := range ss {
				switch x := s.(type) {
				case *gast.Field:
					out = append(out, x)
				case *gast.InlineFragment:
					f(x.SelectionSet)
				case *gast.FragmentSpread:
					if x.Definition != nil {
						f(x.Definition.SelectionSet)
					}
				}
			}
		}
		f(ss)
		return out
	}
	walk = func(ss gast.SelectionSet, st *types.Struct, path string, depth int) {
		if depth > 12 {
			return
		}
		fields := collect(ss)
		selected := map[string]*gast.Field{}
		for _, f := range fields {
			k := f.Alias
			if k == "" {
				k = f.Name
			}
			selected[k] = f
		}
		tags := map[string]*types.Var{}
		for i := 0; i < st.NumFields(); i++ {
			if k := jsonKey(st.Tag(i)); k != "" && k != "-" {
				tags[k] = st.Field(i)
			}
		}
		var keys []string
		for k := range tags {
			keys = append(keys, k)
		}
		sort.Strings(keys)
		for _, k := range keys {
			n++
			fv := tags[k]
			if f, ok := selected[k]; ok {
				r.OK(rule, "introspection", "decode "+path+"."+k, r.P.pos(fv.Pos()), "the key is selected by the query")
				if sub := structOf(fv.Type()); sub != nil && len(f.SelectionSet) > 0 {
					walk(f.SelectionSet, sub, path+"."+k, depth+1)
				}
			} else if sub := structOf(fv.Type()); sub != nil && sub == st {
				// recursive reference deeper than the query nests (ofType chain): fine
				r.OK(rule, "introspection", "decode "+path+"."+k, r.P.pos(fv.Pos()), "recursive field beyond the nesting depth of the query")
			} else {
				r.Bad(rule, "introspection", "decode "+path+"."+k, r.P.pos(fv.Pos()), "struct field "+fv.Name()+" is decoded from JSON key \""+k+"\" but the introspection query never selects that key at "+path+": the field is always empty and whatever it should carry is lost from the reconstructed schema")
			}
		}
		var sel []string
		for k := range selected {
			sel = append(sel, k)
		}
		sort.Strings(sel)
		for _, k := range sel {
			if _, ok := tags[k]; !ok {
				n++
				r.Bad(rule, "introspection", "select "+path+"."+k, site, "the query selects \""+k+"\" at "+path+" but the decode struct has no field for it: that part of the service's answer is thrown away")
			}
		}
		// includeDeprecated must be passed as true wherever the introspection schema offers it
		for _, f := range fields {
			if f.Definition == nil {
				continue
			}
			if ad := f.Definition.Arguments.ForName("includeDeprecated"); ad != nil {
				n++
				a := f.Arguments.ForName("includeDeprecated")
				good := a != nil && a.Value != nil && a.Value.Kind == gast.BooleanValue && a.Value.Raw == "true"
				r.Check(good, rule, "introspection", "includeDeprecated on "+path+"."+f.Name, site,
					"deprecated members are requested explicitly", "`"+f.Name+"` is selected without includeDeprecated: true — the specification's default is false, so a compliant service omits its deprecated fields/enum values and they silently vanish from the gateway's schema")
			}
		}
	}
	st, _ := root.Type().Underlying().(*types.Struct)
	if st == nil {
		r.Bad(rule, "introspection", "anchor IntrospectionQueryResult", site, "decode root is not a struct")
		return
	}
	walk(doc.Operations[0].SelectionSet, st, "$", 0)
	r.AtLeast(rule, "query/struct keys", n, 30)
}

// ruleDecodedFieldsUsed (R10c)
func ruleDecodedFieldsUsed(r *Run) {
	const rule = "R10c"
	root := r.Anchor(rule, "introspection.introspectRemoteSchema")
	if root == nil {
		return
	}
	reach := r.P.CG.Reachable([]*ssa.Function{root}, nil)
	read := map[*types.Var]bool{}
	readBy := map[*types.Var]map[string]bool{}
	for fn := range reach {
		for _, ins := range allInstrs(fn) {
			var fv *types.Var
			switch x := ins.(type) {
			case *ssa.FieldAddr:
				// address taken: read if loaded (or ranged)
				fv = fieldOf(x)
				used := false
				for _, ref := range *x.Referrers() {
					if _, isStore := ref.(*ssa.Store); isStore && ref.(*ssa.Store).Addr == ssa.Value(x) {
						continue
					}
					used = true
				}
				if !used {
					fv = nil
				}
			case *ssa.Field:
				fv = fieldOfVal(x)
			}
			if fv != nil {
				read[fv] = true
				if readBy[fv] == nil {
					readBy[fv] = map[string]bool{}
				}
				readBy[fv][fnName(fn)] = true
			}
		}
	}
	scope := r.P.ByPath[introPkg].Types.Scope()
	n := 0
	for _, name := range scope.Names() {
		if !strings.HasPrefix(name, "Introspection") || name == "IntrospectionResolver" {
			continue
		}
		st, ok := scope.Lookup(name).Type().Underlying().(*types.Struct)
		if !ok {
			continue
		}
		for i := 0; i < st.NumFields(); i++ {
			f := st.Field(i)
			if jsonKey(st.Tag(i)) == "" {
				continue
			}
			n++
			if read[f] {
				r.OK(rule, "introspection", "consume "+name+"."+f.Name(), r.P.pos(f.Pos()), "read by the reconstruction")
			} else {
				r.Bad(rule, "introspection", "consume "+name+"."+f.Name(), r.P.pos(f.Pos()), "the answer's `"+jsonKey(st.Tag(i))+"` is decoded into "+name+"."+f.Name()+" but no code reachable from introspectRemoteSchema reads it: that information is dropped from the reconstructed schema")
			}
		}
	}
	r.AtLeast(rule, "decoded fields", n, 25)
	// sibling constructors of IntrospectionInputValue read the same fields
	iv, _ := scope.Lookup("IntrospectionInputValue").Type().Underlying().(*types.Struct)
	if iv != nil {
		sibs := []string{"introspection.parseInputField", "introspection.parseArgList"}
		for i := 0; i < iv.NumFields(); i++ {
			f := iv.Field(i)
			var missing []string
			for _, s := range sibs {
				fn := r.P.Fn(s)
				if fn == nil {
					continue
				}
				cl := r.P.CG.Reachable([]*ssa.Function{fn}, nil)
				found := false
				for g := range cl {
					if readBy[f][fnName(g)] {
						found = true
					}
				}
				if !found {
					missing = append(missing, s)
				}
			}
			if len(missing) == 0 {
				r.OK(rule, "introspection", "siblings read IntrospectionInputValue."+f.Name(), r.P.pos(f.Pos()), "both constructors of input values read this field")
			} else if len(missing) < len(sibs) {
				r.Bad(rule, missing[0], "siblings read IntrospectionInputValue."+f.Name(), r.P.pos(f.Pos()), "input fields and arguments are both decoded as IntrospectionInputValue, but "+strings.Join(missing, ", ")+" ignores "+f.Name()+" while its sibling uses it: argument "+strings.ToLower(f.Name())+"s are lost")
			}
		}
	}
}

// ---- kind-set dataflow ---------------------------------------------------------------------

var allKinds = []string{"SCALAR", "OBJECT", "INTERFACE", "UNION", "ENUM", "INPUT_OBJECT"}

// kindsOf maps the kind-specific introspection fields to the kinds for which the
// specification requires a non-null answer (from the comments in gqlparser's prelude).
var kindsOf = map[string][]string{
	"fields":        {"OBJECT", "INTERFACE"},
	"interfaces":    {"OBJECT", "INTERFACE"},
	"possibleTypes": {"INTERFACE", "UNION"},
	"enumValues":    {"ENUM"},
	"inputFields":   {"INPUT_OBJECT"},
}

type kindVar struct {
	base  ssa.Value
	field *types.Var
}

func kindVarOf(v ssa.Value) (kindVar, bool) {
	v = unwrap(v)
	switch x := v.(type) {
	case *ssa.UnOp:
		if x.Op == token.MUL {
			if fa, ok := x.X.(*ssa.FieldAddr); ok && fieldOf(fa) != nil && fieldOf(fa).Name() == "Kind" {
				return kindVar{canonBase(fa.X), fieldOf(fa)}, true
			}
		}
	case *ssa.Field:
		if f := fieldOfVal(x); f != nil && f.Name() == "Kind" {
			return kindVar{x.X, f}, true
		}
	}
	return kindVar{}, false
}

type kset map[string]bool

func fullKinds() kset {
	k := kset{}
	for _, x := range allKinds {
		k[x] = true
	}
	return k
}

// kindSets computes, per block and per kind variable, the set of kinds under which the
// block can be entered.
func kindSets(fn *ssa.Function) map[*ssa.BasicBlock]map[kindVar]kset {
	in := map[*ssa.BasicBlock]map[kindVar]kset{}
	vars := map[kindVar]bool{}
	type test struct {
		v     kindVar
		c     string
		isEq  bool
		found bool
	}
	testOf := func(b *ssa.BasicBlock) test {
		iff, ok := b.Instrs[len(b.Instrs)-1].(*ssa.If)
		if !ok {
			return test{}
		}
		bo, ok := iff.Cond.(*ssa.BinOp)
		if !ok || (bo.Op != token.EQL && bo.Op != token.NEQ) {
			return test{}
		}
		for _, pair := range [][2]ssa.Value{{bo.X, bo.Y}, {bo.Y, bo.X}} {
			kv, ok := kindVarOf(pair[0])
			if !ok {
				continue
			}
			if c, ok := unwrap(pair[1]).(*ssa.Const); ok && c.Value != nil && c.Value.Kind() == constant.String {
				return test{kv, constant.StringVal(c.Value), bo.Op == token.EQL, true}
			}
		}
		return test{}
	}
	for _, b := range fn.Blocks {
		if t := testOf(b); t.found {
			vars[t.v] = true
		}
	}
	if len(vars) == 0 {
		return in
	}
	for _, b := range fn.Blocks {
		in[b] = map[kindVar]kset{}
		for v := range vars {
			in[b][v] = kset{}
		}
	}
	for v := range vars {
		in[fn.Blocks[0]][v] = fullKinds()
	}
	for changed := true; changed; {
		changed = false
		for _, b := range fn.Blocks {
			t := testOf(b)
			for si, s := range b.Succs {
				for v := range vars {
					out := kset{}
					for k := range in[b][v] {
						out[k] = true
					}
					if t.found && t.v == v {
						takeEq := (si == 0) == t.isEq
						if takeEq {
							out = kset{}
							if in[b][v][t.c] {
								out[t.c] = true
							}
						} else {
							delete(out, t.c)
						}
					}
					for k := range out {
						if !in[s][v][k] {
							in[s][v][k] = true
							changed = true
						}
					}
				}
			}
		}
	}
	return in
}

func ksetString(k kset) string {
	var s []string
	for x := range k {
		s = append(s, x)
	}
	sort.Strings(s)
	return "{" + strings.Join(s, ",") + "}"
}

// ruleKindGuardsReader (C15): reads of the kind-specific answer fields in the reconstruction
// are not restricted to fewer kinds than the specification names.
func ruleKindGuardsReader(r *Run) {
	const rule = "R11b.read"
	root := r.Anchor(rule, "introspection.introspectRemoteSchema")
	if root == nil {
		return
	}
	field2key := map[string]string{"Fields": "fields", "Interfaces": "interfaces", "PossibleTypes": "possibleTypes", "EnumValues": "enumValues", "InputFields": "inputFields"}
	n := 0
	for fn := range r.P.CG.Reachable([]*ssa.Function{root}, nil) {
		ks := kindSets(fn)
		for _, ins := range allInstrs(fn) {
			var fv *types.Var
			var owner string
			switch x := ins.(type) {
			case *ssa.FieldAddr:
				fv, owner = fieldOf(x), namedOf(x.X.Type())
			case *ssa.Field:
				fv, owner = fieldOfVal(x), namedOf(x.X.Type())
			}
			if fv == nil || owner != introPkg+".IntrospectionQueryFullType" {
				continue
			}
			key, ok := field2key[fv.Name()]
			if !ok {
				continue
			}
			n++
			good := true
			var why string
			for v, set := range ks[ins.Block()] {
				for _, need := range kindsOf[key] {
					if !set[need] {
						good = false
						why = fmt.Sprintf("the read is reachable only for kinds %s of %s.Kind, but the specification gives `%s` for %v", ksetString(set), shortType(v.base.Type()), key, kindsOf[key])
					}
				}
			}
			r.Check(good, rule, fnName(fn), "read "+fv.Name()+" of the answer", r.P.pos(ins.Pos()),
				"read for every kind for which the specification answers `"+key+"`",
				"`"+key+"` of a service's answer is ignored for some kinds that carry it: "+why+" — e.g. interfaces implemented by interfaces, or possible types of interfaces, are lost from the reconstruction")
		}
	}
	r.AtLeast(rule, "reads of kind-specific answer fields", n, 5)
	r.AtLeast(rule, "consumptions of kind-specific answer lists", r.kindListConsumers(root, field2key), 5)
}

// kindListConsumers: reading the list is not enough — what is done with its elements must be
// possible for every kind the specification gives the list for. For each read of a
// kind-specific list of the answer, the effects that consume its elements (stores, appends,
// calls) are collected, following the list through phis (a list replaced by nil on a
// kind-dependent branch is restricted to the other branches' kinds); at least one consuming
// effect must be reachable for all the kinds of the specification.
func (r *Run) kindListConsumers(root *ssa.Function, field2key map[string]string) int {
	const rule = "R11b.read"
	n := 0
	for fn := range r.P.CG.Reachable([]*ssa.Function{root}, nil) {
		ks := kindSets(fn)
		kindsAt := func(b *ssa.BasicBlock, restr map[kindVar]kset, need []string) (bool, string) {
			vars := map[kindVar]bool{}
			for v := range ks[b] {
				vars[v] = true
			}
			for v := range restr {
				vars[v] = true
			}
			for v := range vars {
				for _, k := range need {
					inBlock := true
					if set, ok := ks[b][v]; ok {
						inBlock = set[k]
					}
					inRestr := true
					if set, ok := restr[v]; ok {
						inRestr = set[k]
					}
					if !inBlock || !inRestr {
						return false, fmt.Sprintf("not for kind %s of %s.Kind", k, shortType(v.base.Type()))
					}
				}
			}
			return true, ""
		}
		for _, ins := range allInstrs(fn) {
			var fv *types.Var
			var owner string
			var lists []ssa.Value
			switch x := ins.(type) {
			case *ssa.FieldAddr:
				fv, owner = fieldOf(x), namedOf(x.X.Type())
				for _, ref := range *x.Referrers() {
					if ld, ok := ref.(*ssa.UnOp); ok && ld.Op == token.MUL {
						lists = append(lists, ld)
					}
				}
			case *ssa.Field:
				fv, owner = fieldOfVal(x), namedOf(x.X.Type())
				lists = append(lists, x)
			}
			if fv == nil || owner != introPkg+".IntrospectionQueryFullType" {
				continue
			}
			key, ok := field2key[fv.Name()]
			if !ok {
				continue
			}
			type cons struct {
				ins   ssa.Instruction
				restr map[kindVar]kset
			}
			var consumers []cons
			seen := map[ssa.Value]bool{}
			var elemUses func(v ssa.Value, restr map[kindVar]kset, depth int)
			elemUses = func(v ssa.Value, restr map[kindVar]kset, depth int) {
				if depth > 6 || v.Referrers() == nil {
					return
				}
				for _, ref := range *v.Referrers() {
					switch x := ref.(type) {
					case *ssa.FieldAddr, *ssa.Field, *ssa.UnOp, *ssa.IndexAddr, *ssa.MakeInterface, *ssa.ChangeType, *ssa.Slice:
						elemUses(x.(ssa.Value), restr, depth+1)
					case *ssa.Store:
						if x.Val == v {
							if al, ok := x.Addr.(*ssa.Alloc); ok && !al.Heap || ok && al.Comment != "" && al.Parent() == fn {
								// the range variable: a local copy of the element
								elemUses(al, restr, depth+1)
								continue
							}
							consumers = append(consumers, cons{x, restr})
						}
					case *ssa.MapUpdate:
						consumers = append(consumers, cons{x, restr})
					case ssa.CallInstruction:
						if b, ok := x.Common().Value.(*ssa.Builtin); ok && b.Name() == "len" {
							continue
						}
						consumers = append(consumers, cons{x, restr})
					}
				}
			}
			var follow func(l ssa.Value, restr map[kindVar]kset, depth int)
			follow = func(l ssa.Value, restr map[kindVar]kset, depth int) {
				if seen[l] || depth > 4 || l.Referrers() == nil {
					return
				}
				seen[l] = true
				for _, ref := range *l.Referrers() {
					switch x := ref.(type) {
					case *ssa.Phi:
						// the kinds under which the phi still carries the list
						nr := map[kindVar]kset{}
						for v, set := range restr {
							nr[v] = set
						}
						carried := map[kindVar]kset{}
						for i, e := range x.Edges {
							if unwrap(e) != l {
								continue
							}
							pred := x.Block().Preds[i]
							for v, set := range ks[pred] {
								if carried[v] == nil {
									carried[v] = kset{}
								}
								for k := range set {
									carried[v][k] = true
								}
							}
						}
						for v, set := range carried {
							if old, ok := nr[v]; ok {
								inter := kset{}
								for k := range set {
									if old[k] {
										inter[k] = true
									}
								}
								nr[v] = inter
							} else {
								nr[v] = set
							}
						}
						follow(x, nr, depth+1)
					case *ssa.IndexAddr:
						if x.X == l {
							elemUses(x, restr, 0)
						}
					case *ssa.Range:
						elemUses(x, restr, 0)
					case ssa.CallInstruction:
						if b, ok := x.Common().Value.(*ssa.Builtin); ok && b.Name() == "len" {
							continue
						}
						consumers = append(consumers, cons{x, restr})
					case *ssa.Store:
						if x.Val == l {
							consumers = append(consumers, cons{x, restr})
						}
					}
				}
			}
			for _, l := range lists {
				follow(l, map[kindVar]kset{}, 0)
			}
			if len(consumers) == 0 {
				continue
			}
			n++
			good, why := false, ""
			for _, c := range consumers {
				if ok, w := kindsAt(c.ins.Block(), c.restr, kindsOf[key]); ok {
					good = true
					break
				} else if why == "" {
					why = fmt.Sprintf("e.g. the effect at %s is %s", r.P.pos(c.ins.Pos()), w)
				}
			}
			r.Check(good, rule, fnName(fn), "consume "+fv.Name()+" of the answer", r.P.pos(ins.Pos()),
				fmt.Sprintf("%d effect(s) consume the list's elements; at least one is reachable for every kind the specification answers `%s` for", len(consumers), key),
				"every effect that consumes the elements of `"+key+"` is limited to fewer kinds than "+fmt.Sprint(kindsOf[key])+" ("+why+"): for the other kinds the service's answer is read and then dropped — e.g. an interface that implements another interface loses its `implements` clause")
		}
	}
	return n
}

// switchCases extracts `switch <tag> { case "c": … }` lowered to an If chain on one tag value.
type strSwitch struct {
	tag   ssa.Value
	cases map[string]*ssa.BasicBlock
	deflt *ssa.BasicBlock
	first *ssa.If
}

func nameSwitches(fn *ssa.Function) []*strSwitch {
	byTag := map[ssa.Value]*strSwitch{}
	var order []*strSwitch
	for _, b := range fn.Blocks {
		iff, ok := b.Instrs[len(b.Instrs)-1].(*ssa.If)
		if !ok {
			continue
		}
		bo, ok := iff.Cond.(*ssa.BinOp)
		if !ok || bo.Op != token.EQL {
			continue
		}
		c, ok := bo.Y.(*ssa.Const)
		if !ok || c.Value == nil || c.Value.Kind() != constant.String {
			continue
		}
		// tag: load of <field>.Name where the struct is gqlparser's ast.Field
		ld, ok := bo.X.(*ssa.UnOp)
		if !ok || ld.Op != token.MUL {
			continue
		}
		fa, ok := ld.X.(*ssa.FieldAddr)
		if !ok || fieldOf(fa) == nil || fieldOf(fa).Name() != "Name" || !strings.HasSuffix(namedOf(fa.X.Type()), "gqlparser/v2/ast.Field") {
			continue
		}
		sw := byTag[bo.X]
		if sw == nil {
			sw = &strSwitch{tag: bo.X, cases: map[string]*ssa.BasicBlock{}, first: iff}
			byTag[bo.X] = sw
			order = append(order, sw)
		}
		sw.cases[constant.StringVal(c.Value)] = b.Succs[0]
		sw.deflt = b.Succs[1]
	}
	return order
}

func ruleResolverSpec(r *Run) {
	const rule = "R11a"
	schema, err := preludeSchema()
	if err != nil {
		r.Bad(rule, "introspection", "prelude", "-", err.Error())
		return
	}
	var intro []*gast.Definition
	for _, name := range []string{"__Schema", "__Type", "__Field", "__InputValue", "__EnumValue", "__Directive"} {
		if d := schema.Types[name]; d != nil {
			intro = append(intro, d)
		}
	}
	// resolver functions: those in package introspection with a name switch
	type resolver struct {
		fn  *ssa.Function
		sw  *strSwitch
		def *gast.Definition
	}
	var resolvers []resolver
	byType := map[string][]*ssa.Function{}
	for _, fn := range r.P.Funcs {
		if fn.Pkg == nil || fn.Pkg.Pkg.Path() != introPkg {
			continue
		}
		for _, sw := range nameSwitches(fn) {
			// best overlapping prelude type
			var best *gast.Definition
			bestN, bestScore := 0, 0
			for _, d := range intro {
				k := 0
				for _, f := range d.Fields {
					if _, ok := sw.cases[f.Name]; ok {
						k++
					}
				}
				// prefer the type that is covered best (ties between __Field and __EnumValue)
				score := k*1000 + k*1000/len(d.Fields)
				if score > bestScore {
					best, bestN, bestScore = d, k, score
				}
			}
			if best == nil || bestN*2 < len(sw.cases) {
				continue // e.g. the top-level __type/__schema dispatcher
			}
			resolvers = append(resolvers, resolver{fn, sw, best})
			byType[best.Name] = append(byType[best.Name], fn)
		}
	}
	r.AtLeast(rule, "introspection resolvers", len(resolvers), 6)
	n := 0
	for _, rs := range resolvers {
		name := fnName(rs.fn)
		// default branch stores nil?
		defaultNil := false
		if rs.sw.deflt != nil {
			for _, ins := range rs.sw.deflt.Instrs {
				if mu, ok := ins.(*ssa.MapUpdate); ok && isNilConst(unwrap(mu.Value)) {
					defaultNil = true
				}
			}
		}
		// wrapper switches of resolveType (NON_NULL / LIST) only answer kind/ofType and default to nil
		wrapper := len(rs.sw.cases) <= 2 && defaultNil
		for _, f := range rs.def.Fields {
			if strings.HasPrefix(f.Name, "__") {
				continue
			}
			n++
			_, has := rs.sw.cases[f.Name]
			site := r.P.pos(rs.sw.first.Cond.Pos())
			construct := rs.def.Name + "." + f.Name
			switch {
			case has:
				r.OK(rule, name, construct, site, "explicit case")
			case !f.Type.NonNull && defaultNil:
				r.OK(rule, name, construct, site, "nullable field answered null by the default branch")
			case wrapper:
				r.OK(rule, name, construct, site, "wrapper type (LIST/NON_NULL): only kind and ofType are non-null, everything else is null by the default branch")
			default:
				r.Bad(rule, name, construct, site, "the resolver for "+rs.def.Name+" has no case for `"+f.Name+"` (type "+f.Type.String()+"): validation accepts a query selecting it, but the key is missing from the answer")
			}
		}
		// element resolver of list/object-typed fields
		for cname, body := range rs.sw.cases {
			fd := rs.def.Fields.ForName(cname)
			if fd == nil {
				r.Bad(rule, name, rs.def.Name+"."+cname, r.P.pos(firstPos(body)), "the resolver has a case `"+cname+"` that "+rs.def.Name+" does not define")
				continue
			}
			elem := fd.Type.Name()
			want := byType[elem]
			if !strings.HasPrefix(elem, "__") || len(want) == 0 || elem == "__TypeKind" || elem == "__DirectiveLocation" {
				continue
			}
			// functions called from the case body (blocks dominated by the body entry)
			called := map[*ssa.Function]bool{}
			for _, b := range rs.fn.Blocks {
				if !(b == body || (len(body.Preds) == 1 && body.Dominates(b))) {
					continue
				}
				for _, e := range r.P.CG.Out[rs.fn] {
					if e.Site.Block() == b {
						for g := range r.P.CG.Reachable([]*ssa.Function{e.Callee}, nil) {
							called[g] = true
						}
					}
				}
			}
			// R11e: a case that filters on @deprecated must belong to a field that has the
			// includeDeprecated argument — otherwise nothing the client can send makes the
			// filtered elements appear, while validation still accepts their use
			// (the test sits in the case body itself or in a helper it calls directly; element
			// resolvers also look at the directive, to answer isDeprecated — they do not filter)
			isResolver := map[*ssa.Function]bool{}
			for _, fs := range byType {
				for _, f := range fs {
					isResolver[f] = true
				}
			}
			callsDeprecatedTest := func(f *ssa.Function) bool {
				for _, ins := range allInstrs(f) {
					if ci, ok := ins.(ssa.CallInstruction); ok && strings.HasSuffix(calleeName(ci.Common()), "introspection.hasDeprecatedDirective") {
						return true
					}
				}
				return false
			}
			filters := false
			for _, b := range rs.fn.Blocks {
				if b == body || (len(body.Preds) == 1 && body.Dominates(b)) {
					for _, ins := range b.Instrs {
						ci, ok := ins.(ssa.CallInstruction)
						if !ok {
							continue
						}
						if strings.HasSuffix(calleeName(ci.Common()), "introspection.hasDeprecatedDirective") {
							filters = true
						}
						// the directive looked up by name right here: Directives.ForName("deprecated")
						for _, a := range ci.Common().Args {
							if k, ok := a.(*ssa.Const); ok && k.Value != nil && k.Value.Kind() == constant.String && constant.StringVal(k.Value) == "deprecated" {
								filters = true
							}
						}
						if sc := ci.Common().StaticCallee(); sc != nil && inModule(sc) {
							if g := r.P.declared(sc); g != nil && !isResolver[g] && g.Blocks != nil && callsDeprecatedTest(g) {
								filters = true
							}
						}
					}
				}
			}
			if filters && fd.Type.Elem != nil {
				n++
				r.Check(fd.Arguments.ForName("includeDeprecated") != nil, "R11e", name, rs.def.Name+"."+cname+" filters deprecated elements", r.P.pos(firstPos(body)),
					"the specification gives `"+cname+"` the includeDeprecated argument that switches the filter off",
					"the list answered for `"+cname+"` leaves out elements marked @deprecated, but "+rs.def.Name+"."+cname+" has no includeDeprecated argument: a deprecated "+elem+" can never be listed although validation accepts requests that use it")
			}
			okElem := false
			for _, w := range want {
				if called[w] {
					okElem = true
				}
			}
			n++
			r.Check(okElem, "R11b.elem", name, rs.def.Name+"."+cname+" resolved as "+elem, r.P.pos(firstPos(body)),
				"elements are produced by the resolver matched to "+elem,
				"`"+cname+"` is declared as "+fd.Type.String()+" but its elements are not produced by the resolver for "+elem+": fields of that type (e.g. defaultValue of input fields) are missing or wrong")
		}
	}
	r.AtLeast(rule, "introspection fields checked", n, 30)

	// R11b: kind guards of the __Type resolver
	for _, rs := range resolvers {
		if rs.def.Name != "__Type" || len(rs.sw.cases) < 6 {
			continue
		}
		ks := kindSets(rs.fn)
		for key, want := range kindsOf {
			body, ok := rs.sw.cases[key]
			if !ok {
				continue
			}
			// kinds under which a non-nil value is stored for this case
			got := kset{}
			seen := false
			for _, b := range rs.fn.Blocks {
				if !(b == body || (len(body.Preds) == 1 && body.Dominates(b))) {
					continue
				}
				for _, ins := range b.Instrs {
					mu, ok := ins.(*ssa.MapUpdate)
					if !ok || isNilConst(unwrap(mu.Value)) {
						continue
					}
					seen = true
					if len(ks[b]) == 0 {
						for _, k := range allKinds {
							got[k] = true
						}
					}
					for _, set := range ks[b] {
						for k := range set {
							got[k] = true
						}
					}
				}
			}
			wantSet := kset{}
			for _, k := range want {
				wantSet[k] = true
			}
			eq := seen && len(got) == len(wantSet)
			for k := range wantSet {
				if !got[k] {
					eq = false
				}
			}
			r.Check(eq, "R11b.kind", fnName(rs.fn), "__Type."+key+" non-null exactly for "+ksetString(wantSet), r.P.pos(firstPos(body)),
				"a non-null answer is produced exactly for the kinds the specification names",
				"`"+key+"` is answered non-null for kinds "+ksetString(got)+" but the specification requires exactly "+ksetString(wantSet)+" (null otherwise): clients rebuilding the schema see fields/members on the wrong kinds or miss them")
		}
	}
	// R11e.scope: sibling fields of one selection are answered independently. In the loop over
	// the selected fields nothing but the loop position is carried from one field to the next:
	// a flag evaluated for one field (`includeDeprecated: true` on `all: fields(...)`) that
	// survives into the next iteration answers the sibling `current: fields` with it.
	nLoops := 0
	for _, rs := range resolvers {
		var swBlock *ssa.BasicBlock
		for _, b := range rs.sw.cases {
			swBlock = b
			break
		}
		if swBlock == nil {
			continue
		}
		loop := innermostLoop(swBlock)
		if loop == nil {
			continue
		}
		nLoops++
		for b := range loop {
			isHeader := false
			for _, p := range b.Preds {
				if !loop[p] {
					isHeader = true
				}
			}
			if !isHeader {
				continue
			}
			for _, ins := range b.Instrs {
				phi, ok := ins.(*ssa.Phi)
				if !ok {
					break
				}
				if phi.Comment == "rangeindex" {
					continue
				}
				carried := false
				for i, e := range phi.Edges {
					if !loop[b.Preds[i]] || e == ssa.Value(phi) {
						continue
					}
					// the position of a hand-written index loop (`i++`)
					if bo, ok := e.(*ssa.BinOp); ok && bo.Op == token.ADD && bo.X == ssa.Value(phi) {
						if _, isC := bo.Y.(*ssa.Const); isC {
							continue
						}
					}
					// only what was worked out from the selected field itself can leak from one
					// field into the next (its arguments); a value computed from the schema alone
					// and kept for the next round (sorted type names) is a memo
					if !dependsOnSelection(e, loop, 0) {
						continue
					}
					carried = true
				}
				if !carried {
					continue
				}
				name := phi.Comment
				if name == "" {
					name = phi.Name()
				}
				r.Bad("R11e.scope", fnName(rs.fn), "value `"+name+"` carried between sibling fields", r.P.pos(phi.Pos()),
					"the loop over the selected fields of "+rs.def.Name+" carries `"+name+"` from one selected field to the next: what was evaluated for one field (an argument such as includeDeprecated) also decides the answer of its siblings")
			}
		}
	}
	// the same through a variable whose address is taken (`ir.boolArgument(f, name, &flag)`
	// with flag declared above the loop): a cell made outside the loop, written inside it from
	// the selected field, and not reset at the top of every round
	for _, rs := range resolvers {
		var swBlock *ssa.BasicBlock
		for _, b := range rs.sw.cases {
			swBlock = b
			break
		}
		if swBlock == nil {
			continue
		}
		loop := innermostLoop(swBlock)
		if loop == nil {
			continue
		}
		for _, ins := range allInstrs(rs.fn) {
			al, ok := ins.(*ssa.Alloc)
			if !ok || loop[al.Block()] {
				continue
			}
			if _, basic := al.Type().Underlying().(*types.Pointer).Elem().Underlying().(*types.Basic); !basic {
				continue
			}
			writtenIn, readIn, reset := false, false, false
			for _, ref := range *al.Referrers() {
				if !loop[ref.Block()] {
					continue
				}
				switch x := ref.(type) {
				case *ssa.Store:
					if x.Addr == ssa.Value(al) {
						if _, isC := x.Val.(*ssa.Const); isC {
							// a constant stored at the top of the round resets it
							hdrSucc := false
							for b := range loop {
								for _, p := range b.Preds {
									if !loop[p] {
										for _, s2 := range b.Succs {
											if loop[s2] && (s2 == x.Block() || s2.Dominates(x.Block())) && x.Block().Dominates(swBlock) {
												hdrSucc = true
											}
										}
									}
								}
							}
							reset = reset || hdrSucc
						} else {
							writtenIn = true
						}
					}
				case *ssa.UnOp:
					readIn = true
				case ssa.CallInstruction:
					writtenIn = true // its address is handed to a call inside the loop
				}
			}
			if writtenIn && readIn && !reset {
				r.Bad("R11e.scope", fnName(rs.fn), "variable `"+al.Comment+"` carried between sibling fields", r.P.pos(al.Pos()),
					"the loop over the selected fields of "+rs.def.Name+" writes `"+al.Comment+"` (declared above the loop) from one selected field and reads it for the next: what was evaluated for one field (an argument such as includeDeprecated) also decides the answer of its siblings")
			}
		}
	}
	r.AtLeast("R11e.scope", "selection loops of the introspection resolvers", nLoops, 5)
}

// dependsOnSelection: the value is computed (also) from the element of the selection loop —
// something loaded through the loop's own position, or the result of a call that was handed
// such a thing.
func dependsOnSelection(v ssa.Value, loop map[*ssa.BasicBlock]bool, depth int) bool {
	return dependsOnSelectionM(v, loop, map[ssa.Value]bool{})
}

func dependsOnSelectionM(v ssa.Value, loop map[*ssa.BasicBlock]bool, seen map[ssa.Value]bool) bool {
	if v == nil || seen[v] {
		return false
	}
	seen[v] = true
	if phi, ok := v.(*ssa.Phi); ok && phi.Comment == "rangeindex" {
		return true
	}
	if ex, ok := v.(*ssa.Extract); ok {
		if _, isNext := ex.Tuple.(*ssa.Next); isNext {
			return true
		}
	}
	ins, ok := v.(ssa.Instruction)
	if !ok || !loop[ins.Block()] {
		return false
	}
	for _, op := range ins.Operands(nil) {
		if *op != nil && dependsOnSelectionM(*op, loop, seen) {
			return true
		}
	}
	return false
}

// ruleIntrospectionSources (R13l, R3b): argument values are evaluated against the request
// variables; resolvers read the schema they are given; request code does not write Gateway
// state.
func ruleIntrospectionSources(r *Run) {
	const rule = "R13l"
	n := 0
	for _, fn := range r.P.Funcs {
		if fn.Pkg == nil || fn.Pkg.Pkg.Path() != introPkg || !strings.Contains(fnName(fn), "IntrospectionResolver") {
			continue
		}
		for _, ins := range allInstrs(fn) {
			c, ok := ins.(*ssa.Call)
			if !ok || !strings.HasSuffix(calleeName(&c.Call), "ast.ArgumentList).ForName") {
				continue
			}
			// only arguments of *query* fields (receiver is Field.Arguments), not of schema directives
			ld, ok := c.Call.Args[0].(*ssa.UnOp)
			if !ok {
				continue
			}
			fa, ok := ld.X.(*ssa.FieldAddr)
			if !ok || !strings.HasSuffix(namedOf(fa.X.Type()), "ast.Field") {
				continue
			}
			n++
			usesValue, usesRaw := false, false
			var walk func(v ssa.Value, d int)
			walk = func(v ssa.Value, d int) {
				if d > 4 || v.Referrers() == nil {
					return
				}
				for _, ref := range *v.Referrers() {
					switch x := ref.(type) {
					case *ssa.FieldAddr:
						if f := fieldOf(x); f != nil && f.Name() == "Raw" {
							usesRaw = true
						}
						walk(x, d+1)
					case *ssa.UnOp:
						walk(x, d+1)
					case *ssa.Call:
						if strings.HasSuffix(calleeName(&x.Call), "ast.Value).Value") {
							usesValue = true
						}
					case *ssa.Phi:
						walk(x, d+1)
					}
				}
			}
			walk(c, 0)
			r.Check(usesValue && !usesRaw, rule, fnName(fn), "argument of a query field evaluated with variables", r.P.pos(c.Pos()),
				"the argument is evaluated through Value(vars)", "an argument of an introspection field is read through .Raw: for a variable that is the variable's *name*, so the request is answered as if a different value had been given")
		}
	}
	r.AtLeast(rule, "query-field argument reads in the resolver", n, 2)
	// R3b: no writes to Gateway state on the request path
	h := r.Anchor("R3b", "pebbles.(*Gateway).Handler")
	if h == nil {
		return
	}
	// the three consumers of the schema on the request path read the one field Gateway.schema
	k := 0
	for fn := range r.P.CG.Reachable([]*ssa.Function{h}, nil) {
		if topFn(fn).Pkg == nil || topFn(fn).Pkg.Pkg.Path() != modPath {
			continue
		}
		for _, ins := range allInstrs(fn) {
			ci, ok := ins.(ssa.CallInstruction)
			if !ok {
				continue
			}
			cn := calleeName(ci.Common())
			idx := -1
			switch {
			case cn == loadQueryName:
				idx = 0
			case strings.HasSuffix(cn, "IntrospectionResolver).ResolveIntrospectionFields"):
				idx = 2
			}
			if idx < 0 || idx >= len(ci.Common().Args) {
				continue
			}
			k++
			r.Check(isGatewaySchemaLoad(ci.Common().Args[idx]), "R3b", fnName(fn), "schema argument of "+cn[strings.LastIndex(cn, ".")+1:], r.P.pos(ins.Pos()),
				"validation and introspection read the same Gateway.schema field", "validation or introspection is given a schema other than Gateway.schema: what the gateway reports and what it enforces can differ")
		}
		for _, ins := range allInstrs(fn) {
			st, ok := ins.(*ssa.Store)
			if !ok {
				continue
			}
			if fa, ok := st.Addr.(*ssa.FieldAddr); ok && fieldOf(fa) != nil && fieldOf(fa).Name() == "Schema" && namedOf(fa.X.Type()) == plannerPkg+".PlanningContext" {
				k++
				r.Check(isGatewaySchemaLoad(st.Val), "R3b", fnName(fn), "PlanningContext.Schema", r.P.pos(st.Pos()),
					"planning reads the same Gateway.schema field", "the planner is given a schema other than Gateway.schema")
			}
		}
	}
	r.AtLeast("R3b", "schema consumers on the request path", k, 5)
}

// ruleEnumTables (R11f): a table (map or slice literal) of constants of one of gqlparser's
// closed enumerations that lists most of them lists all of them. An allow-list of directive
// locations that forgets one silently strips that location from every reconstructed directive.
func ruleEnumTables(r *Run) {
	const rule = "R11f"
	const astPath = "github.com/vektah/gqlparser/v2/ast"
	enums := map[*types.Named][]*types.Const{}
	var astPkg *types.Package
	for _, p := range r.P.Pkgs {
		if ip := p.Imports[astPath]; ip != nil && ip.Types != nil {
			astPkg = ip.Types
			break
		}
	}
	if astPkg == nil {
		r.Bad(rule, "", "gqlparser ast package", "-", "type information of "+astPath+" not found")
		return
	}
	sc := astPkg.Scope()
	for _, name := range sc.Names() {
		c, ok := sc.Lookup(name).(*types.Const)
		if !ok {
			continue
		}
		if nt, ok := c.Type().(*types.Named); ok && nt.Obj().Pkg() == astPkg {
			enums[nt] = append(enums[nt], c)
		}
	}
	nEnums, nTables := 0, 0
	for nt, cs := range enums {
		if len(cs) >= 3 {
			nEnums++
		}
		_ = nt
	}
	for _, p := range r.P.Pkgs {
		for _, f := range p.Syntax {
			ast.Inspect(f, func(nd ast.Node) bool {
				// `case A, B, C, …:` of a switch — an allow-list written as a switch clause
				if cc, isCase := nd.(*ast.CaseClause); isCase && len(cc.List) >= 3 {
					seenC := map[*types.Named]map[string]bool{}
					for _, ex := range cc.List {
						var obj types.Object
						switch x := ex.(type) {
						case *ast.SelectorExpr:
							obj = p.TypesInfo.Uses[x.Sel]
						case *ast.Ident:
							obj = p.TypesInfo.Uses[x]
						}
						if c, ok := obj.(*types.Const); ok {
							if nt, ok := c.Type().(*types.Named); ok && enums[nt] != nil {
								if seenC[nt] == nil {
									seenC[nt] = map[string]bool{}
								}
								seenC[nt][c.Name()] = true
							}
						}
					}
					for nt, have := range seenC {
						all := enums[nt]
						if len(all) < 12 || len(have)*4 < len(all)*3 {
							continue // one clause of a dispatch over a small enumeration, or a deliberate subset
						}
						nTables++
						var missing []string
						for _, c := range all {
							if !have[c.Name()] {
								missing = append(missing, c.Name())
							}
						}
						sort.Strings(missing)
						r.Check(len(missing) == 0, rule, "package "+shortPkg(p.PkgPath), "switch clause of "+nt.Obj().Name()+" constants", r.P.pos(cc.Pos()),
							fmt.Sprintf("lists all %d constants of the enumeration", len(all)),
							fmt.Sprintf("one switch clause lists %d of the %d %s constants of gqlparser but not %s: whatever the clause admits, the missing ones are silently dropped or refused", len(have), len(all), nt.Obj().Name(), strings.Join(missing, ", ")))
					}
					return true
				}
				cl, ok := nd.(*ast.CompositeLit)
				if !ok || len(cl.Elts) < 3 {
					return true
				}
				// constants of one enumeration among the elements / keys
				seen := map[*types.Named]map[string]bool{}
				for _, e := range cl.Elts {
					ex := e
					if kv, isKV := e.(*ast.KeyValueExpr); isKV {
						ex = kv.Key
					}
					var obj types.Object
					switch x := ex.(type) {
					case *ast.SelectorExpr:
						obj = p.TypesInfo.Uses[x.Sel]
					case *ast.Ident:
						obj = p.TypesInfo.Uses[x]
					}
					c, isConst := obj.(*types.Const)
					if !isConst {
						// a plain string literal that spells the value of an enumeration constant
						// ("FIELD_DEFINITION"): counted for every enumeration that has the value
						if tv, ok := p.TypesInfo.Types[ex]; ok && tv.Value != nil && tv.Value.Kind() == constant.String {
							val := constant.StringVal(tv.Value)
							for nt, cs := range enums {
								for _, ec := range cs {
									if ec.Val().Kind() == constant.String && constant.StringVal(ec.Val()) == val {
										if seen[nt] == nil {
											seen[nt] = map[string]bool{}
										}
										seen[nt][ec.Name()] = true
									}
								}
							}
						}
						continue
					}
					nt, isNamed := c.Type().(*types.Named)
					if !isNamed || enums[nt] == nil {
						continue
					}
					if seen[nt] == nil {
						seen[nt] = map[string]bool{}
					}
					seen[nt][c.Name()] = true
				}
				// a membership set (map[K]bool / map[K]struct{}) over a small enumeration is a
				// predicate with a deliberate subset ("kinds that have members"); a translation
				// table, a list, or a set over a large enumeration that stops one short is not
				isSet := false
				if tv, ok := p.TypesInfo.Types[cl]; ok && tv.Type != nil {
					if mt, ok := tv.Type.Underlying().(*types.Map); ok {
						switch et := mt.Elem().Underlying().(type) {
						case *types.Basic:
							isSet = et.Kind() == types.Bool
						case *types.Struct:
							isSet = et.NumFields() == 0
						}
					}
				}
				for nt, have := range seen {
					all := enums[nt]
					if len(all) < 3 || len(have)*4 < len(all)*3 {
						continue // a deliberate subset
					}
					if isSet && len(all) < 12 {
						continue
					}
					nTables++
					var missing []string
					for _, c := range all {
						if !have[c.Name()] {
							missing = append(missing, c.Name())
						}
					}
					sort.Strings(missing)
					fname := "package " + shortPkg(p.PkgPath)
					r.Check(len(missing) == 0, rule, fname, "table of "+nt.Obj().Name()+" constants", r.P.pos(cl.Pos()),
						fmt.Sprintf("lists all %d constants of the enumeration", len(all)),
						fmt.Sprintf("a table lists %d of the %d %s constants of gqlparser but not %s: whatever the table admits, the missing ones are silently dropped or refused", len(have), len(all), nt.Obj().Name(), strings.Join(missing, ", ")))
				}
				return true
			})
		}
	}
	if nTables == 0 {
		r.OK(rule, "", "no near-complete enumeration tables", "-", fmt.Sprintf("no composite literal in the module lists three quarters or more of a gqlparser enumeration (%d enumerations known): nothing to compare", nEnums))
	}
	r.AtLeast(rule, "gqlparser enumerations known", nEnums, 3)
}
