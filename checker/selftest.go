package main

// Thorough tier: the property's seeded variants are replayed against scratch copies of the
// current tree (one fresh pebcheck process per variant). The outcome judges the checker, not
// pebbles: it is recorded in the evidence and never turns into a VIOLATION line.

import (
	"encoding/json"
	"fmt"
	"os"
	"os/exec"
	"path/filepath"
	"sort"
	"strings"
)

type variantMeta struct {
	Name       string   `json:"name"`
	Kind       string   `json:"kind"`
	Properties []string `json:"properties"`
	Property   string   `json:"property"` // seeded mutants
	// Residual: properties whose check is known to raise a false alarm on this benign
	// variant (documented in DESIGN.md §12); reported separately, never counted as silent.
	Residual []string `json:"residual"`
	// KnownMiss: a breaking variant no check is known to catch (documented limit of a rule)
	KnownMiss string `json:"known_miss"`
}

type selftestResult struct {
	Applied          int      `json:"applied"`
	FiredAsExpected  int      `json:"fired_as_expected"`
	SilentAsExpected int      `json:"silent_as_expected"`
	Skipped          int      `json:"skipped_patch_does_not_apply"`
	ResidualAlarms   []string `json:"documented_residual_false_alarms"`
	DocumentedMisses []string `json:"documented_misses"`
	Unexpected       []string `json:"unexpected"`
	Variants         []string `json:"variants"`
}

func runSelftest(r *Run) *selftestResult {
	res := &selftestResult{}
	type job struct {
		name, patch, kind string
		residual          bool
	}
	var jobs []job
	metas, _ := filepath.Glob(filepath.Join(r.Verif, "selftest", "variants", "*.json"))
	for _, m := range metas {
		b, err := os.ReadFile(m)
		if err != nil {
			continue
		}
		var vm variantMeta
		if json.Unmarshal(b, &vm) != nil {
			continue
		}
		for _, p := range vm.Properties {
			if p == r.Property {
				res := false
				for _, q := range vm.Residual {
					if q == p {
						res = true
					}
				}
				if vm.Kind == "breaking" && vm.KnownMiss != "" {
					res = true
				}
				jobs = append(jobs, job{vm.Name, strings.TrimSuffix(m, ".json") + ".patch", vm.Kind, res})
			}
		}
	}
	seeds, _ := filepath.Glob(filepath.Join(r.Verif, "seeded", r.Property+"-*", "patch.diff"))
	for _, s := range seeds {
		// a seeded change the property's own check is known not to catch (DESIGN §11) carries
		// "known_miss" in its meta.json: reported as such, still replayed on every run
		miss := false
		if b, err := os.ReadFile(filepath.Join(filepath.Dir(s), "meta.json")); err == nil {
			var m struct {
				KnownMiss string `json:"known_miss"`
			}
			miss = json.Unmarshal(b, &m) == nil && m.KnownMiss != ""
		}
		jobs = append(jobs, job{"seeded/" + filepath.Base(filepath.Dir(s)), s, "breaking", miss})
	}
	sort.Slice(jobs, func(i, j int) bool { return jobs[i].name < jobs[j].name })
	self, err := os.Executable()
	if err != nil {
		return res
	}
	for _, j := range jobs {
		tmp, err := os.MkdirTemp("", "pebself")
		if err != nil {
			continue
		}
		func() {
			defer os.RemoveAll(tmp)
			repo := filepath.Join(tmp, "repo")
			verif := filepath.Join(tmp, "verif")
			os.MkdirAll(verif, 0o755)
			if out, err := exec.Command("rsync", "-a", "--exclude", ".git", r.P.Repo+"/", repo+"/").CombinedOutput(); err != nil {
				res.Unexpected = append(res.Unexpected, j.name+": copy failed: "+string(out))
				return
			}
			if b, err := os.ReadFile(filepath.Join(r.Verif, "KNOWN_FINDINGS.txt")); err == nil {
				os.WriteFile(filepath.Join(verif, "KNOWN_FINDINGS.txt"), b, 0o644)
			}
			pf, err := os.Open(j.patch)
			if err != nil {
				return
			}
			defer pf.Close()
			pc := exec.Command("patch", "-p1", "-s", "--no-backup-if-mismatch")
			pc.Dir = repo
			pc.Stdin = pf
			if err := pc.Run(); err != nil {
				res.Skipped++
				return
			}
			res.Applied++
			cmd := exec.Command(self, "check", "--property", r.Property, "--tier", "quick", "--repo", repo, "--verif", verif)
			cmd.Env = append(os.Environ(), "PEB_NO_SELFTEST=1")
			out, _ := cmd.CombinedOutput()
			code := cmd.ProcessState.ExitCode()
			fired := code == 1 && strings.Contains(string(out), "VIOLATION property="+r.Property)
			switch {
			case j.kind == "breaking" && fired:
				res.FiredAsExpected++
			case j.kind == "benign" && code == 0:
				res.SilentAsExpected++
			case j.kind == "breaking" && j.residual:
				res.DocumentedMisses = append(res.DocumentedMisses, fmt.Sprintf("%s: exit=%d", j.name, code))
			case j.kind == "benign" && j.residual:
				res.ResidualAlarms = append(res.ResidualAlarms, fmt.Sprintf("%s: exit=%d", j.name, code))
			default:
				res.Unexpected = append(res.Unexpected, fmt.Sprintf("%s [%s]: exit=%d", j.name, j.kind, code))
			}
			res.Variants = append(res.Variants, fmt.Sprintf("%s [%s] exit=%d", j.name, j.kind, code))
		}()
	}
	return res
}
