package main

import (
	"go/constant"
	"go/token"
	"regexp"
	"strings"

	"golang.org/x/tools/go/ssa"
)

// ruleStitchVariableReserved (R13g.reserved): the variable through which the executor hands the
// id of the object to a follow-up request (`query ($id: ID!) { node(id: $id) {…} }`) lives in
// the same name space as the client's variables: the follow-up query declares the client's
// variables next to it and getVariables copies the client's values into the same map. Unless
// its name cannot be a client variable's name (it is not a GraphQL Name) or a client variable of
// that name is refused before planning, a client operation that declares `$id` itself is
// re-declared with the wrong type and its value is overwritten by the object id.
func ruleStitchVariableReserved(r *Run) {
	const rule = "R13g.reserved"
	fn := r.Anchor(rule, "executor.(*DepthExecutor).getVariables")
	if fn == nil {
		return
	}
	nameRe := regexp.MustCompile(`^[_A-Za-z][_0-9A-Za-z]*$`)
	n := 0
	for _, ins := range allInstrs(fn) {
		mu, ok := ins.(*ssa.MapUpdate)
		if !ok {
			continue
		}
		k, ok := mu.Key.(*ssa.Const)
		if !ok || k.Value == nil || k.Value.Kind() != constant.String {
			continue
		}
		name := constant.StringVal(k.Value)
		n++
		// a guard somewhere on the request path: the name of a declared variable compared with the constant
		guarded := false
		if h := r.P.Fn("pebbles.(*Gateway).Handler"); h != nil {
			for g := range r.P.CG.ReachableAll([]*ssa.Function{h}) {
				for _, i2 := range allInstrs(g) {
					bo, ok := i2.(*ssa.BinOp)
					if !ok || (bo.Op != token.EQL && bo.Op != token.NEQ) {
						continue
					}
					for _, p := range [][2]ssa.Value{{bo.X, bo.Y}, {bo.Y, bo.X}} {
						c, isC := p[1].(*ssa.Const)
						if !isC || c.Value == nil || c.Value.Kind() != constant.String || constant.StringVal(c.Value) != name {
							continue
						}
						if ld, ok := p[0].(*ssa.UnOp); ok && ld.Op == token.MUL {
							if fa, ok := ld.X.(*ssa.FieldAddr); ok && fieldOf(fa) != nil && fieldOf(fa).Name() == "Variable" && strings.HasSuffix(namedOf(fa.X.Type()), "ast.VariableDefinition") {
								guarded = true
							}
						}
					}
				}
			}
		}
		r.Check(!nameRe.MatchString(name) || guarded, rule, fnName(fn), "stitching variable `"+name+"` cannot collide with a client variable", r.P.pos(mu.Pos()),
			"the name is not a legal GraphQL variable name, or a client variable of that name is refused before planning",
			"the executor stores the object id under the variable name `"+name+"`, which a client operation may declare itself: `query($"+name+": Int) { … books(first: $"+name+") }` — the follow-up request then declares $"+name+" once, with the stitching type, and the client's value is overwritten by the object id")
	}
	r.AtLeast(rule, "stitching variables set by the executor", n, 1)
}

// ruleIDExemptionBySignature (R13o.id): the overlap analysis of shared types sets the relay id
// aside — `id: ID!` without arguments, recognised by merger.isIDField. A field that is merely
// CALLED id (`id: String!`, `id: [ID!]`) is an ordinary field whose declarations have to agree.
// In the functions that take part in merging the fields of a shared type, a field is therefore
// never singled out by comparing its name with the id constant outside that predicate.
func ruleIDExemptionBySignature(r *Run) {
	const rule = "R13o.id"
	root := r.Anchor(rule, "merger.mergeCustomObjectFields")
	pred := r.P.Fn("merger.isIDField")
	if root == nil {
		return
	}
	n := 0
	for g := range r.P.CG.Reachable([]*ssa.Function{root}, nil) {
		if topFn(g).Pkg != topFn(root).Pkg || g == pred {
			continue
		}
		for _, ins := range allInstrs(g) {
			switch x := ins.(type) {
			case *ssa.Call:
				if x.Call.StaticCallee() == pred && pred != nil {
					n++
				}
			case *ssa.BinOp:
				if x.Op != token.EQL && x.Op != token.NEQ {
					continue
				}
				for _, p := range [][2]ssa.Value{{x.X, x.Y}, {x.Y, x.X}} {
					c, isC := p[1].(*ssa.Const)
					if !isC || c.Value == nil || c.Value.Kind() != constant.String || constant.StringVal(c.Value) != "id" {
						continue
					}
					ld, ok := p[0].(*ssa.UnOp)
					if !ok || ld.Op != token.MUL {
						continue
					}
					fa, ok := ld.X.(*ssa.FieldAddr)
					if !ok || fieldOf(fa) == nil || fieldOf(fa).Name() != "Name" || !strings.HasSuffix(namedOf(fa.X.Type()), "ast.FieldDefinition") {
						continue
					}
					n++
					r.Bad(rule, fnName(g), "field singled out by the name id", r.P.pos(x.Pos()),
						"the merge of a shared type sets a field aside because it is CALLED id, not because it is the relay id (`id: ID!`, no arguments — merger.isIDField): `id: String!` in one service and `id: Int!` in another, or an `id: [ID!]` that only one side declares, no longer count as an overlap and are merged silently, the first listed service winning")
				}
			}
		}
	}
	r.AtLeast(rule, "id exemptions in the merge of shared types", n, 1)
}
