package main

import (
	"go/constant"
	"go/token"
	"go/types"
	"regexp"
	"strconv"
	"strings"

	"golang.org/x/tools/go/ssa"
)

// ruleStitchVariableReserved (R13g.reserved): the variable through which the executor hands the
// id of the object to a follow-up request (`query ($id: ID!) { node(id: $id) {…} }`) lives in
// the same name space as the client's variables: the follow-up query declares the client's
// variables next to it and getVariables copies the client's values into the same map. Unless
// its name cannot be a client variable's name (it is not a GraphQL Name) or a client variable of
// that name is refused before planning, a client operation that declares `$id` itself is
// re-declared with the wrong type and its value is overwritten by the object id.
func ruleStitchVariableReserved(r *Run) {
	const rule = "R13g.reserved"
	fn := r.Anchor(rule, "executor.(*DepthExecutor).getVariables")
	if fn == nil {
		return
	}
	nameRe := regexp.MustCompile(`^[_A-Za-z][_0-9A-Za-z]*$`)
	n := 0
	for _, ins := range allInstrs(fn) {
		mu, ok := ins.(*ssa.MapUpdate)
		if !ok {
			continue
		}
		k, ok := mu.Key.(*ssa.Const)
		if !ok || k.Value == nil || k.Value.Kind() != constant.String {
			continue
		}
		name := constant.StringVal(k.Value)
		n++
		// a guard somewhere on the request path: the name of a declared variable compared with the constant
		guarded := false
		if h := r.P.Fn("pebbles.(*Gateway).Handler"); h != nil {
			for g := range r.P.CG.ReachableAll([]*ssa.Function{h}) {
				for _, i2 := range allInstrs(g) {
					bo, ok := i2.(*ssa.BinOp)
					if !ok || (bo.Op != token.EQL && bo.Op != token.NEQ) {
						continue
					}
					for _, p := range [][2]ssa.Value{{bo.X, bo.Y}, {bo.Y, bo.X}} {
						c, isC := p[1].(*ssa.Const)
						if !isC || c.Value == nil || c.Value.Kind() != constant.String || constant.StringVal(c.Value) != name {
							continue
						}
						if ld, ok := p[0].(*ssa.UnOp); ok && ld.Op == token.MUL {
							if fa, ok := ld.X.(*ssa.FieldAddr); ok && fieldOf(fa) != nil && fieldOf(fa).Name() == "Variable" && strings.HasSuffix(namedOf(fa.X.Type()), "ast.VariableDefinition") {
								guarded = true
							}
						}
					}
				}
			}
		}
		r.Check(!nameRe.MatchString(name) || guarded, rule, fnName(fn), "stitching variable `"+name+"` cannot collide with a client variable", r.P.pos(mu.Pos()),
			"the name is not a legal GraphQL variable name, or a client variable of that name is refused before planning",
			"the executor stores the object id under the variable name `"+name+"`, which a client operation may declare itself: `query($"+name+": Int) { … books(first: $"+name+") }` — the follow-up request then declares $"+name+" once, with the stitching type, and the client's value is overwritten by the object id")
	}
	r.AtLeast(rule, "stitching variables set by the executor", n, 1)
}

// ruleIDExemptionBySignature (R13o.id): the overlap analysis of shared types sets the relay id
// aside — `id: ID!` without arguments, recognised by merger.isIDField. A field that is merely
// CALLED id (`id: String!`, `id: [ID!]`) is an ordinary field whose declarations have to agree.
// In the functions that take part in merging the fields of a shared type, a field is therefore
// never singled out by comparing its name with the id constant outside that predicate.
func ruleIDExemptionBySignature(r *Run) {
	const rule = "R13o.id"
	root := r.Anchor(rule, "merger.mergeCustomObjectFields")
	pred := r.P.Fn("merger.isIDField")
	if root == nil {
		return
	}
	n := 0
	for g := range r.P.CG.Reachable([]*ssa.Function{root}, nil) {
		if topFn(g).Pkg != topFn(root).Pkg || g == pred {
			continue
		}
		for _, ins := range allInstrs(g) {
			switch x := ins.(type) {
			case *ssa.Call:
				if x.Call.StaticCallee() == pred && pred != nil {
					n++
				}
			case *ssa.BinOp:
				if x.Op != token.EQL && x.Op != token.NEQ {
					continue
				}
				for _, p := range [][2]ssa.Value{{x.X, x.Y}, {x.Y, x.X}} {
					c, isC := p[1].(*ssa.Const)
					if !isC || c.Value == nil || c.Value.Kind() != constant.String || constant.StringVal(c.Value) != "id" {
						continue
					}
					ld, ok := p[0].(*ssa.UnOp)
					if !ok || ld.Op != token.MUL {
						continue
					}
					fa, ok := ld.X.(*ssa.FieldAddr)
					if !ok || fieldOf(fa) == nil || fieldOf(fa).Name() != "Name" || !strings.HasSuffix(namedOf(fa.X.Type()), "ast.FieldDefinition") {
						continue
					}
					n++
					r.Bad(rule, fnName(g), "field singled out by the name id", r.P.pos(x.Pos()),
						"the merge of a shared type sets a field aside because it is CALLED id, not because it is the relay id (`id: ID!`, no arguments — merger.isIDField): `id: String!` in one service and `id: Int!` in another, or an `id: [ID!]` that only one side declares, no longer count as an overlap and are merged silently, the first listed service winning")
				}
			}
		}
	}
	r.AtLeast(rule, "id exemptions in the merge of shared types", n, 1)
}

// ruleNoClientWriteDeadline (R8f.deadline): the gateway waits for a slow subscriber; it does
// not put a time limit on writes to the client connection. A deadline on a net.Conn belongs to
// the connection, not to the goroutine that set it: one set for a keep-alive also cuts an event
// write that another goroutine has in progress, leaving half a frame on the wire and ending the
// subscription without the event. The rule is over the handler package (where the client
// connection lives): no call of SetWriteDeadline / SetDeadline with anything but the zero time.
func ruleNoClientWriteDeadline(r *Run) {
	const rule = "R8f.deadline"
	scanned := 0
	for _, fn := range r.P.Funcs {
		if top := topFn(fn); top.Pkg == nil || top.Pkg.Pkg.Path() != modPath {
			continue
		}
		scanned++
		n := 0
		for _, ins := range allInstrs(fn) {
			ci, ok := ins.(ssa.CallInstruction)
			if !ok {
				continue
			}
			c := ci.Common()
			var mname string
			if c.IsInvoke() {
				mname = c.Method.Name()
			} else if sc := c.StaticCallee(); sc != nil && sc.Signature.Recv() != nil {
				mname = sc.Name()
			}
			if mname != "SetWriteDeadline" && mname != "SetDeadline" {
				continue
			}
			if len(c.Args) == 0 {
				continue
			}
			t := unwrap(c.Args[len(c.Args)-1])
			if namedOf(t.Type()) != "time.Time" {
				continue
			}
			n++
			key := "write deadline"
			if n > 1 {
				key += "#" + strconv.Itoa(n)
			}
			if k, isC := t.(*ssa.Const); isC && k.Value == nil {
				r.OK(rule, fnName(fn), key, r.P.pos(ins.Pos()), "the zero time: lifts a deadline, sets none")
				continue
			}
			r.Bad(rule, fnName(fn), key, r.P.pos(ins.Pos()),
				"a write deadline is put on a connection in the handler package: it applies to every write on that connection, those of other goroutines already in progress included; an event being written to a slow subscriber is cut short (half a frame on the wire) and the subscription ends without it")
		}
	}
	r.OKTrivial(rule, "", "functions scanned", "-", strconv.Itoa(scanned)+" functions of the handler package scanned for SetWriteDeadline/SetDeadline")
}

// ruleCloseReason (R8g.reason): the reason text of a close frame is cropped by the library
// (ws.NewCloseFrameBody) to the 123 bytes a control frame has room for, at a byte boundary. A
// reason that may be longer than that and may hold multi-byte characters — the text of an
// error, anything echoed from the client's message — is cut in the middle of a character, and
// the frame the client receives is not a well-formed close frame (RFC 6455 5.5.1: the reason
// is UTF-8). The reason must be text whose origin the rule can bound: ASCII text (constants,
// numbers, their concatenations: any crop of it is valid), a short constant, or the result of
// a module function that works on it with unicode/utf8.
func ruleCloseReason(r *Run) {
	const rule = "R8g.reason"
	n := 0
	for _, fn := range r.P.Funcs {
		for _, ins := range allInstrs(fn) {
			ci, ok := ins.(ssa.CallInstruction)
			if !ok {
				continue
			}
			sc := ci.Common().StaticCallee()
			if sc == nil || sc.Pkg == nil || sc.Pkg.Pkg.Path() != "github.com/gobwas/ws" || !strings.Contains(sc.Name(), "CloseFrameBody") {
				continue
			}
			for _, a := range ci.Common().Args {
				bt, isB := a.Type().Underlying().(*types.Basic)
				if !isB || bt.Info()&types.IsString == 0 {
					continue
				}
				n++
				key := "close reason"
				if n > 1 {
					key += "#" + strconv.Itoa(n)
				}
				why, safe := safeReason(r, a, map[ssa.Value]bool{}, 0)
				r.Check(safe, rule, fnName(fn), key, r.P.pos(ins.Pos()),
					"the reason is "+why,
					"the reason of the close frame is "+why+": the library crops a reason to 123 bytes at a byte boundary, so a long text with a multi-byte character at the cut reaches the client as a close frame whose body is not valid UTF-8 — a malformed frame")
			}
		}
	}
	r.AtLeast(rule, "close frame bodies built", n, 1)
}

func safeReason(r *Run, v ssa.Value, seen map[ssa.Value]bool, depth int) (string, bool) {
	v = unwrap(v)
	if seen[v] {
		return "text whose every crop is valid", true
	}
	seen[v] = true
	if depth > 8 {
		return "text the rule cannot trace to its origin", false
	}
	switch x := v.(type) {
	case *ssa.Const:
		if x.Value == nil || x.Value.Kind() != constant.String {
			return "a constant", true
		}
		s := constant.StringVal(x.Value)
		ascii := true
		for i := 0; i < len(s); i++ {
			if s[i] >= 0x80 {
				ascii = false
			}
		}
		if ascii || len(s) <= 123 {
			return "a constant that is ASCII or fits the frame", true
		}
		return "a constant longer than the frame has room for, with multi-byte characters", false
	case *ssa.Phi:
		for _, e := range x.Edges {
			if why, ok := safeReason(r, e, seen, depth+1); !ok {
				return why, false
			}
		}
		return "one of several safe texts", true
	case *ssa.BinOp:
		if x.Op == token.ADD {
			for _, e := range []ssa.Value{x.X, x.Y} {
				if why, ok := safeReason(r, e, seen, depth+1); !ok {
					return why, false
				}
			}
			// a concatenation of ASCII texts is ASCII; short non-ASCII constants may add up
			for _, e := range []ssa.Value{x.X, x.Y} {
				if k, ok := unwrap(e).(*ssa.Const); ok && k.Value != nil && k.Value.Kind() == constant.String {
					for _, c := range []byte(constant.StringVal(k.Value)) {
						if c >= 0x80 {
							return "a concatenation with multi-byte text, of a length the rule cannot bound", false
						}
					}
				}
			}
			return "a concatenation of ASCII texts", true
		}
	case *ssa.Call:
		name := calleeName(&x.Call)
		switch {
		case strings.HasPrefix(name, "strconv.Itoa"), strings.HasPrefix(name, "strconv.FormatInt"), strings.HasPrefix(name, "strconv.FormatUint"), strings.HasPrefix(name, "strconv.Quote"+"ToASCII"):
			return "a number", true
		}
		if sc := x.Call.StaticCallee(); sc != nil && inModule(sc) && sc.Blocks != nil {
			for _, i := range allInstrs(sc) {
				if ci, ok := i.(ssa.CallInstruction); ok && strings.HasPrefix(calleeName(ci.Common()), "unicode/utf8.") {
					return "cut by " + fnName(sc) + ", which works on it with unicode/utf8 (assumed to cut at a character boundary within the frame's room)", true
				}
			}
			all := true
			var why string
			for _, ret := range returnsOf(sc) {
				for _, rv := range retVals(ret) {
					bt, isB := rv.Type().Underlying().(*types.Basic)
					if !isB || bt.Info()&types.IsString == 0 {
						continue
					}
					if w, ok := safeReason(r, rv, seen, depth+1); !ok {
						all, why = false, w
					}
				}
			}
			if all {
				return "the result of " + fnName(sc) + ", every return of which is safe text", true
			}
			return why, false
		}
		if x.Call.IsInvoke() && x.Call.Method.Name() == "Error" {
			return "the text of an error (it may quote anything, the client's own message included)", false
		}
		return "the result of " + name + ", of a length and content the rule cannot bound", false
	case *ssa.UnOp:
		if x.Op == token.MUL {
			if fa, ok := x.X.(*ssa.FieldAddr); ok {
				f := fieldOf(fa)
				// every value the module stores in this field
				stores := 0
				for _, g := range r.P.Funcs {
					for _, i := range allInstrs(g) {
						st, ok := i.(*ssa.Store)
						if !ok {
							continue
						}
						fa2, ok := st.Addr.(*ssa.FieldAddr)
						if !ok || fieldOf(fa2) != f {
							continue
						}
						stores++
						if why, ok := safeReason(r, st.Val, seen, depth+1); !ok {
							return why, false
						}
					}
				}
				if stores > 0 {
					return "a field that is only given safe texts", true
				}
				return "a field filled in outside the rule's sight (a decoded message, a literal)", false
			}
		}
	case *ssa.Parameter:
		fn := x.Parent()
		idx := -1
		for i, p := range fn.Params {
			if p == x {
				idx = i
			}
		}
		callers := 0
		for _, e := range r.P.CG.In[fn] {
			if e.Kind != "static" || e.Site == nil || idx >= len(e.Site.Common().Args) {
				return "a parameter with callers the rule cannot enumerate", false
			}
			callers++
			if why, ok := safeReason(r, e.Site.Common().Args[idx], seen, depth+1); !ok {
				return why, false
			}
		}
		if callers > 0 {
			return "a parameter that every caller gives safe text", true
		}
		return "a parameter of a function without callers in sight", false
	}
	return "text of an origin the rule cannot bound (" + v.String() + ")", false
}
