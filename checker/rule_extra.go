package main

import (
	"go/constant"
	"go/token"
	"go/types"
	"reflect"
	"regexp"
	"sort"
	"strconv"
	"strings"

	"golang.org/x/tools/go/ssa"
)

// ruleStitchVariableReserved (R13g.reserved): the variable through which the executor hands the
// id of the object to a follow-up request (`query ($id: ID!) { node(id: $id) {…} }`) lives in
// the same name space as the client's variables: the follow-up query declares the client's
// variables next to it and getVariables copies the client's values into the same map. Unless
// its name cannot be a client variable's name (it is not a GraphQL Name) or a client variable of
// that name is refused before planning, a client operation that declares `$id` itself is
// re-declared with the wrong type and its value is overwritten by the object id.
func ruleStitchVariableReserved(r *Run) {
	const rule = "R13g.reserved"
	fn := r.Anchor(rule, "executor.(*DepthExecutor).getVariables")
	if fn == nil {
		return
	}
	nameRe := regexp.MustCompile(`^[_A-Za-z][_0-9A-Za-z]*$`)
	n := 0
	for _, ins := range allInstrs(fn) {
		mu, ok := ins.(*ssa.MapUpdate)
		if !ok {
			continue
		}
		k, ok := mu.Key.(*ssa.Const)
		if !ok || k.Value == nil || k.Value.Kind() != constant.String {
			continue
		}
		name := constant.StringVal(k.Value)
		n++
		// a guard on the request path: the name of a declared variable is compared with the
		// constant, the comparison itself is the condition of a branch, and on the side where
		// the names are equal the request is refused whatever else holds: no path from there
		// reaches a call that leads to the execution (or, in a function that reports through
		// an error, every path from there returns one). A test that refuses only some of the
		// operations that declare the name (`… && vd.Type.Name() != "ID"`) guards nothing: the
		// others still have their value overwritten.
		guarded := false
		var partial []string
		if h := r.P.Fn("pebbles.(*Gateway).Handler"); h != nil {
			// the functions from which the executor's use of the variable is reached
			leadsToExec := map[*ssa.Function]bool{fn: true}
			work := []*ssa.Function{fn}
			for len(work) > 0 {
				f := work[len(work)-1]
				work = work[:len(work)-1]
				for _, e := range r.P.CG.In[f] {
					if !leadsToExec[e.Caller] {
						leadsToExec[e.Caller] = true
						work = append(work, e.Caller)
					}
				}
				if p := f.Parent(); p != nil && !leadsToExec[p] {
					leadsToExec[p] = true
					work = append(work, p)
				}
			}
			for g := range r.P.CG.ReachableAll([]*ssa.Function{h}) {
				exec := map[*ssa.BasicBlock]bool{}
				for _, e := range r.P.CG.Out[g] {
					if e.Site != nil && leadsToExec[e.Callee] {
						exec[e.Site.Block()] = true
					}
				}
				for _, i2 := range allInstrs(g) {
					if mc, ok := i2.(*ssa.MakeClosure); ok {
						if f, _ := mc.Fn.(*ssa.Function); f != nil && leadsToExec[f] {
							exec[mc.Block()] = true
						}
					}
				}
				for _, i2 := range allInstrs(g) {
					bo, ok := i2.(*ssa.BinOp)
					if !ok || (bo.Op != token.EQL && bo.Op != token.NEQ) {
						continue
					}
					isTest := false
					for _, p := range [][2]ssa.Value{{bo.X, bo.Y}, {bo.Y, bo.X}} {
						c, isC := p[1].(*ssa.Const)
						if !isC || c.Value == nil || c.Value.Kind() != constant.String || constant.StringVal(c.Value) != name {
							continue
						}
						if ld, ok := p[0].(*ssa.UnOp); ok && ld.Op == token.MUL {
							if fa, ok := ld.X.(*ssa.FieldAddr); ok && fieldOf(fa) != nil && fieldOf(fa).Name() == "Variable" && strings.HasSuffix(namedOf(fa.X.Type()), "ast.VariableDefinition") {
								isTest = true
							}
						}
					}
					if !isTest || bo.Referrers() == nil {
						continue
					}
					// the side of the branch on which the names are equal
					var v ssa.Value = bo
					eq := bo.Op == token.EQL
					var iff *ssa.If
					for depth := 0; depth < 3 && iff == nil; depth++ {
						refs := v.Referrers()
						if refs == nil || len(*refs) != 1 {
							break
						}
						switch x := (*refs)[0].(type) {
						case *ssa.If:
							iff = x
						case *ssa.UnOp:
							if x.Op != token.NOT {
								depth = 3
								break
							}
							v, eq = x, !eq
						default:
							depth = 3
						}
					}
					if iff == nil {
						continue // the comparison feeds something else than a branch of its own
					}
					side := iff.Block().Succs[0]
					if !eq {
						side = iff.Block().Succs[1]
					}
					refusesAll := false
					if len(exec) > 0 {
						refusesAll = !blockReachIncl(side, exec)
					} else {
						refusesAll = refuses(side, nil)
					}
					if refusesAll {
						guarded = true
					} else {
						partial = append(partial, r.P.pos(bo.Pos())+" in "+fnName(g))
					}
				}
			}
		}
		sort.Strings(partial)
		for i, at := range partial {
			if guarded {
				break
			}
			key := "client variable `" + name + "` refused only under a further condition"
			if i > 0 {
				key += "#" + strconv.Itoa(i+1)
			}
			r.Bad(rule, fnName(fn), key, at,
				"a declared variable's name is compared with the stitching variable `"+name+"` on the request path ("+at+"), but on the side where the names are equal the request can still go on to the execution: the operations that get past the further condition (`query($"+name+": ID!) { … }`) declare $"+name+" themselves and still have their value overwritten by the object id, while the test looks like the guard that would rule this out")
		}
		r.Check(!nameRe.MatchString(name) || guarded, rule, fnName(fn), "stitching variable `"+name+"` cannot collide with a client variable", r.P.pos(mu.Pos()),
			"the name is not a legal GraphQL variable name, or a client variable of that name is refused before planning",
			"the executor stores the object id under the variable name `"+name+"`, which a client operation may declare itself: `query($"+name+": Int) { … books(first: $"+name+") }` — the follow-up request then declares $"+name+" once, with the stitching type, and the client's value is overwritten by the object id")
	}
	r.AtLeast(rule, "stitching variables set by the executor", n, 1)
}

// ruleNoClientWriteDeadline (R8f.deadline): the gateway waits for a slow subscriber; it does
// not put a time limit on writes to the client connection. A deadline on a net.Conn belongs to
// the connection, not to the goroutine that set it: one set for a keep-alive also cuts an event
// write that another goroutine has in progress, leaving half a frame on the wire and ending the
// subscription without the event. The rule is over every function of the module, whatever its
// package: a call of SetWriteDeadline / SetDeadline on a connection that is, or may be, the
// client's (anything but a connection the module dialled itself), with a time that is not
// shown to be the zero time — for a helper that is handed the connection and the time
// (`common.LimitWrite(conn, until)`), by looking at what its callers hand it.
func ruleNoClientWriteDeadline(r *Run) {
	const rule = "R8f.deadline"
	scanned := 0
	for _, fn := range r.P.Funcs {
		if !inModule(topFn(fn)) {
			continue
		}
		scanned++
		n := 0
		for _, ins := range allInstrs(fn) {
			ci, ok := ins.(ssa.CallInstruction)
			if !ok {
				continue
			}
			c := ci.Common()
			var mname string
			var recv ssa.Value
			if c.IsInvoke() {
				mname, recv = c.Method.Name(), c.Value
			} else if sc := c.StaticCallee(); sc != nil && sc.Signature.Recv() != nil && len(c.Args) > 0 {
				mname, recv = sc.Name(), c.Args[0]
			}
			if mname != "SetWriteDeadline" && mname != "SetDeadline" {
				continue
			}
			if len(c.Args) == 0 {
				continue
			}
			t := unwrap(c.Args[len(c.Args)-1])
			if namedOf(t.Type()) != "time.Time" {
				continue
			}
			// whose connection: one the module dialled itself (an upstream service) is not the
			// client's; anything else — the upgraded connection, a connection of unknown origin — counts
			origins := map[string]bool{}
			r.connOrigins(recv, origins, map[ssa.Value]bool{}, 0)
			if len(origins) == 1 && origins["dialled"] {
				continue
			}
			n++
			key := "write deadline"
			if n > 1 {
				key += "#" + strconv.Itoa(n)
			}
			if r.zeroTime(t, map[ssa.Value]bool{}, 0) {
				r.OK(rule, fnName(fn), key, r.P.pos(ins.Pos()), "the zero time (here, or in every call of this helper): lifts a deadline, sets none")
				continue
			}
			r.Bad(rule, fnName(fn), key, r.P.pos(ins.Pos()),
				"a write deadline is put on the client connection (or on a connection the rule cannot tell from it): it applies to every write on that connection, those of other goroutines already in progress included; an event being written to a slow subscriber is cut short (half a frame on the wire) and the subscription ends without it")
		}
	}
	r.OKTrivial(rule, "", "functions scanned", "-", strconv.Itoa(scanned)+" functions of the module scanned for SetWriteDeadline/SetDeadline on a connection that is not one the module dialled")
}

// connOrigins: where the connection v comes from — "dialled" (the result of a Dial: an upstream
// connection), "upgraded" (the result of an Upgrade: the client's) or "unknown". Parameters
// are followed to the arguments of the callers, captured variables and fields to what is
// stored in them.
func (r *Run) connOrigins(v ssa.Value, out map[string]bool, seen map[ssa.Value]bool, depth int) {
	if v == nil || depth > 8 {
		out["unknown"] = true
		return
	}
	v = unwrap(v)
	if seen[v] {
		return
	}
	seen[v] = true
	switch x := v.(type) {
	case *ssa.Extract:
		r.connOrigins(x.Tuple, out, seen, depth+1)
		return
	case *ssa.Call:
		name := calleeName(&x.Call)
		base := name
		if i := strings.LastIndex(base, "."); i >= 0 {
			base = base[i+1:]
		}
		sc := x.Call.StaticCallee()
		switch {
		case sc != nil && inModule(sc) && sc.Blocks != nil:
			for _, ret := range returnsOf(sc) {
				for _, rv := range retVals(ret) {
					if implementsConn(rv.Type()) {
						r.connOrigins(rv, out, seen, depth+1)
					}
				}
			}
		case strings.HasPrefix(base, "Dial"):
			out["dialled"] = true
		case strings.HasPrefix(base, "Upgrade"), strings.HasPrefix(base, "Accept"), strings.HasPrefix(base, "Hijack"):
			out["upgraded"] = true
		default:
			out["unknown"] = true
		}
		return
	case *ssa.Phi:
		for _, e := range x.Edges {
			r.connOrigins(e, out, seen, depth+1)
		}
		return
	case *ssa.Parameter:
		sites := r.callSitesOf(x.Parent())
		idx := paramIndex(x)
		if len(sites) == 0 {
			out["unknown"] = true
		}
		for _, site := range sites {
			if site == nil || idx < 0 || idx >= len(site.Common().Args) {
				out["unknown"] = true
				continue
			}
			r.connOrigins(site.Common().Args[idx], out, seen, depth+1)
		}
		return
	case *ssa.UnOp:
		if x.Op == token.MUL {
			if owner := cellOwner(x.X); owner != nil {
				sts := storesTo(owner)
				if len(sts) == 0 {
					out["unknown"] = true
				}
				for _, st := range sts {
					r.connOrigins(st.Val, out, seen, depth+1)
				}
				return
			}
			if fa, ok := x.X.(*ssa.FieldAddr); ok {
				f := fieldOf(fa)
				stores := 0
				for _, g := range r.P.Funcs {
					for _, i := range allInstrs(g) {
						if st, ok := i.(*ssa.Store); ok {
							if fa2, ok := st.Addr.(*ssa.FieldAddr); ok && f != nil && fieldOf(fa2) == f {
								stores++
								r.connOrigins(st.Val, out, seen, depth+1)
							}
						}
					}
				}
				if stores == 0 {
					out["unknown"] = true
				}
				return
			}
		}
	}
	out["unknown"] = true
}

// implementsConn: the type has the deadline methods of a connection.
func implementsConn(t types.Type) bool {
	ms := types.NewMethodSet(t)
	for i := 0; i < ms.Len(); i++ {
		if ms.At(i).Obj().Name() == "SetWriteDeadline" {
			return true
		}
	}
	return false
}

// zeroTime: the time value is the zero time: the constant, or a parameter that every caller
// gives the zero time.
func (r *Run) zeroTime(v ssa.Value, seen map[ssa.Value]bool, depth int) bool {
	v = unwrap(v)
	if seen[v] || depth > 4 {
		return false
	}
	seen[v] = true
	switch x := v.(type) {
	case *ssa.Const:
		return x.Value == nil
	case *ssa.Parameter:
		sites := r.callSitesOf(x.Parent())
		idx := paramIndex(x)
		for _, site := range sites {
			if site == nil || idx < 0 || idx >= len(site.Common().Args) || !r.zeroTime(site.Common().Args[idx], seen, depth+1) {
				return false
			}
		}
		return len(sites) > 0
	case *ssa.UnOp:
		// `var zero time.Time` / `time.Time{}` kept in a local that is never assigned
		if al, ok := x.X.(*ssa.Alloc); ok && x.Op == token.MUL && len(storesTo(al)) == 0 && al.Referrers() != nil {
			for _, ref := range *al.Referrers() {
				switch y := ref.(type) {
				case *ssa.UnOp, *ssa.DebugRef:
				default:
					_ = y
					return false
				}
			}
			return true
		}
	}
	return false
}

// ruleCloseReason (R8g.reason): the reason text of a close frame is cropped by the library
// (ws.NewCloseFrameBody) to the 123 bytes a control frame has room for, at a byte boundary. A
// reason that may be longer than that and may hold multi-byte characters — the text of an
// error, anything echoed from the client's message — is cut in the middle of a character, and
// the frame the client receives is not a well-formed close frame (RFC 6455 5.5.1: the reason
// is UTF-8). The reason must be text whose origin the rule can bound: ASCII text (constants,
// numbers, their concatenations: any crop of it is valid), a short constant, or the result of
// a module function that is shown to hand back at most 123 bytes, cut — where it cuts — at a
// character boundary. A frame the library compiled in advance carries the library's own
// constant reason.
func ruleCloseReason(r *Run) {
	const rule = "R8g.reason"
	n := 0
	for _, fn := range r.P.Funcs {
		nc := 0
		for _, ins := range allInstrs(fn) {
			// a ready-made close frame of the library (ws.CompiledCloseNormalClosure …)
			if ld, ok := ins.(*ssa.UnOp); ok && ld.Op == token.MUL {
				if g, ok := ld.X.(*ssa.Global); ok && g.Pkg != nil && g.Pkg.Pkg.Path() == "github.com/gobwas/ws" && strings.HasPrefix(g.Name(), "CompiledClose") {
					n++
					nc++
					key := "ready-made close frame"
					if nc > 1 {
						key += "#" + strconv.Itoa(nc)
					}
					r.OK(rule, fnName(fn), key, r.P.pos(ins.Pos()), "ws."+g.Name()+": a frame the library compiled in advance, with a status code and no reason text of the module's")
				}
				continue
			}
			ci, ok := ins.(ssa.CallInstruction)
			if !ok {
				continue
			}
			sc := ci.Common().StaticCallee()
			if sc == nil || sc.Pkg == nil || sc.Pkg.Pkg.Path() != "github.com/gobwas/ws" || !strings.Contains(sc.Name(), "CloseFrameBody") {
				continue
			}
			for _, a := range ci.Common().Args {
				bt, isB := a.Type().Underlying().(*types.Basic)
				if !isB || bt.Info()&types.IsString == 0 {
					continue
				}
				n++
				key := "close reason"
				if n > 1 {
					key += "#" + strconv.Itoa(n)
				}
				why, safe := safeReason(r, a, map[ssa.Value]bool{}, 0)
				r.Check(safe, rule, fnName(fn), key, r.P.pos(ins.Pos()),
					"the reason is "+why,
					"the reason of the close frame is "+why+": the library crops a reason to 123 bytes at a byte boundary, so a long text with a multi-byte character at the cut reaches the client as a close frame whose body is not valid UTF-8 — a malformed frame")
			}
		}
	}
	r.AtLeast(rule, "close frames with a reason to judge (bodies built, ready-made frames of the library)", n, 1)
}

func safeReason(r *Run, v ssa.Value, seen map[ssa.Value]bool, depth int) (string, bool) {
	v = unwrap(v)
	if seen[v] {
		return "text whose every crop is valid", true
	}
	seen[v] = true
	if depth > 8 {
		return "text the rule cannot trace to its origin", false
	}
	switch x := v.(type) {
	case *ssa.Const:
		if x.Value == nil || x.Value.Kind() != constant.String {
			return "a constant", true
		}
		s := constant.StringVal(x.Value)
		ascii := true
		for i := 0; i < len(s); i++ {
			if s[i] >= 0x80 {
				ascii = false
			}
		}
		if ascii || len(s) <= 123 {
			return "a constant that is ASCII or fits the frame", true
		}
		return "a constant longer than the frame has room for, with multi-byte characters", false
	case *ssa.Phi:
		for _, e := range x.Edges {
			if why, ok := safeReason(r, e, seen, depth+1); !ok {
				return why, false
			}
		}
		return "one of several safe texts", true
	case *ssa.BinOp:
		if x.Op == token.ADD {
			for _, e := range []ssa.Value{x.X, x.Y} {
				if why, ok := safeReason(r, e, seen, depth+1); !ok {
					return why, false
				}
			}
			// a concatenation of ASCII texts is ASCII; short non-ASCII constants may add up
			for _, e := range []ssa.Value{x.X, x.Y} {
				if k, ok := unwrap(e).(*ssa.Const); ok && k.Value != nil && k.Value.Kind() == constant.String {
					for _, c := range []byte(constant.StringVal(k.Value)) {
						if c >= 0x80 {
							return "a concatenation with multi-byte text, of a length the rule cannot bound", false
						}
					}
				}
			}
			return "a concatenation of ASCII texts", true
		}
	case *ssa.Call:
		name := calleeName(&x.Call)
		switch {
		case strings.HasPrefix(name, "strconv.Itoa"), strings.HasPrefix(name, "strconv.FormatInt"), strings.HasPrefix(name, "strconv.FormatUint"), strings.HasPrefix(name, "strconv.Quote"+"ToASCII"):
			return "a number", true
		}
		if sc := x.Call.StaticCallee(); sc != nil && inModule(sc) && sc.Blocks != nil {
			// every return hands back safe text, or text the function has shown to fit the frame
			// (at most 123 bytes: the library does not crop it) and, where the function has cut
			// it, to end at a character boundary. Mentioning unicode/utf8 shows nothing (fifth
			// audit: a helper that counted 123 RUNES).
			all, fitted := true, false
			var why string
			for _, ret := range returnsOf(sc) {
				for _, rv := range retVals(ret) {
					bt, isB := rv.Type().Underlying().(*types.Basic)
					if !isB || bt.Info()&types.IsString == 0 {
						continue
					}
					if fitsFrame(rv, ret.Block()) {
						fitted = true
						continue
					}
					if w, ok := safeReason(r, rv, seen, depth+1); !ok {
						all, why = false, w+" (returned by "+fnName(sc)+", which does not show it to be at most 123 bytes long and cut at a character boundary)"
					}
				}
			}
			if all && fitted {
				return "the result of " + fnName(sc) + ", every return of which is safe text or text tested to be at most 123 bytes long and, where it was cut, to end at a character boundary", true
			}
			if all {
				return "the result of " + fnName(sc) + ", every return of which is safe text", true
			}
			return why, false
		}
		if x.Call.IsInvoke() && x.Call.Method.Name() == "Error" {
			return "the text of an error (it may quote anything, the client's own message included)", false
		}
		return "the result of " + name + ", of a length and content the rule cannot bound", false
	case *ssa.UnOp:
		if x.Op == token.MUL {
			if owner := cellOwner(x.X); owner != nil {
				// a local variable (possibly shared with closures): every value assigned to it
				stores := storesTo(owner)
				for _, st := range stores {
					if why, ok := safeReason(r, st.Val, seen, depth+1); !ok {
						return why, false
					}
				}
				if len(stores) > 0 {
					return "a variable that is only given safe texts", true
				}
				return "a variable of an origin the rule cannot bound", false
			}
			if fa, ok := x.X.(*ssa.FieldAddr); ok {
				f := fieldOf(fa)
				// a struct that is a decode target (json.Unmarshal, a Decoder: anything that is
				// handed by reference to code outside the module) is filled from outside, whatever
				// the module itself stores in it
				if by := r.filledFromOutside(fa.X.Type()); by != "" {
					return "a field of a message that is filled in from outside (" + shortStruct(namedOf(fa.X.Type())) + " is handed to " + by + "): the text the peer sent", false
				}
				// every value the module stores in this field
				stores := 0
				for _, g := range r.P.Funcs {
					for _, i := range allInstrs(g) {
						st, ok := i.(*ssa.Store)
						if !ok {
							continue
						}
						fa2, ok := st.Addr.(*ssa.FieldAddr)
						if !ok || fieldOf(fa2) != f {
							continue
						}
						stores++
						if why, ok := safeReason(r, st.Val, seen, depth+1); !ok {
							return why, false
						}
					}
				}
				if stores > 0 {
					return "a field that is only given safe texts", true
				}
				return "a field filled in outside the rule's sight (a decoded message, a literal)", false
			}
		}
	case *ssa.Parameter:
		fn := x.Parent()
		idx := -1
		for i, p := range fn.Params {
			if p == x {
				idx = i
			}
		}
		callers := 0
		for _, site := range r.callSitesOf(fn) {
			// a function, or a closure value that is only ever called: each call lists its arguments
			if site == nil || idx < 0 || idx >= len(site.Common().Args) {
				return "a parameter with callers the rule cannot enumerate", false
			}
			callers++
			if why, ok := safeReason(r, site.Common().Args[idx], seen, depth+1); !ok {
				return why, false
			}
		}
		if callers > 0 {
			return "a parameter that every caller gives safe text", true
		}
		return "a parameter of a function without callers in sight", false
	}
	return "text of an origin the rule cannot bound (" + v.String() + ")", false
}

// ruleMemoKey (R3k.memo): a memo — `if v, ok := m[k]; ok { return v }; m[k] = f(a, b)` — answers
// later questions with an earlier answer, so its key has to hold everything the answer depends
// on. The rule compares what the stored value is computed from with what the key is computed
// from, as access paths from the function's inputs (`req`, `req.QueryPlanStep.URL`,
// `variables["id"]` …): every input of the value must be covered by an input of the key (the same
// path or a shorter one), unless it cannot change during the life of the memo — a parameter of
// the function when the map is made inside it (or handed in by callers that have just made it
// and pass the parameter on unchanged), the receiver of the method. A verdict that depends on
// the step AND the entity, remembered under the entity's id alone, is handed to the next step
// that asks about the same entity.
//
// What the key is computed from is followed into functions of the module that build it (which
// parts of their parameters reach what they return); what the value is computed from takes the
// arguments of a call as a whole. A container that is read and written through small functions
// of its own (`cache.get(k)`, `cache.put(k, v)`) is seen at their call sites. A map whose old
// entry goes INTO the computation of the new one (`m[k] = merge(m[k], v)`) is an accumulator, not
// a memo; a value that is merely chosen between the old entry and a fresh one
// (`v, ok := m.Load(k); if !ok { v = f() }; m.Store(k, v)`) is a memo.
//
// scope: the functions whose memos are the property's matter (nil: the whole module).
func ruleMemoKeyIn(label string, roots ...string) ruleFn {
	return func(r *Run) {
		const rule = "R3k.memo"
		var scope map[*ssa.Function]bool
		if len(roots) > 0 {
			var fs []*ssa.Function
			for _, name := range roots {
				if f := r.Anchor(rule, name); f != nil {
					fs = append(fs, f)
				}
			}
			scope = r.P.CG.ReachableAll(fs)
		}
		accs := memoAccesses(r)
		n := 0
		for _, p := range accs {
			if !p.put || (scope != nil && !scope[p.fn]) {
				continue
			}
			fn := p.fn
			// the consultations of the same memo in the same function (directly or through an
			// accessor): a container that is filled here and read elsewhere is an index — what
			// makes a memo is that finding the entry takes the place of computing it
			stop := map[ssa.Value]bool{}
			consulted := false
			for _, g := range accs {
				if g.put && g.got == nil {
					continue
				}
				if g.at == p.at && !(g.put && g.got != nil) {
					continue
				}
				if g.fn == fn && sameMemoAcc(g, p) {
					consulted = true
					if g.got != nil {
						stop[g.got] = true
					}
				}
			}
			vl := p.value(stop)
			if !vl.calls || !consulted {
				continue // a plain value (an index, not a memo), or never consulted
			}
			accumulates := false
			for got := range stop {
				if vl.comp[got] {
					accumulates = true // the old entry goes into the computation of the new one
				}
			}
			if accumulates {
				continue
			}
			n++
			kl := p.key()
			var missing []string
			seenMissing := map[string]bool{}
			for _, lv := range vl.leaves {
				if memoInvariant(r, fn, p, lv.root, 0) {
					continue
				}
				covered := false
				for _, lk := range kl.leaves {
					if lk.root == lv.root && (lk.path == lv.path || lk.path == "" || strings.HasPrefix(lv.path, lk.path+".")) {
						covered = true
					}
					// the value is handed to a call as a whole (which parts the call uses is not
					// known) and the key is built from parts of the same input by a helper: the
					// rule cannot tell, as it could not before it looked into the helper
					if lk.root == lv.root && lk.part && lv.path == "" {
						covered = true
					}
				}
				if !covered {
					d := leafName(lv.root)
					if lv.path != "" {
						d += "." + lv.path
					}
					if !seenMissing[d] {
						seenMissing[d] = true
						missing = append(missing, d)
					}
				}
			}
			sort.Strings(missing)
			what := "memo"
			if p.v != nil {
				if c := memoisedCall(p.v); c != nil {
					what = "memo of " + calleeDesc(&c.Call)
				}
			}
			if p.via != nil {
				what += " (kept through " + fnName(p.via) + ")"
			}
			// R3k.samekey: the entry is kept under the key it was looked for. A memo that is
			// consulted with one value and filled under another (the key after a part has been
			// stripped off it, say) answers the next question about the stripped form with the
			// answer to this one. Judged where both accesses are made directly in this function.
			if p.inner == nil && p.k != nil {
				direct, same := 0, true
				if _, isStruct := p.k.Type().Underlying().(*types.Struct); isStruct {
					same = true // two literals of a struct-typed key are equal values the rule cannot compare
				}
				for _, g := range accs {
					if g.fn != fn || g.got == nil || g.inner != nil || g.k == nil || !sameMemoAcc(g, p) {
						continue
					}
					// the look-up this put belongs to comes before it on every path (a container
					// filled in one loop and read in a later one is an index with keys of its own)
					if !instrDominates(g.at, p.at) {
						continue
					}
					if _, isStruct := g.k.Type().Underlying().(*types.Struct); isStruct {
						continue
					}
					direct++
					// every look-up the put follows: a second look-up under the stripped key in
					// front of the put does not make the first one agree
					if !sameValue(unwrap(g.k), unwrap(p.k)) {
						same = false
					}
				}
				if direct > 0 {
					r.Check(same, "R3k.samekey", fnName(fn), what, r.P.pos(p.at.Pos()),
						"the entry of a memo is kept under the key it was looked for",
						"this "+p.kind+" is consulted under one key and filled under another ("+p.k.Name()+"): the entry answers a later question it was not computed for")
				}
			}
			r.Check(len(missing) == 0, rule, fnName(fn), what, r.P.pos(p.at.Pos()),
				"everything the remembered value is computed from is part of the key it is kept under (or cannot change while the memo lives)",
				"the value kept in this "+p.kind+" is computed from "+strings.Join(missing, ", ")+", which the key does not cover: a later question that differs only there is given the earlier answer")
		}
		r.OKTrivial(rule, "", "memo sites", "-", strconv.Itoa(n)+" memo(s) found "+label+" (a container that is consulted and filled with a computed value)")
	}
}

// memoAcc: one access of a keyed container: a consultation (got: the value obtained) or a put.
type memoAcc struct {
	fn   *ssa.Function
	at   ssa.Instruction
	m    ssa.Value   // the container (for an access through a helper: what the helper is given)
	id   interface{} // the field or package-level variable the container lives in, if any
	k, v ssa.Value   // key and stored value (nil when they are only known as sets)
	got  ssa.Value   // what a consultation yields
	kind string
	put  bool
	via  *ssa.Function // the function of the module through which the access is made
	// for an access through a helper: key and value as the helper computes them from its
	// parameters, and the arguments of the call
	inner *memoAcc
	args  []ssa.Value
}

func (p *memoAcc) key() *inputSet {
	if p.inner == nil {
		return inputPathsOpt(p.k, pathOpts{intoCallees: true})
	}
	return liftSet(p.inner.key(), p.via, p.args, pathOpts{intoCallees: true})
}

func (p *memoAcc) value(stop map[ssa.Value]bool) *inputSet {
	if p.inner == nil {
		return inputPathsOpt(p.v, pathOpts{stop: stop})
	}
	return liftSet(p.inner.value(nil), p.via, p.args, pathOpts{stop: stop})
}

// liftSet: a set of inputs of function h, expressed in the inputs of the caller that hands
// h the arguments args.
func liftSet(sub *inputSet, h *ssa.Function, args []ssa.Value, opts pathOpts) *inputSet {
	w := newPathWalker(opts)
	w.out.calls = sub.calls
	for _, lf := range sub.leaves {
		if par, ok := lf.root.(*ssa.Parameter); ok && par.Parent() == h {
			for i, q := range h.Params {
				if q == par && i < len(args) {
					w.walk(args[i], lf.path, true, 0)
				}
			}
			continue
		}
		if _, isGlobal := lf.root.(*ssa.Global); isGlobal {
			w.out.leaves = append(w.out.leaves, lf)
		}
	}
	return w.out
}

// memoIdentity: the field or package-level variable a container value is read from.
func memoIdentity(m ssa.Value) interface{} {
	m = unwrap(m)
	if ld, ok := m.(*ssa.UnOp); ok && ld.Op == token.MUL {
		m = ld.X
	}
	switch x := m.(type) {
	case *ssa.FieldAddr:
		if f := fieldOf(x); f != nil {
			return f
		}
	case *ssa.Field:
		if f := fieldOfVal(x); f != nil {
			return f
		}
	case *ssa.Global:
		return x
	}
	return nil
}

// memoAccesses: every consultation and every put of a keyed container (map, sync.Map) in the
// module, and — two levels up — the calls of functions that do nothing but pass their
// parameters on to one.
func memoAccesses(r *Run) []*memoAcc {
	var accs []*memoAcc
	for _, fn := range r.P.Funcs {
		if !inModule(fn) {
			continue
		}
		for _, ins := range allInstrs(fn) {
			switch x := ins.(type) {
			case *ssa.MapUpdate:
				accs = append(accs, &memoAcc{fn: fn, at: x, m: x.Map, k: x.Key, v: x.Value, kind: "map", put: true})
			case *ssa.Lookup:
				if _, isMap := x.X.Type().Underlying().(*types.Map); isMap && x.CommaOk {
					accs = append(accs, &memoAcc{fn: fn, at: x, m: x.X, k: x.Index, got: x, kind: "map"})
				} else if isMap && !x.CommaOk {
					// `if v := m[k]; v != nil { return v }`: a look-up whose result is compared
					// with nil asks "is it there?" as the comma-ok form does
					if refs := x.Referrers(); refs != nil {
						for _, u := range *refs {
							if b, ok := u.(*ssa.BinOp); ok && (b.Op == token.EQL || b.Op == token.NEQ) {
								if c, ok := b.Y.(*ssa.Const); ok && c.IsNil() {
									accs = append(accs, &memoAcc{fn: fn, at: x, m: x.X, k: x.Index, got: x, kind: "map"})
									break
								}
							}
						}
					}
				}
			case ssa.CallInstruction:
				cn := calleeName(x.Common())
				a := x.Common().Args
				v, _ := ins.(ssa.Value)
				switch cn {
				case "(*sync.Map).Store", "(*sync.Map).LoadOrStore", "(*sync.Map).Swap":
					if len(a) == 3 {
						acc := &memoAcc{fn: fn, at: x, m: a[0], k: a[1], v: a[2], kind: "sync.Map", put: true}
						if cn != "(*sync.Map).Store" {
							acc.got = v
						}
						accs = append(accs, acc)
					}
				case "(*sync.Map).Load":
					if len(a) == 2 {
						accs = append(accs, &memoAcc{fn: fn, at: x, m: a[0], k: a[1], got: v, kind: "sync.Map"})
					}
				}
			}
		}
	}
	for _, acc := range accs {
		acc.id = memoIdentity(acc.m)
	}
	// accesses made through a function that hands its parameters on
	level := accs
	for round := 0; round < 2; round++ {
		var next []*memoAcc
		for _, in := range level {
			h := in.fn
			if in.id == nil || len(r.P.CG.In[h]) == 0 {
				continue // a local container is not reached from outside
			}
			paramsOnly := func(s *inputSet) bool {
				for _, lf := range s.leaves {
					switch root := lf.root.(type) {
					case *ssa.Parameter:
						if root.Parent() != h {
							return false
						}
					case *ssa.Global:
					default:
						return false
					}
				}
				return true
			}
			ks := in.key()
			if !paramsOnly(ks) {
				continue
			}
			if in.put {
				vs := in.value(nil)
				if vs.calls || !paramsOnly(vs) || len(vs.leaves) == 0 {
					continue // the helper computes the value itself: a memo site of its own
				}
			} else if !returnsSelected(h, in.got) {
				continue // the helper does more than hand the entry back
			}
			// the container as the caller sees it
			base := memoBase(in.m)
			for _, e := range r.P.CG.In[h] {
				if e.Site == nil || (e.Kind != "static" && e.Kind != "dynamic") || e.Site.Common().IsInvoke() {
					continue
				}
				args := e.Site.Common().Args
				lifted := &memoAcc{fn: e.Caller, at: e.Site, id: in.id, kind: in.kind, put: in.put, via: h, inner: in, args: args}
				if par, ok := base.(*ssa.Parameter); ok && par.Parent() == h {
					for i, q := range h.Params {
						if q == par && i < len(args) {
							lifted.m = args[i]
						}
					}
				} else {
					lifted.m = base
				}
				if !in.put {
					lifted.got, _ = e.Site.(ssa.Value)
				}
				next = append(next, lifted)
			}
		}
		accs = append(accs, next...)
		level = next
	}
	return accs
}

// memoBase: the value a container is a field of (`c` for `c.m`), or the container itself.
func memoBase(m ssa.Value) ssa.Value {
	m = unwrap(m)
	if ld, ok := m.(*ssa.UnOp); ok && ld.Op == token.MUL {
		m = ld.X
	}
	switch x := m.(type) {
	case *ssa.FieldAddr:
		return unwrap(x.X)
	case *ssa.Field:
		return unwrap(x.X)
	}
	return m
}

// returnsSelected: some result of h is the consulted entry got (or chosen from it), not
// something computed from it.
func returnsSelected(h *ssa.Function, got ssa.Value) bool {
	for _, ret := range returnsOf(h) {
		for _, rv := range retVals(ret) {
			s := inputPathsOpt(rv, pathOpts{stop: map[ssa.Value]bool{got: true}})
			if s.hit[got] && !s.comp[got] {
				return true
			}
		}
	}
	return false
}

func sameMemoAcc(a, b *memoAcc) bool {
	if a.via != nil || b.via != nil {
		if a.id == nil || a.id != b.id {
			return false
		}
		if a.m == nil || b.m == nil {
			return false
		}
	}
	return sameMemo(a.m, b.m)
}

// memoInvariant: root cannot change while the memo p (filled in fn) lives.
func memoInvariant(r *Run, fn *ssa.Function, p *memoAcc, root ssa.Value, depth int) bool {
	switch x := root.(type) {
	case *ssa.Global, *ssa.Const, *ssa.Function:
		return true
	case *ssa.Parameter:
		if fn.Signature.Recv() != nil && len(fn.Params) > 0 && x == fn.Params[0] {
			return true
		}
		if x.Parent() != fn {
			return false
		}
		return mapLivesWithin(r, fn, p.m, x, depth)
	case *ssa.FreeVar:
		return madeIn(fn, p.m)
	}
	return false
}

// mapLivesWithin: the container m of fn does not outlive the value of fn's parameter q: it is
// made in fn, or it is a parameter of fn and every caller hands in a container that does not
// outlive what it passes for q — one it has just made while passing on a parameter of its
// own (or a constant), or, in a recursive call, the same container with the same q.
func mapLivesWithin(r *Run, fn *ssa.Function, m ssa.Value, q *ssa.Parameter, depth int) bool {
	if m == nil {
		return false
	}
	if madeIn(fn, m) {
		return true
	}
	pm, ok := viaCell(unwrap(m)).(*ssa.Parameter)
	if !ok || pm.Parent() != fn || depth > 3 {
		return false
	}
	mi, qi := -1, -1
	for i, par := range fn.Params {
		if par == pm {
			mi = i
		}
		if par == q {
			qi = i
		}
	}
	if mi < 0 || qi < 0 || len(r.P.CG.In[fn]) == 0 {
		return false
	}
	for _, e := range r.P.CG.In[fn] {
		if e.Site == nil || e.Kind != "static" {
			return false
		}
		args := e.Site.Common().Args
		if mi >= len(args) || qi >= len(args) {
			return false
		}
		am, aq := viaCell(unwrap(args[mi])), viaCell(unwrap(args[qi]))
		if e.Caller == fn && am == ssa.Value(pm) && aq == ssa.Value(q) {
			continue // the recursion hands both on unchanged
		}
		switch y := aq.(type) {
		case *ssa.Const, *ssa.Global:
			if madeIn(e.Caller, am) {
				continue
			}
			return false
		case *ssa.Parameter:
			if y.Parent() == e.Caller && mapLivesWithin(r, e.Caller, am, y, depth+1) {
				continue
			}
			if e.Caller.Signature.Recv() != nil && len(e.Caller.Params) > 0 && y == e.Caller.Params[0] && madeIn(e.Caller, am) {
				continue
			}
			return false
		default:
			return false
		}
	}
	return true
}

// blockReachIncl: a block of the set is reachable from b (b included).
func blockReachIncl(b *ssa.BasicBlock, set map[*ssa.BasicBlock]bool) bool {
	if set[b] {
		return true
	}
	for x := range blockReach(b) {
		if set[x] {
			return true
		}
	}
	return false
}

func memoisedCall(v ssa.Value) *ssa.Call {
	v = unwrap(v)
	if ex, ok := v.(*ssa.Extract); ok {
		v = ex.Tuple
	}
	c, _ := v.(*ssa.Call)
	return c
}

// madeIn: the map m is made (make / literal) in fn itself.
func madeIn(fn *ssa.Function, m ssa.Value) bool {
	if m == nil {
		return false
	}
	m = viaCell(unwrap(m))
	switch x := m.(type) {
	case *ssa.MakeMap:
		return x.Parent() == fn
	case *ssa.Alloc: // a sync.Map declared locally
		return x.Parent() == fn
	}
	return false
}

func sameMemo(a, b ssa.Value) bool {
	a, b = unwrap(a), unwrap(b)
	if a == b || sameValue(a, b) || viaCell(a) == viaCell(b) {
		return true
	}
	// &x.f of the same x (sync.Map fields are used through their address)
	fa, ok1 := a.(*ssa.FieldAddr)
	fb, ok2 := b.(*ssa.FieldAddr)
	if ok1 && ok2 && fa.Field == fb.Field && (fa.X == fb.X || sameValue(fa.X, fb.X)) {
		return true
	}
	return false
}

type inputLeaf struct {
	root ssa.Value
	path string
	part bool // reached through a function of the module that uses a part of what it is handed
}

type inputSet struct {
	leaves []inputLeaf
	seen   map[ssa.Value]bool
	comp   map[ssa.Value]bool // reached as an operand of a computation (not merely chosen: phi, extract, conversion)
	hit    map[ssa.Value]bool // the stop values that were reached
	calls  bool               // a call (other than a conversion-like builtin) takes part in the computation
	opaque bool               // something on the way may be filled in behind the walk's back (a local whose address is handed to a call)
}

type pathOpts struct {
	intoCallees bool               // follow a call of a module function into what it returns (the key side: which parts of its parameters reach the result)
	stop        map[ssa.Value]bool // values at which the walk ends (the consulted entry)
	depth       int
}

type pathKey struct {
	v   ssa.Value
	p   string
	sel bool
}

type pathWalker struct {
	out  *inputSet
	opts pathOpts
	done map[pathKey]bool
}

func newPathWalker(opts pathOpts) *pathWalker {
	return &pathWalker{out: &inputSet{seen: map[ssa.Value]bool{}, comp: map[ssa.Value]bool{}, hit: map[ssa.Value]bool{}}, opts: opts, done: map[pathKey]bool{}}
}

// inputPaths: what v is computed from — the roots of its backward slice (parameters, captured
// variables, globals, loop variables) with the field path by which each is used.
func inputPaths(v ssa.Value) *inputSet { return inputPathsOpt(v, pathOpts{}) }

func inputPathsOpt(v ssa.Value, opts pathOpts) *inputSet {
	w := newPathWalker(opts)
	if v != nil {
		w.walk(v, "", true, 0)
	}
	return w.out
}

func joinPath(f, path string) string {
	if path == "" {
		return f
	}
	return f + "." + path
}

// walk: sel is true as long as v has only been reached through choices (phi, extract, load of
// a local cell, conversion) from the value the walk started at.
func (w *pathWalker) walk(v ssa.Value, path string, sel bool, depth int) {
	out := w.out
	if v == nil || depth > 60 || w.done[pathKey{v, path, sel}] {
		return
	}
	w.done[pathKey{v, path, sel}] = true
	out.seen[v] = true
	if !sel {
		out.comp[v] = true
	}
	if w.opts.stop[v] {
		out.hit[v] = true
		return
	}
	add := func(root ssa.Value, path string) {
		out.leaves = append(out.leaves, inputLeaf{root: root, path: path})
	}
	switch x := v.(type) {
	case *ssa.Const, *ssa.Function, *ssa.Builtin:
		return
	case *ssa.Parameter, *ssa.FreeVar, *ssa.Global, *ssa.Next:
		add(v, path)
		return
	case *ssa.Phi:
		// a loop variable is an input; a join of alternatives is computed from its edges
		loopVar := false
		for _, p := range x.Block().Preds {
			if x.Block().Dominates(p) {
				loopVar = true
			}
		}
		if loopVar {
			add(v, path)
			return
		}
		for _, e := range x.Edges {
			w.walk(e, path, sel, depth+1)
		}
		return
	case *ssa.MakeMap, *ssa.MakeSlice, *ssa.MakeChan:
		return
	case *ssa.Alloc:
		// a local whose address goes to more than the one call the walk came through (a
		// strings.Builder written to and then asked for its String): filled behind the walk's back
		if len(callsHandedTo(x)) > 1 {
			out.opaque = true
		}
		for _, st := range storesTo(x) {
			w.walk(st.Val, path, sel, depth+1)
		}
		if x.Referrers() != nil {
			for _, ref := range *x.Referrers() {
				if fa, ok := ref.(*ssa.FieldAddr); ok && fa.Referrers() != nil {
					for _, r2 := range *fa.Referrers() {
						if st, ok := r2.(*ssa.Store); ok && st.Addr == ssa.Value(fa) {
							w.walk(st.Val, "", false, depth+1)
						}
					}
				}
				// the elements of a local array (the argument pack of a variadic call)
				if ia, ok := ref.(*ssa.IndexAddr); ok && ia.Referrers() != nil {
					for _, r2 := range *ia.Referrers() {
						if st, ok := r2.(*ssa.Store); ok && st.Addr == ssa.Value(ia) {
							w.walk(st.Val, "", false, depth+1)
						}
					}
				}
			}
		}
		return
	case *ssa.UnOp:
		if x.Op == token.MUL {
			// a read of a local (or of a part of it) whose address is also handed to a call:
			// what is read may have been put there by that call
			base := x.X
			for {
				if fa, ok := base.(*ssa.FieldAddr); ok {
					base = fa.X
				} else if ia, ok := base.(*ssa.IndexAddr); ok {
					base = ia.X
				} else {
					break
				}
			}
			if al, ok := base.(*ssa.Alloc); ok && len(callsHandedTo(al)) > 0 {
				out.opaque = true
			}
		}
		if _, isCell := x.X.(*ssa.Alloc); isCell && x.Op == token.MUL {
			w.walk(x.X, path, sel, depth+1)
			return
		}
		w.walk(x.X, path, sel && x.Op == token.MUL, depth+1)
		return
	case *ssa.FieldAddr:
		name := "?"
		if f := fieldOf(x); f != nil {
			name = f.Name()
		}
		w.walk(x.X, joinPath(name, path), false, depth+1)
		return
	case *ssa.Field:
		name := "?"
		if f := fieldOfVal(x); f != nil {
			name = f.Name()
		}
		w.walk(x.X, joinPath(name, path), false, depth+1)
		return
	case *ssa.Lookup:
		if k, ok := x.Index.(*ssa.Const); ok && k.Value != nil && k.Value.Kind() == constant.String {
			w.walk(x.X, joinPath("["+constant.StringVal(k.Value)+"]", path), false, depth+1)
		} else {
			w.walk(x.X, joinPath("[]", path), false, depth+1)
			w.walk(x.Index, "", false, depth+1)
		}
		return
	case *ssa.IndexAddr:
		// an element of a list: the element itself is what varies (the loop variable); its
		// identity is the load, so the list and the index are its roots
		w.walk(x.X, joinPath("[]", path), false, depth+1)
		w.walk(x.Index, "", false, depth+1)
		return
	case *ssa.Extract:
		if _, isNext := x.Tuple.(*ssa.Next); isNext {
			add(x.Tuple, strconv.Itoa(x.Index))
			return
		}
		if c, ok := x.Tuple.(*ssa.Call); ok && w.intoCallee(c, x.Index, sel, depth) {
			return
		}
		w.walk(x.Tuple, path, sel, depth+1)
		return
	case *ssa.TypeAssert:
		w.walk(x.X, path, sel, depth+1)
		return
	case *ssa.MakeInterface:
		w.walk(x.X, path, sel, depth+1)
		return
	case *ssa.ChangeType:
		w.walk(x.X, path, sel, depth+1)
		return
	case *ssa.Convert:
		w.walk(x.X, path, sel, depth+1)
		return
	case *ssa.ChangeInterface:
		w.walk(x.X, path, sel, depth+1)
		return
	case *ssa.Call:
		if w.intoCallee(x, -1, sel, depth) {
			return
		}
		if b, ok := x.Call.Value.(*ssa.Builtin); !ok || (b.Name() != "len" && b.Name() != "cap" && b.Name() != "append" && b.Name() != "copy") {
			out.calls = true
		}
		if x.Call.IsInvoke() {
			w.walk(x.Call.Value, "", false, depth+1)
		}
		for _, a := range x.Call.Args {
			w.walk(a, "", false, depth+1)
		}
		return
	}
	if ins, ok := v.(ssa.Instruction); ok {
		for _, op := range operandsOf(ins) {
			w.walk(op, "", false, depth+1)
		}
	}
}

// callsHandedTo: the calls that are handed the address of the local al — as it is, wrapped in
// an interface, or as the address of a part of it: what al holds may be written there.
func callsHandedTo(al *ssa.Alloc) map[ssa.Instruction]bool {
	out := map[ssa.Instruction]bool{}
	var follow func(v ssa.Value, depth int)
	follow = func(v ssa.Value, depth int) {
		if v.Referrers() == nil || depth > 3 {
			return
		}
		for _, ref := range *v.Referrers() {
			switch y := ref.(type) {
			case ssa.CallInstruction:
				for _, arg := range y.Common().Args {
					if arg == v {
						out[ref] = true
					}
				}
			case *ssa.MakeInterface, *ssa.ChangeType, *ssa.Convert, *ssa.Slice, *ssa.IndexAddr, *ssa.FieldAddr:
				follow(ref.(ssa.Value), depth+1)
			}
		}
	}
	follow(al, 0)
	return out
}

// intoCallee: on the key side, a call of a function of the module stands for what the function
// returns: the parts of its parameters that reach the result (a parameter it is handed but does
// not put into the key is not part of the key). Inputs of the callee that are not its parameters
// or package-level variables are left out: the key side is an under-approximation.
func (w *pathWalker) intoCallee(c *ssa.Call, idx int, sel bool, depth int) bool {
	if !w.opts.intoCallees || w.opts.depth > 3 || c.Call.IsInvoke() {
		return false
	}
	sc := c.Call.StaticCallee()
	if sc == nil || !inModule(sc) || sc.Blocks == nil {
		return false
	}
	type hop struct {
		arg  int
		path string
	}
	var hops []hop
	var globals []inputLeaf
	for _, ret := range returnsOf(sc) {
		for i, rv := range retVals(ret) {
			if idx >= 0 && i != idx {
				continue
			}
			sub := inputPathsOpt(rv, pathOpts{intoCallees: true, depth: w.opts.depth + 1})
			if sub.opaque {
				return false
			}
			for _, lf := range sub.leaves {
				switch root := lf.root.(type) {
				case *ssa.Parameter:
					found := false
					for pi, q := range sc.Params {
						if q == root && pi < len(c.Call.Args) {
							hops = append(hops, hop{pi, lf.path})
							found = true
						}
					}
					if !found {
						return false
					}
				case *ssa.Global:
					globals = append(globals, lf)
				default:
					// a loop variable, a captured variable: what it ranges over is not followed —
					// the callee's result is not fully accounted for, the call stays a whole
					return false
				}
			}
		}
	}
	w.out.calls = true
	w.out.leaves = append(w.out.leaves, globals...)
	for _, h := range hops {
		before := len(w.out.leaves)
		w.walk(c.Call.Args[h.arg], h.path, false, depth+1)
		if h.path != "" {
			for i := before; i < len(w.out.leaves); i++ {
				w.out.leaves[i].part = true
			}
		}
	}
	return true
}

func leafName(v ssa.Value) string {
	switch x := v.(type) {
	case *ssa.Parameter:
		return x.Name()
	case *ssa.FreeVar:
		return x.Name()
	case *ssa.Global:
		return x.Name()
	case *ssa.Phi:
		if x.Comment != "" {
			return x.Comment
		}
		return "a loop variable"
	case *ssa.Next:
		return "the loop's current entry"
	}
	return v.Name()
}

// ruleArrivalOrder (R4c.arrival): the value an atomic read-modify-write hands back (Add, Swap,
// CompareAndSwap on a shared word) is a ticket: which goroutine gets which value is decided by
// the scheduler. Counting is harmless; letting the ticket decide something — which of several
// concurrent batches is refused once a shared budget is used up — makes the outcome of one and
// the same request differ from run to run. The result of such an operation must not be used,
// and neither may the word be read back on the query path (atomic.Load, the Load method, a
// plain read of the field): what is read is the count as the other goroutines have left it at
// that moment — the same ticket, taken in two steps.
func ruleArrivalOrder(r *Run) {
	const rule = "R4c.arrival"
	n := 0
	h := r.Anchor(rule, "pebbles.(*Gateway).queryHandler")
	if h == nil {
		return
	}
	// the query path only: a once-guard (`if !closed.CompareAndSwap(false, true) { return }`) in
	// the subscription teardown is a different matter (R8)
	onPath := r.P.CG.ReachableAll([]*ssa.Function{h})
	var fns []*ssa.Function
	for _, fn := range r.P.Funcs {
		if inModule(fn) && onPath[fn] {
			fns = append(fns, fn)
		}
	}
	// the word an address stands for: the field, the package-level variable, else the address
	wordOf := func(addr ssa.Value) interface{} {
		addr = unwrap(addr)
		switch x := addr.(type) {
		case *ssa.FieldAddr:
			if f := fieldOf(x); f != nil {
				return f
			}
		case *ssa.Global:
			return x
		}
		return addr
	}
	used := func(v ssa.Value) bool {
		if refs := v.Referrers(); refs != nil {
			for _, ref := range *refs {
				if _, dbg := ref.(*ssa.DebugRef); !dbg {
					return true
				}
			}
		}
		return false
	}
	atomicCall := func(ins ssa.Instruction) (*ssa.Call, string) {
		c, ok := ins.(*ssa.Call)
		if !ok {
			return nil, ""
		}
		sc := c.Call.StaticCallee()
		if sc == nil || sc.Pkg == nil || sc.Pkg.Pkg.Path() != "sync/atomic" || len(c.Call.Args) == 0 {
			return nil, ""
		}
		return c, sc.Name()
	}
	counted := map[interface{}]string{} // words that are the target of a read-modify-write → where
	for _, fn := range fns {
		k := 0
		for _, ins := range allInstrs(fn) {
			c, name := atomicCall(ins)
			if c == nil {
				continue
			}
			if strings.HasPrefix(name, "Store") {
				// a flag raised by one goroutine of the query path for the others to see (`failed`):
				// whoever reads it sees it or not depending on who got there first
				counted[wordOf(c.Call.Args[0])] = r.P.pos(c.Pos())
				continue
			}
			if !(strings.HasPrefix(name, "Add") || strings.HasPrefix(name, "Swap") || strings.HasPrefix(name, "CompareAndSwap") || strings.HasPrefix(name, "Or") || strings.HasPrefix(name, "And")) {
				continue
			}
			n++
			k++
			counted[wordOf(c.Call.Args[0])] = r.P.pos(c.Pos())
			key := "result of atomic " + name
			if k > 1 {
				key += "#" + strconv.Itoa(k)
			}
			r.Check(!used(c), rule, fnName(fn), key, r.P.pos(c.Pos()),
				"the shared word is only counted up or down here; the value handed back is not used",
				"the value handed back by an atomic "+name+" on a shared word is used: it depends on the order in which the goroutines got there, so what it decides (which of several concurrent batches is refused, which request is the first) differs from run to run for the same request")
		}
	}
	reads := 0
	if len(counted) > 0 {
		for _, fn := range fns {
			k := 0
			for _, ins := range allInstrs(fn) {
				var v ssa.Value
				var word interface{}
				how := ""
				if c, name := atomicCall(ins); c != nil && strings.HasPrefix(name, "Load") {
					v, word, how = c, wordOf(c.Call.Args[0]), "atomic "+name
				} else if ld, ok := ins.(*ssa.UnOp); ok && ld.Op == token.MUL {
					switch ld.X.(type) {
					case *ssa.FieldAddr, *ssa.Global:
						if _, isBasic := ld.Type().Underlying().(*types.Basic); isBasic {
							v, word, how = ld, wordOf(ld.X), "plain read"
						}
					}
				}
				where, isCounted := counted[word]
				if v == nil || !isCounted {
					continue
				}
				reads++
				k++
				key := "shared word read back"
				if k > 1 {
					key += "#" + strconv.Itoa(k)
				}
				r.Check(!used(v), rule, fnName(fn), key, r.P.pos(ins.Pos()),
					"the value read is not used",
					"a word that is written atomically on the query path ("+where+": counted, or raised as a flag) is read back here ("+how+") and the value is used: it is the value as the other goroutines have left it at that moment, so what it decides (which of several concurrent batches is refused once a budget is used up, whether an answer is still parsed once a sibling has failed) depends on the order in which they got there and differs from run to run for the same request")
			}
		}
	}
	r.OKTrivial(rule, "", "atomic read-modify-write sites", "-", strconv.Itoa(n)+" site(s) on the query path, "+strconv.Itoa(reads)+" read(s) of a word counted there ("+strconv.Itoa(len(onPath))+" functions reachable from the handler)")
}

// maxCloseReason: a control frame carries 125 bytes, two of which are the status code.
const maxCloseReason = 123

// fitsFrame: the string v, returned from block at, has been shown by its function to need no
// crop — or a harmless one — by the library: on every path to at its length in BYTES was tested
// to be at most 123 (or it is a slice with such a bound), and, unless it is text the function
// has not cut itself (a parameter, the result of a call), it was tested to be valid UTF-8
// (utf8.ValidString, or empty), or it is a prefix cut at an index tested with utf8.RuneStart.
func fitsFrame(v ssa.Value, at *ssa.BasicBlock) bool {
	v = unwrap(v)
	fn := at.Parent()
	if fn == nil {
		return false
	}
	defBlock := func(x ssa.Value) *ssa.BasicBlock {
		if ins, ok := x.(ssa.Instruction); ok && ins.Block() != nil {
			return ins.Block()
		}
		return fn.Blocks[0]
	}
	// every path from the (last) definition of x to at crosses an edge on which fact holds
	onEveryPath := func(x ssa.Value, fact func(cond ssa.Value, truth bool) bool) bool {
		start := defBlock(x)
		if start == at {
			return false
		}
		seen := map[*ssa.BasicBlock]bool{start: true}
		work := []*ssa.BasicBlock{start}
		for len(work) > 0 {
			b := work[len(work)-1]
			work = work[:len(work)-1]
			iff, _ := b.Instrs[len(b.Instrs)-1].(*ssa.If)
			for i, s := range b.Succs {
				if iff != nil && len(b.Succs) == 2 && b.Succs[0] != b.Succs[1] {
					cond, truth := iff.Cond, i == 0
					for {
						u, ok := cond.(*ssa.UnOp)
						if !ok || u.Op != token.NOT {
							break
						}
						cond, truth = u.X, !truth
					}
					if fact(cond, truth) {
						continue
					}
				}
				if s == at {
					return false
				}
				if !seen[s] {
					seen[s] = true
					work = append(work, s)
				}
			}
		}
		return true
	}
	// cmpConst: cond compares subject(x) with an integer constant; returns the operator with the
	// subject on the left
	cmpConst := func(cond ssa.Value, subject func(ssa.Value) bool) (token.Token, int64, bool) {
		bo, ok := cond.(*ssa.BinOp)
		if !ok {
			return 0, 0, false
		}
		op, x, y := bo.Op, bo.X, bo.Y
		if subject(y) {
			x, y = y, x
			switch op {
			case token.LSS:
				op = token.GTR
			case token.GTR:
				op = token.LSS
			case token.LEQ:
				op = token.GEQ
			case token.GEQ:
				op = token.LEQ
			}
		}
		k, isK := y.(*ssa.Const)
		if !subject(x) || !isK || k.Value == nil || k.Value.Kind() != constant.Int {
			return 0, 0, false
		}
		c, exact := constant.Int64Val(k.Value)
		return op, c, exact
	}
	// atMost: cond being truth says subject <= bound
	atMost := func(cond ssa.Value, truth bool, subject func(ssa.Value) bool, bound int64) bool {
		op, c, ok := cmpConst(cond, subject)
		if !ok {
			return false
		}
		switch {
		case truth && op == token.LEQ, truth && op == token.EQL, !truth && op == token.GTR:
			return c <= bound
		case truth && op == token.LSS, !truth && op == token.GEQ:
			return c-1 <= bound
		case !truth && op == token.NEQ:
			return c <= bound
		}
		return false
	}
	lenOf := func(x ssa.Value) func(ssa.Value) bool {
		return func(y ssa.Value) bool {
			cl, ok := y.(*ssa.Call)
			if !ok {
				return false
			}
			b, ok := cl.Call.Value.(*ssa.Builtin)
			return ok && b.Name() == "len" && unwrap(cl.Call.Args[0]) == x
		}
	}
	var upper func(x ssa.Value, busy map[ssa.Value]bool) (int64, bool)
	upper = func(x ssa.Value, busy map[ssa.Value]bool) (int64, bool) {
		switch y := x.(type) {
		case *ssa.Const:
			if y.Value != nil && y.Value.Kind() == constant.Int {
				return constant.Int64Val(y.Value)
			}
		case *ssa.Phi:
			if busy[y] {
				return -1 << 62, true // the variable itself, counted down
			}
			busy[y] = true
			defer delete(busy, y)
			best := int64(-1 << 62)
			for _, e := range y.Edges {
				u, ok := upper(e, busy)
				if !ok {
					return 0, false
				}
				if u > best {
					best = u
				}
			}
			return best, true
		case *ssa.BinOp:
			if k, ok := y.Y.(*ssa.Const); ok && y.Op == token.SUB && k.Value != nil && k.Value.Kind() == constant.Int && constant.Sign(k.Value) >= 0 {
				return upper(y.X, busy)
			}
		}
		return 0, false
	}
	// text the function has not cut or put together itself
	var whole func(x ssa.Value, depth int) bool
	whole = func(x ssa.Value, depth int) bool {
		switch y := unwrap(x).(type) {
		case *ssa.Parameter, *ssa.Const:
			return true
		case *ssa.Call:
			_, isBuiltin := y.Call.Value.(*ssa.Builtin)
			return !isBuiltin
		case *ssa.UnOp:
			return y.Op == token.MUL
		case *ssa.Phi:
			if depth > 4 {
				return false
			}
			for _, e := range y.Edges {
				if !whole(e, depth+1) {
					return false
				}
			}
			return true
		}
		return false
	}
	// (1) at most 123 bytes
	short := false
	if sl, ok := v.(*ssa.Slice); ok && sl.High != nil {
		if u, ok := upper(sl.High, map[ssa.Value]bool{}); ok && u <= maxCloseReason {
			short = true
		}
	}
	if !short && !onEveryPath(v, func(cond ssa.Value, truth bool) bool { return atMost(cond, truth, lenOf(v), maxCloseReason) }) {
		return false
	}
	// (2) not cut inside a character
	if whole(v, 0) {
		return true
	}
	validFact := func(cond ssa.Value, truth bool) bool {
		if c, ok := cond.(*ssa.Call); ok && truth && calleeName(&c.Call) == "unicode/utf8.ValidString" && len(c.Call.Args) == 1 && unwrap(c.Call.Args[0]) == v {
			return true
		}
		return atMost(cond, truth, lenOf(v), 0) // the empty text
	}
	if onEveryPath(v, validFact) {
		return true
	}
	if sl, ok := v.(*ssa.Slice); ok && sl.High != nil && whole(sl.X, 0) && (sl.Low == nil || isIntConst(sl.Low, 0)) {
		n := sl.High
		startFact := func(cond ssa.Value, truth bool) bool {
			if c, ok := cond.(*ssa.Call); ok && truth && calleeName(&c.Call) == "unicode/utf8.RuneStart" && len(c.Call.Args) == 1 {
				// s[n] of a string is an Index (a Lookup in older go/ssa)
				switch lk := c.Call.Args[0].(type) {
				case *ssa.Index:
					if unwrap(lk.X) == unwrap(sl.X) && lk.Index == n {
						return true
					}
				case *ssa.Lookup:
					if unwrap(lk.X) == unwrap(sl.X) && lk.Index == n {
						return true
					}
				}
			}
			return atMost(cond, truth, func(y ssa.Value) bool { return y == n }, 0) // cut at the very start
		}
		if _, isConst := n.(*ssa.Const); !isConst && onEveryPath(n, startFact) {
			return true
		}
	}
	return false
}

var outsideFilledMemo = map[*Prog]map[*types.Struct]string{}

// filledFromOutside: t is (a pointer to) a struct that is handed by reference — itself or as
// part of something that holds it — to a function outside the module through an interface
// value: a decoder fills it by reflection (json.Unmarshal(msg, &subMsg)). Returns the callee's
// name, or "". Functions that only format or encode what they are handed are not counted.
func (r *Run) filledFromOutside(t types.Type) string {
	memo, ok := outsideFilledMemo[r.P]
	if !ok {
		memo = map[*types.Struct]string{}
		outsideFilledMemo[r.P] = memo
		var walk func(t types.Type, by string, seen map[types.Type]bool)
		walk = func(t types.Type, by string, seen map[types.Type]bool) {
			if t == nil || seen[t] {
				return
			}
			seen[t] = true
			switch u := t.Underlying().(type) {
			case *types.Pointer:
				walk(u.Elem(), by, seen)
			case *types.Slice:
				walk(u.Elem(), by, seen)
			case *types.Array:
				walk(u.Elem(), by, seen)
			case *types.Map:
				walk(u.Key(), by, seen)
				walk(u.Elem(), by, seen)
			case *types.Struct:
				if _, known := memo[u]; !known {
					memo[u] = by
				}
				for i := 0; i < u.NumFields(); i++ {
					// what a decoder can set: exported fields, for encoding/json those not tagged "-"
					if !u.Field(i).Exported() {
						continue
					}
					if tag, ok := reflect.StructTag(u.Tag(i)).Lookup("json"); ok && tag == "-" && strings.Contains(by, "encoding/json") {
						continue
					}
					walk(u.Field(i).Type(), by, seen)
				}
			}
		}
		for _, fn := range r.P.Funcs {
			for _, ins := range allInstrs(fn) {
				ci, ok := ins.(ssa.CallInstruction)
				if !ok {
					continue
				}
				c := ci.Common()
				if sc := c.StaticCallee(); sc == nil || (inModule(sc) && sc.Blocks != nil) {
					if !c.IsInvoke() {
						continue
					}
				}
				name := calleeName(c)
				if strings.HasPrefix(name, "fmt.") || strings.HasPrefix(name, "log.") || strings.HasPrefix(name, "(*log.Logger)") || strings.HasPrefix(name, "encoding/json.Marshal") {
					continue
				}
				for _, a := range c.Args {
					mi, ok := a.(*ssa.MakeInterface)
					if !ok {
						continue
					}
					switch mi.X.Type().Underlying().(type) {
					case *types.Pointer, *types.Map, *types.Slice:
						walk(mi.X.Type(), strings.TrimPrefix(name, "invoke:"), map[types.Type]bool{})
					}
				}
			}
		}
	}
	st, ok := derefType(t).Underlying().(*types.Struct)
	if !ok {
		return ""
	}
	if by, ok := memo[st]; ok {
		return by
	}
	for k, by := range memo {
		if types.Identical(k, st) {
			return by
		}
	}
	return ""
}

// ruleLoopAlias (R3m.alias): one variable, declared outside a loop, is changed in every round
// of the loop and its ADDRESS is put into a collection in every round (`cpy := *step; for … {
// cpy.InsertionPoint = ip; steps = append(steps, &cpy) }`): all entries of the collection are
// the same object and end up with the values of the last round. Copy-per-element loops of this
// module (a step per insertion point, a request per entity) rely on a fresh copy per round.
func ruleLoopAlias(r *Run) {
	const rule = "R3m.alias"
	n, loops := 0, 0
	for _, fn := range r.P.Funcs {
		if !inModule(fn) {
			continue
		}
		for _, ins := range allInstrs(fn) {
			al, ok := ins.(*ssa.Alloc)
			if !ok || !al.Heap || al.Referrers() == nil {
				continue
			}
			// the rounds that both write the variable and hand out its address
			type use struct{ writes, escapes ssa.Instruction }
			perLoop := map[*ssa.BasicBlock]*use{}
			for _, ref := range *al.Referrers() {
				var wr, esc ssa.Instruction
				switch x := ref.(type) {
				case *ssa.Store:
					if x.Addr == ssa.Value(al) {
						wr = x
					} else if x.Val == ssa.Value(al) {
						esc = x // the pointer itself is stored somewhere (an element of a list, a field)
					}
				case *ssa.FieldAddr:
					if x.Referrers() != nil {
						for _, r2 := range *x.Referrers() {
							if st, ok := r2.(*ssa.Store); ok && st.Addr == ssa.Value(x) {
								wr = st
							}
						}
					}
				}
				for _, at := range []ssa.Instruction{wr, esc} {
					if at == nil {
						continue
					}
					loop := innermostLoop(at.Block())
					for loop != nil {
						if loop[al.Block()] {
							break // declared inside this loop: a fresh variable per round
						}
						var header *ssa.BasicBlock
						for b := range loop {
							for _, p := range b.Preds {
								if !loop[p] {
									header = b
								}
							}
						}
						if header == nil {
							break
						}
						u := perLoop[header]
						if u == nil {
							u = &use{}
							perLoop[header] = u
						}
						if at == wr {
							u.writes = at
						} else {
							u.escapes = at
						}
						// the enclosing loop, if any
						var outer map[*ssa.BasicBlock]bool
						for _, p := range header.Preds {
							if !loop[p] {
								outer = innermostLoop(p)
							}
						}
						loop = outer
					}
				}
			}
			for _, u := range perLoop {
				loops++
				if u.writes == nil || u.escapes == nil {
					continue
				}
				n++
				r.Bad(rule, fnName(fn), "address of "+al.Comment+" collected in a loop that rewrites it", r.P.pos(u.escapes.Pos()),
					"the variable "+al.Comment+" is declared outside the loop, changed in every round ("+r.P.pos(u.writes.Pos())+") and its address is stored in every round: every entry collected is the same object and carries the values of the last round — the copy was meant to be made per round")
			}
		}
	}
	r.OKTrivial(rule, "", "loops checked", "-", strconv.Itoa(loops)+" loop(s) that write or hand out a variable declared outside them; "+strconv.Itoa(n)+" do both")
}

// ruleLastWinsMerge (R3n.merge): maps whose values are LISTS (routed selection sets per service,
// steps per depth) are merged by appending. A last-wins merge of the library (`lo.Assign`,
// `maps.Copy`) replaces the list of a key both maps have: the selections already routed to a
// service are dropped when the grouped node lookups for the same service are merged in.
func ruleLastWinsMerge(r *Run) {
	const rule = "R3n.merge"
	n := 0
	for _, fn := range r.P.Funcs {
		if !inModule(fn) {
			continue
		}
		for _, ins := range allInstrs(fn) {
			ci, ok := ins.(ssa.CallInstruction)
			if !ok {
				continue
			}
			name := strings.SplitN(calleeName(ci.Common()), "[", 2)[0]
			if !(strings.HasSuffix(name, "samber/lo.Assign") || name == "maps.Copy" || strings.HasSuffix(name, "exp/maps.Copy") || name == "maps.Insert") {
				continue
			}
			listValued := false
			var walk func(t types.Type, depth int)
			walk = func(t types.Type, depth int) {
				if depth > 3 || t == nil {
					return
				}
				switch x := t.Underlying().(type) {
				case *types.Map:
					if listOfObjects(x.Elem()) {
						listValued = true
					}
				case *types.Slice:
					walk(x.Elem(), depth+1)
				}
			}
			for _, a := range ci.Common().Args {
				walk(a.Type(), 0)
			}
			if !listValued {
				continue
			}
			n++
			r.Bad(rule, fnName(fn), "last-wins merge of list-valued maps", r.P.pos(ins.Pos()),
				"maps whose values are lists are merged with "+name[strings.LastIndex(name, "/")+1:]+", which keeps only the last map's list for a key both have: the entries of the other list are dropped (root fields already routed to a service vanish when a second group for the same service is merged in); such maps are merged by appending")
		}
	}
	// the same written by hand: `for k, v := range other { m[k] = v }` into a map the function
	// has filled before (a map that receives nothing else is a copy, not a merge)
	for _, fn := range r.P.Funcs {
		if !inModule(fn) {
			continue
		}
		var ups []*ssa.MapUpdate
		for _, ins := range allInstrs(fn) {
			if mu, ok := ins.(*ssa.MapUpdate); ok {
				ups = append(ups, mu)
			}
		}
		for _, mu := range ups {
			mt, ok := mu.Map.Type().Underlying().(*types.Map)
			if !ok || !listOfObjects(mt.Elem()) {
				continue
			}
			ex, ok := unwrap(mu.Value).(*ssa.Extract)
			if !ok {
				continue
			}
			nx, ok := ex.Tuple.(*ssa.Next)
			if !ok || ex.Index != 2 {
				continue
			}
			rng, ok := nx.Iter.(*ssa.Range)
			if !ok || viaCell(unwrap(rng.X)) == viaCell(unwrap(mu.Map)) {
				continue
			}
			if _, isMap := rng.X.Type().Underlying().(*types.Map); !isMap {
				continue
			}
			others := 0
			for _, o := range ups {
				if o != mu && viaCell(unwrap(o.Map)) == viaCell(unwrap(mu.Map)) {
					others++
				}
			}
			_, isParam := viaCell(unwrap(mu.Map)).(*ssa.Parameter)
			if others == 0 && !isParam {
				continue
			}
			n++
			r.Bad(rule, fnName(fn), "last-wins merge of list-valued maps (loop)", r.P.pos(mu.Pos()),
				"the lists of another map are stored key by key into a map that already holds lists (it is filled elsewhere in this function): for a key both have, the earlier list is replaced, not extended — root fields already routed to a service vanish when a second group for the same service is merged in; such maps are merged by appending")
		}
	}
	r.OKTrivial(rule, "", "last-wins merges of list-valued maps", "-", strconv.Itoa(n)+" in the module")
}

// listOfObjects: a slice whose elements are pointers, interfaces or structs (selections, steps,
// requests) — not a list of plain strings or numbers.
func listOfObjects(t types.Type) bool {
	sl, ok := t.Underlying().(*types.Slice)
	if !ok {
		return false
	}
	switch sl.Elem().Underlying().(type) {
	case *types.Pointer, *types.Interface, *types.Struct:
		return true
	}
	return false
}

// ruleAssertedErrorNil (R7.P5.err): an error list decoded from a service's answer may hold null
// entries (`"errors": [null]` is a failure signal like any other), and an entry travels on as a
// non-nil `error` interface that holds a nil *Error. Where such a value is taken out of the
// interface again (`case *Error:`, `e, ok := err.(*Error)`), the pointer may be nil: it may be
// handed on, but a dereference needs a nil test in front of it. The functions concerned run in
// the collector goroutine of the fan-out helper, where a panic ends the process.
func ruleAssertedErrorNil(r *Run) {
	const rule = "R7.P5.err"
	n := 0
	isErrPtr := func(t types.Type) bool {
		pt, ok := t.(*types.Pointer)
		return ok && namedOf(pt.Elem()) == modPath+"/gqlerrors.Error"
	}
	// unguardedDeref: an instruction that dereferences v (a possibly nil *Error) without a nil test
	// in front of it — here, or in a module function v is handed to (as receiver or argument)
	var unguardedDeref func(v ssa.Value, depth int) ssa.Instruction
	unguardedDeref = func(v ssa.Value, depth int) ssa.Instruction {
		refs := v.Referrers()
		if refs == nil || depth > 3 {
			return nil
		}
		for _, ref := range *refs {
			switch x := ref.(type) {
			case *ssa.FieldAddr:
				if x.X == v && !notNilAt(v, ref.Block()) {
					return ref
				}
			case *ssa.UnOp:
				if x.Op == token.MUL && x.X == v && !notNilAt(v, ref.Block()) {
					return ref
				}
			case *ssa.Phi:
				if d := unguardedDeref(x, depth+1); d != nil {
					return d
				}
			case ssa.CallInstruction:
				if notNilAt(v, ref.Block()) {
					continue
				}
				sc := x.Common().StaticCallee()
				if sc == nil || !inModule(sc) || sc.Blocks == nil {
					continue
				}
				for i, a := range x.Common().Args {
					if a == v && i < len(sc.Params) {
						if d := unguardedDeref(sc.Params[i], depth+1); d != nil {
							return d
						}
					}
				}
			}
		}
		return nil
	}
	for _, fn := range r.P.Funcs {
		if !inModule(fn) {
			continue
		}
		k := 0
		judge := func(at ssa.Instruction, vals []ssa.Value, how string) {
			n++
			k++
			key := "error taken out of the interface"
			if k > 1 {
				key += "#" + strconv.Itoa(k)
			}
			var bad ssa.Instruction
			for _, v := range vals {
				if d := unguardedDeref(v, 0); d != nil {
					bad = d
				}
			}
			if bad != nil {
				r.Bad(rule, fnName(fn), key, r.P.pos(bad.Pos()),
					"the *Error taken out of an error interface ("+how+") is dereferenced without a nil test ("+fnName(bad.Parent())+"): a null entry of a service's errors list arrives here as a non-nil error holding a nil pointer, and the dereference panics — in the collector goroutine of the fan-out helper, which takes the process down")
			} else {
				r.OK(rule, fnName(fn), key, r.P.pos(at.Pos()), "the pointer is only handed on, or every dereference (here and in the module functions it is handed to) stands behind a nil test")
			}
		}
		for _, ins := range allInstrs(fn) {
			switch x := ins.(type) {
			case *ssa.TypeAssert:
				if !isErrPtr(x.AssertedType) {
					continue
				}
				var v ssa.Value = x
				if x.CommaOk {
					v = nil
					for _, ref := range *x.Referrers() {
						if ex, ok := ref.(*ssa.Extract); ok && ex.Index == 0 {
							v = ex
						}
					}
					if v == nil {
						continue
					}
				}
				judge(x, []ssa.Value{v}, "a type assertion")
			case *ssa.Call:
				// errors.As(err, &e) with e a *Error: what is loaded from e afterwards
				if calleeName(&x.Call) != "errors.As" || len(x.Call.Args) != 2 {
					continue
				}
				tgt := unwrap(x.Call.Args[1])
				al, ok := tgt.(*ssa.Alloc)
				if !ok {
					continue
				}
				pp, ok := al.Type().(*types.Pointer)
				if !ok || !isErrPtr(pp.Elem()) {
					continue
				}
				var loads []ssa.Value
				for _, ref := range *al.Referrers() {
					if ld, ok := ref.(*ssa.UnOp); ok && ld.Op == token.MUL && ld.X == ssa.Value(al) {
						loads = append(loads, ld)
					}
				}
				judge(x, loads, "errors.As")
			}
		}
	}
	r.AtLeast(rule, "places where a *gqlerrors.Error is taken out of an error interface", n, 1)
}

// ruleRequestContextSent (R13i.ctx): where a queryer gives a downstream request its context
// (`request = request.WithContext(q.ctx)`), the request that is SENT is that one: the value handed
// to the HTTP client is computed from the result of WithContext. WithContext returns a copy; a
// copy kept for the middlewares only leaves the request on the wire with the background context,
// and a service that goes silent while the client has gone away holds the handler for ever.
func ruleRequestContextSent(r *Run) {
	const rule = "R13i.ctx"
	n := 0
	isWithCtx := func(ins ssa.Instruction) *ssa.Call {
		c, ok := ins.(*ssa.Call)
		if ok && calleeName(&c.Call) == "(*net/http.Request).WithContext" {
			return c
		}
		return nil
	}
	// attaches: a function of the module that gives a request its context and hands it back —
	// a WithContext call whose result reaches one of its returns
	attaches := map[*ssa.Function]bool{}
	for _, fn := range r.P.Funcs {
		if !inModule(fn) {
			continue
		}
		for _, ins := range allInstrs(fn) {
			w := isWithCtx(ins)
			if w == nil {
				continue
			}
			for _, ret := range returnsOf(fn) {
				for _, rv := range retVals(ret) {
					if influencers(rv)[w] {
						attaches[fn] = true
					}
				}
			}
		}
	}
	for _, fn := range r.P.Funcs {
		if !inModule(fn) {
			continue
		}
		var sources []ssa.Value // what carries the context in this function
		var sends []ssa.CallInstruction
		for _, ins := range allInstrs(fn) {
			ci, ok := ins.(ssa.CallInstruction)
			if !ok {
				continue
			}
			name := calleeName(ci.Common())
			if w := isWithCtx(ins); w != nil {
				sources = append(sources, w)
			}
			if c, isCall := ins.(*ssa.Call); isCall {
				if sc := c.Call.StaticCallee(); sc != nil && attaches[sc] {
					sources = append(sources, c)
				}
			}
			if familyOf(name) == "(*net/http.Client).Do" || name == "(*net/http.Client).Do" {
				sends = append(sends, ci)
			}
		}
		if len(sources) == 0 || len(sends) == 0 {
			continue
		}
		for _, snd := range sends {
			n++
			var req ssa.Value
			for _, a := range snd.Common().Args {
				if strings.HasSuffix(namedOf(derefType(a.Type())), "net/http.Request") {
					req = a
				}
			}
			good := false
			if req != nil {
				infl := influencers(req)
				for _, w := range sources {
					if infl[w] {
						good = true
					}
				}
			}
			r.Check(good, rule, fnName(fn), "request sent carries the context", r.P.pos(snd.Pos()),
				"the request handed to the HTTP client is computed from the result of WithContext (made here or by the helper that prepares the request)",
				"the function attaches a context to a copy of the request (WithContext returns a copy) but hands the HTTP client a request that is not computed from that copy: the sub-request goes out with the background context, is not aborted when the client goes away or its deadline passes, and a service that has gone silent holds the handler goroutine for ever")
		}
	}
	r.AtLeast(rule, "downstream sends in functions that attach a context", n, 1)
}

// influencers: every value in the backward slice of v (operands, transitively, and what was
// stored into the local cells it was loaded from).
func influencers(v ssa.Value) map[ssa.Value]bool {
	out := map[ssa.Value]bool{}
	var walk func(v ssa.Value, depth int)
	walk = func(v ssa.Value, depth int) {
		if v == nil || out[v] || depth > 40 {
			return
		}
		out[v] = true
		if ins, ok := v.(ssa.Instruction); ok {
			for _, op := range operandsOf(ins) {
				walk(op, depth+1)
			}
		}
		if al, ok := v.(*ssa.Alloc); ok {
			for _, st := range storesTo(al) {
				walk(st.Val, depth+1)
			}
		}
	}
	walk(v, 0)
	return out
}

// ruleMergeGlobalState (R3h.merge): merging is a function of its inputs. Code reachable from
// Merge writes no package-level variable and hands the address of none to a call (a shared
// bytes.Buffer the SDL is printed into, a memo of the last merge): two gateways built at the
// same time — or one after the other — would otherwise see each other's schema text, and whether
// a set of schemas is accepted would depend on what else is being merged.
func ruleMergeGlobalState(r *Run) {
	const rule = "R3h.merge"
	root := r.Anchor(rule, "merger.(ExtendMergerFunc).Merge")
	if root == nil {
		return
	}
	inMod := func(g *ssa.Global) bool {
		return g.Pkg != nil && (g.Pkg.Pkg.Path() == modPath || strings.HasPrefix(g.Pkg.Pkg.Path(), modPath+"/"))
	}
	globalRoot := func(a ssa.Value) *ssa.Global {
		for i := 0; i < 8; i++ {
			switch x := a.(type) {
			case *ssa.FieldAddr:
				a = x.X
			case *ssa.IndexAddr:
				a = x.X
			case *ssa.UnOp:
				if x.Op != token.MUL {
					return nil
				}
				a = x.X
			case *ssa.Global:
				if inMod(x) {
					return x
				}
				return nil
			default:
				return nil
			}
		}
		return nil
	}
	var fns []*ssa.Function
	for fn := range r.P.CG.ReachableAll([]*ssa.Function{root}) {
		if inModule(fn) {
			fns = append(fns, fn)
		}
	}
	sort.Slice(fns, func(i, j int) bool { return fnName(fns[i]) < fnName(fns[j]) })
	n := 0
	for _, fn := range fns {
		for _, ins := range allInstrs(fn) {
			var g *ssa.Global
			what := ""
			switch x := ins.(type) {
			case *ssa.Store:
				if g = globalRoot(x.Addr); g != nil {
					what = "store to"
				}
			case *ssa.MapUpdate:
				if g = globalRoot(x.Map); g != nil {
					what = "map write on"
				}
			case ssa.CallInstruction:
				for _, a := range x.Common().Args {
					gg := globalRoot(a)
					if gg == nil {
						continue
					}
					// the ADDRESS of the variable (or of a part of it) is handed over — a loaded
					// value is a read
					if _, isPtr := a.Type().Underlying().(*types.Pointer); !isPtr {
						continue
					}
					t := namedOf(derefType(a.Type()))
					if _, isLoad := a.(*ssa.UnOp); isLoad {
						// a pointer kept in a package variable: handing it on is a write when
						// what it points to is a buffer, a builder, a pool — an object that exists
						// to be written (a compiled regexp or a table is only read)
						if !(t == "bytes.Buffer" || t == "strings.Builder" || t == "sync.Pool" || t == "sync.Map" || strings.HasPrefix(t, "bufio.") || strings.HasPrefix(t, "container/")) {
							continue
						}
						g, what = gg, "call "+calleeDesc(x.Common())+" on the "+t+" kept in"
						continue
					}
					if strings.HasPrefix(t, "sync.") || strings.HasPrefix(t, "sync/atomic.") {
						continue // a lock or a once guards state, it is not the state
					}
					g, what = gg, "call "+calleeDesc(x.Common())+" with the address of"
				}
			}
			if g == nil {
				continue
			}
			n++
			r.Bad(rule, fnName(fn), what+" package variable "+shortPkg(g.Pkg.Pkg.Path())+"."+g.Name(), r.P.pos(ins.Pos()),
				"code reachable from Merge writes package-level state ("+what+" "+g.Name()+"): it outlives the merge and is shared by merges that run at the same time, so the text or the verdict of one merge can end up in another — whether a set of schemas is accepted then depends on what else is being merged")
		}
	}
	r.OKTrivial(rule, "", "functions reachable from Merge", "-", strconv.Itoa(len(fns))+" functions scanned, "+strconv.Itoa(n)+" write(s) to package-level state")
}

// ruleNilIntoDerefField (R7.P3.store): a pointer field that some function of the module
// dereferences without looking at it first (`ctx.Request.Original.Context()`) is never given a
// nil: no store of a nil constant into it, and no store of a parameter for which a call site of
// the module hands in a nil constant. The reader and the writer each look fine alone.
func ruleNilIntoDerefField(r *Run) {
	const rule = "R7.P3.store"
	isNil := func(v ssa.Value) bool {
		c, ok := v.(*ssa.Const)
		return ok && c.IsNil()
	}
	// fields dereferenced unguarded
	deref := map[*types.Var]string{}
	for _, fn := range r.P.Funcs {
		if !inModule(fn) {
			continue
		}
		for _, ins := range allInstrs(fn) {
			ld, ok := ins.(*ssa.UnOp)
			if !ok || ld.Op != token.MUL {
				continue
			}
			fa, ok := ld.X.(*ssa.FieldAddr)
			if !ok {
				continue
			}
			f := fieldOf(fa)
			if f == nil || f.Pkg() == nil || !strings.HasPrefix(f.Pkg().Path(), modPath) {
				continue
			}
			if _, isPtr := f.Type().Underlying().(*types.Pointer); !isPtr {
				continue
			}
			refs := ld.Referrers()
			if refs == nil {
				continue
			}
			used, looked := false, false
			for _, u := range *refs {
				switch y := u.(type) {
				case *ssa.BinOp:
					if (y.Op == token.EQL || y.Op == token.NEQ) && (isNil(y.X) || isNil(y.Y)) {
						looked = true
					}
				case ssa.CallInstruction:
					c := y.Common()
					if !c.IsInvoke() && len(c.Args) > 0 && c.Args[0] == ssa.Value(ld) && c.Signature().Recv() != nil {
						// a method of another package called on the pointer: it reads the pointee
						if sc := c.StaticCallee(); sc != nil && !inModule(sc) {
							used = true
						}
					}
				case *ssa.FieldAddr:
					if y.X == ssa.Value(ld) {
						used = true
					}
				case *ssa.UnOp:
					if y.Op == token.MUL && y.X == ssa.Value(ld) {
						used = true
					}
				}
			}
			if used && !looked {
				if _, seen := deref[f]; !seen {
					deref[f] = fnName(fn) + " (" + r.P.pos(ld.Pos()) + ")"
				}
			}
		}
	}
	// a field that some function of the module compares with nil is one the code knows to be
	// nil-able (`if req.OperationName != nil { *req.OperationName }` is two loads): not judged
	for _, fn := range r.P.Funcs {
		if !inModule(fn) {
			continue
		}
		for _, ins := range allInstrs(fn) {
			b, ok := ins.(*ssa.BinOp)
			if !ok || (b.Op != token.EQL && b.Op != token.NEQ) || !(isNil(b.X) || isNil(b.Y)) {
				continue
			}
			for _, side := range []ssa.Value{b.X, b.Y} {
				if ld, ok := side.(*ssa.UnOp); ok && ld.Op == token.MUL {
					if fa, ok := ld.X.(*ssa.FieldAddr); ok {
						delete(deref, fieldOf(fa))
					}
				}
			}
		}
	}
	// nilFrom: where a nil comes from when v is a nil constant, a phi with a nil edge, or a
	// parameter for which a call site (up to three levels up) hands in one
	var nilFrom func(fn *ssa.Function, v ssa.Value, depth int) string
	nilFrom = func(fn *ssa.Function, v ssa.Value, depth int) string {
		switch x := v.(type) {
		case *ssa.Const:
			if x.IsNil() {
				return "a nil constant"
			}
		case *ssa.Phi:
			// `var op *T; if … { op = … }; if op == nil { return }`: a value the function itself
			// compares with nil is one it looks at before it stores it
			if refs := x.Referrers(); refs != nil {
				for _, u := range *refs {
					if b, ok := u.(*ssa.BinOp); ok && (b.Op == token.EQL || b.Op == token.NEQ) && (isNil(b.X) || isNil(b.Y)) {
						return ""
					}
				}
			}
			for _, e := range x.Edges {
				if isNil(e) {
					return "a value that is nil on one branch (" + r.P.pos(x.Pos()) + ")"
				}
			}
		case *ssa.Parameter:
			if depth > 3 {
				return ""
			}
			for i, q := range fn.Params {
				if q != x {
					continue
				}
				for _, e := range r.P.CG.In[origin(fn)] {
					if e.Site == nil || e.Caller == nil {
						continue
					}
					a := e.Site.Common().Args
					if i < len(a) {
						if w := nilFrom(e.Caller, a[i], depth+1); w != "" {
							return "the parameter " + x.Name() + ", for which " + fnName(e.Caller) + " (" + r.P.pos(e.Site.Pos()) + ") hands in " + w
						}
					}
				}
			}
		}
		return ""
	}
	n := 0
	for _, fn := range r.P.Funcs {
		if !inModule(fn) {
			continue
		}
		for _, ins := range allInstrs(fn) {
			st, ok := ins.(*ssa.Store)
			if !ok {
				continue
			}
			fa, ok := st.Addr.(*ssa.FieldAddr)
			if !ok {
				continue
			}
			// the zero value spelled out in a literal of an object made here is what leaving the
			// field out would give: which objects reach the reader is not this rule's matter
			if _, fresh := fa.X.(*ssa.Alloc); fresh && isNil(st.Val) {
				continue
			}
			f := fieldOf(fa)
			where, hot := deref[f]
			if f == nil || !hot {
				continue
			}
			n++
			bad := ""
			if w := nilFrom(fn, st.Val, 0); w != "" {
				bad = w + " is stored"
			}
			r.Check(bad == "", rule, fnName(fn), "store into "+f.Name(), r.P.pos(st.Pos()),
				"the field is dereferenced without a test in "+where+"; what is stored here is not a nil constant",
				"the field "+f.Name()+" is dereferenced without a test in "+where+", and here "+bad+": the reader panics (outside every recover when it runs in a goroutine of its own)")
		}
	}
	r.OKTrivial(rule, "", "fields dereferenced unguarded", "-", strconv.Itoa(len(deref))+" pointer field(s) of the module dereferenced without a test, "+strconv.Itoa(n)+" store(s) into them")
}
