package main

// R13i — failure-signal detectors (DESIGN §3 R13i): for each failure signal a service can
// give, a test of the stated kind on the stated value exists on every path before the
// value is used as a success.

import (
	"go/token"
	"go/types"
	"sort"
	"strings"

	"golang.org/x/tools/go/ssa"
)

const respType = modPath + "/requests.Response"

// respFieldRead describes a read of Response.<field>.
type respFieldRead struct {
	ins   ssa.Instruction
	val   ssa.Value
	base  ssa.Value // the struct value or pointer read from
	field string
}

func respReads(fn *ssa.Function) []respFieldRead {
	var out []respFieldRead
	for _, ins := range allInstrs(fn) {
		switch x := ins.(type) {
		case *ssa.Field:
			if namedOf(x.X.Type()) == respType {
				if f := fieldOfVal(x); f != nil {
					out = append(out, respFieldRead{x, x, x.X, f.Name()})
				}
			}
		case *ssa.UnOp:
			if x.Op != token.MUL {
				continue
			}
			if fa, ok := x.X.(*ssa.FieldAddr); ok && namedOf(fa.X.Type()) == respType {
				if f := fieldOf(fa); f != nil {
					out = append(out, respFieldRead{x, x, fa.X, f.Name()})
				}
			}
		}
	}
	return out
}

// onlyUsedAsScrubArg: the value's only uses are arguments of ScrubFields.Clean.
func onlyUsedAsScrubArg(v ssa.Value) bool {
	refs := v.Referrers()
	if refs == nil || len(*refs) == 0 {
		return false
	}
	for _, ref := range *refs {
		ci, ok := ref.(ssa.CallInstruction)
		if !ok {
			return false
		}
		if n := calleeName(ci.Common()); !strings.HasSuffix(n, "planner.ScrubFields).Clean") {
			return false
		}
	}
	return true
}

// ruleErrorsBeforeData: in the listed functions, Response.Data may be used as a result only
// where len(Response.Errors) == 0 is established for the same response, and the failing side
// hands the errors on. The test may sit in the function that uses the data, in a function of the
// module that is asked about the response (`se.isFinal(resp)`, `resp.Err()`), or — when the data
// is used in a helper that is handed the response — around every call of that helper.
func ruleErrorsBeforeData(fnNames ...string) ruleFn {
	return func(r *Run) {
		n := 0
		// every function of the packages the confirmed instances live in: a phase split out
		// of one of them carries the obligation with it
		pkgs := map[string]bool{}
		for _, name := range fnNames {
			if fn := r.Anchor("R13i.errors", name); fn != nil {
				pkgs[topFn(fn).Pkg.Pkg.Path()] = true
			}
		}
		for _, fn := range r.P.Funcs {
			if topFn(fn).Pkg == nil || !pkgs[topFn(fn).Pkg.Pkg.Path()] {
				continue
			}
			name := fnName(fn)
			for _, rd := range respReads(fn) {
				if rd.field != "Data" {
					continue
				}
				if onlyUsedAsScrubArg(rd.val) {
					continue
				}
				// a nil test of Data is not a use
				if refs := rd.val.Referrers(); refs != nil {
					onlyCmp := true
					for _, ref := range *refs {
						if bo, ok := ref.(*ssa.BinOp); !ok || (bo.Op != token.EQL && bo.Op != token.NEQ) {
							onlyCmp = false
						}
					}
					if onlyCmp {
						continue
					}
				}
				n++
				// where the loaded data is used (the load itself may stand before the test:
				// `data, errs := resp.Data, resp.Errors; if len(errs) != 0 { … }; use(data)`)
				useBlocks := []*ssa.BasicBlock{}
				if refs := rd.val.Referrers(); refs != nil {
					for _, ref := range *refs {
						if _, isDbg := ref.(*ssa.DebugRef); isDbg {
							continue
						}
						if bo, ok := ref.(*ssa.BinOp); ok && (bo.Op == token.EQL || bo.Op == token.NEQ) {
							continue
						}
						useBlocks = append(useBlocks, ref.Block())
					}
				}
				if len(useBlocks) == 0 {
					useBlocks = append(useBlocks, rd.ins.Block())
				}
				g := r.errorsGuard(fn, rd.base, useBlocks, 0)
				site := r.P.pos(rd.ins.Pos())
				switch {
				case g.guarded && g.failOK:
					r.OK("R13i.errors", name, "use of Response.Data", site, "dominated by len(Response.Errors) == 0 on the same response"+g.where+"; the non-empty side returns/forwards the errors")
				case g.guarded:
					r.Bad("R13i.errors", name, "use of Response.Data", site, "errors of the response are tested but the failing side does not hand them on")
				case g.overwritten != "":
					r.Bad("R13i.errors", name, "use of Response.Data", site, "the error list that is tested before the data of a downstream response is used is not the one the service sent: a store into Response.Errors at "+g.overwritten+" can run before the test (errors dropped there no longer stop the data from being used as a success)")
				default:
					r.Bad("R13i.errors", name, "use of Response.Data", site, "the data of a downstream response is used as a result on a path where its `errors` may be non-empty: service errors are masked (the test must be `len(resp.Errors) != 0` alone, on the same response)")
				}
			}
		}
		r.AtLeast("R13i.errors", "uses of Response.Data as a result", n, len(fnNames))
	}
}

type errorsGuard struct {
	guarded, failOK bool
	where           string // says where the test is when it is not in the function itself
	overwritten     string // position of a store into the Errors of the response ahead of its test
}

// errorsStoredBefore: a store into the Errors field of a response that may be `base`, which
// the reading instruction `read` does not dominate and which the read can follow: the list that
// is read can be the stored one, not the one the service sent. A Response allocated in this function and not `base` itself is
// another object.
func errorsStoredBefore(fn *ssa.Function, base ssa.Value, read ssa.Instruction) *ssa.Store {
	for _, ins := range allInstrs(fn) {
		st, ok := ins.(*ssa.Store)
		if !ok {
			continue
		}
		fa, ok := st.Addr.(*ssa.FieldAddr)
		if !ok || namedOf(fa.X.Type()) != respType || fieldOf(fa) == nil || fieldOf(fa).Name() != "Errors" {
			continue
		}
		if al, isAlloc := fa.X.(*ssa.Alloc); isAlloc && ssa.Value(al) != base && ssa.Value(al) != viaCell(base) && ssa.Value(al) != unwrap(base) {
			// the cell a loaded struct value was read from is the same object
			if ld, ok := base.(*ssa.UnOp); !ok || ld.Op != token.MUL || ld.X != ssa.Value(al) {
				continue
			}
		}
		if instrDominates(read, st) {
			continue
		}
		// and the store can be followed by the read
		if sb, rb := st.Block(), read.Block(); !(sb == rb && instrIdx(st) < instrIdx(read)) && !blockReach(sb)[rb] {
			continue
		}
		return st
	}
	return nil
}

// errorsGuard: do the blocks `uses` of fn lie on the "no errors" side of a test of the Errors
// of the response `base`?
func (r *Run) errorsGuard(fn *ssa.Function, base ssa.Value, useBlocks []*ssa.BasicBlock, depth int) errorsGuard {
	var g errorsGuard
	reads := respReads(fn)
	coversUses := func(side *ssa.BasicBlock) bool {
		for _, ub := range useBlocks {
			if !(side == ub || side.Dominates(ub)) {
				return false
			}
		}
		return true
	}
	// the argument a call hands the response in: the response itself, or — for a function that
	// takes it by value — what its pointer points to
	isResp := func(a ssa.Value) bool {
		a = unwrap(a)
		if sameBase(a, base) {
			return true
		}
		if ld, ok := a.(*ssa.UnOp); ok && ld.Op == token.MUL && sameBase(ld.X, base) {
			return true
		}
		return false
	}
	// a predicate of the module that is handed the response and answers false only
	// when its error list is empty (`if se.isFinal(resp) { return resp }`)
	for _, i2 := range allInstrs(fn) {
		iff, ok := i2.(*ssa.If)
		if !ok {
			continue
		}
		cond, okSide, failSide := iff.Cond, iff.Block().Succs[1], iff.Block().Succs[0]
		if u, ok := cond.(*ssa.UnOp); ok && u.Op == token.NOT {
			cond, okSide, failSide = u.X, failSide, okSide
		}
		call, ok := cond.(*ssa.Call)
		if !ok {
			continue
		}
		sc := call.Call.StaticCallee()
		if sc == nil || !inModule(sc) || sc.Blocks == nil {
			continue
		}
		for ai, a := range call.Call.Args {
			if !isResp(a) || ai >= len(sc.Params) {
				continue
			}
			if falseOnlyWhenNoErrors(sc, sc.Params[ai]) && len(okSide.Preds) == 1 && coversUses(okSide) {
				if st := errorsStoredBefore(fn, base, call); st != nil {
					g.overwritten = r.P.pos(st.Pos())
					continue
				}
				g.guarded = true
				if handsOnResponse(failSide, base) {
					g.failOK = true
				}
			}
		}
	}
	// a function of the module that is handed the response and answers with an error which is
	// nil only when the error list is empty (`if err := resp.Err(); err != nil { return nil, err }`)
	for _, i2 := range allInstrs(fn) {
		call, ok := i2.(*ssa.Call)
		if !ok || !types.Identical(call.Type(), types.Universe.Lookup("error").Type()) {
			continue
		}
		sc := call.Call.StaticCallee()
		if sc == nil {
			continue
		}
		d := r.P.declared(sc)
		if d == nil || !inModule(d) || d.Blocks == nil {
			continue
		}
		for ai, a := range call.Call.Args {
			if !isResp(a) || ai >= len(d.Params) || !nilOnlyWhenNoErrors(d, d.Params[ai]) {
				continue
			}
			for _, t := range failureTests(call) {
				if len(t.ok.Preds) != 1 || !coversUses(t.ok) {
					continue
				}
				if st := errorsStoredBefore(fn, base, call); st != nil {
					g.overwritten = r.P.pos(st.Pos())
					continue
				}
				g.guarded = true
				g.where = " (asked through " + fnName(d) + ", which answers nil only for an empty list)"
				if sw, _ := r.swallowedWith(call, t, base); !sw {
					g.failOK = true
				}
			}
		}
	}
	for _, er := range reads {
		if er.field != "Errors" || !sameBase(er.base, base) {
			continue
		}
		for _, t := range failureTests(er.val) {
			// `errors` decoded from JSON may be `[]`: a nil test is not the length test
			if bo, ok := t.iff.Cond.(*ssa.BinOp); ok && (isNilConst(bo.X) || isNilConst(bo.Y)) {
				continue
			}
			if st := errorsStoredBefore(fn, er.base, er.ins); st != nil {
				if len(t.ok.Preds) == 1 && coversUses(t.ok) {
					g.overwritten = r.P.pos(st.Pos())
				}
				continue
			}
			if len(t.ok.Preds) == 1 && coversUses(t.ok) {
				g.guarded = true
				if sw, _ := r.swallowedWith(er.val, t, base); !sw {
					g.failOK = true
				}
			}
			// the test may be folded into a named condition (`hasData := len(errs) == 0 &&
			// data != nil; if !hasData { return resp }`): the use is guarded by a branch on
			// a boolean that can only be true after the success side of the test was taken
			if !g.guarded && len(t.ok.Preds) == 1 {
				for _, i2 := range allInstrs(fn) {
					iff, ok := i2.(*ssa.If)
					if !ok {
						continue
					}
					cond, side := iff.Cond, iff.Block().Succs[0]
					if u, ok := cond.(*ssa.UnOp); ok && u.Op == token.NOT {
						cond, side = u.X, iff.Block().Succs[1]
					}
					if len(side.Preds) != 1 || !coversUses(side) {
						continue
					}
					if trueOnlyAfter(cond, t.ok, 0) {
						g.guarded = true
						// the other side of this branch is where a failing response goes
						other := iff.Block().Succs[0]
						if other == side {
							other = iff.Block().Succs[1]
						}
						if handsOnResponse(other, base) {
							g.failOK = true
						}
					}
				}
			}
		}
	}
	if g.guarded || depth >= 2 {
		return g
	}
	// the data is used in a helper that is handed the response: the test stands around every
	// call of the helper
	p, isParam := unwrap(base).(*ssa.Parameter)
	if !isParam || p.Parent() != fn {
		return g
	}
	pi := -1
	for i, q := range fn.Params {
		if q == p {
			pi = i
		}
	}
	edges := r.P.CG.In[fn]
	if pi < 0 || len(edges) == 0 {
		return g
	}
	all := errorsGuard{guarded: true, failOK: true}
	var callers []string
	for _, e := range edges {
		c, isCall := e.Site.(*ssa.Call)
		if !isCall || e.Kind != "static" || pi >= len(c.Call.Args) {
			return g
		}
		cg := r.errorsGuard(e.Caller, unwrap(c.Call.Args[pi]), []*ssa.BasicBlock{c.Block()}, depth+1)
		if !cg.guarded {
			if cg.overwritten != "" {
				g.overwritten = cg.overwritten
			}
			return g
		}
		all.failOK = all.failOK && cg.failOK
		callers = append(callers, fnName(e.Caller))
	}
	sort.Strings(callers)
	all.where = " (the test stands in " + strings.Join(callers, ", ") + ", around every call that hands the response in)"
	return all
}

// nilOnlyWhenNoErrors: the function (handed a response, returning an error) can answer nil only
// after the "no errors" side of a length test of that response's Errors was taken; every other
// return hands back a value wrapped into the error interface, which is never nil.
func nilOnlyWhenNoErrors(f *ssa.Function, param *ssa.Parameter) bool {
	if f.Signature.Results().Len() != 1 {
		return false
	}
	for _, rd := range respReads(f) {
		if rd.field != "Errors" || unwrap(rd.base) != ssa.Value(param) && !loadOfParamCell(rd.base, param) {
			continue
		}
		for _, t := range failureTests(rd.val) {
			if bo, ok := t.iff.Cond.(*ssa.BinOp); ok && (isNilConst(bo.X) || isNilConst(bo.Y)) {
				continue
			}
			if len(t.ok.Preds) != 1 {
				continue
			}
			if errorsStoredBefore(f, rd.base, rd.ins) != nil {
				continue
			}
			all := true
			for _, ret := range returnsOf(f) {
				v := retVals(ret)[0]
				if _, isMI := v.(*ssa.MakeInterface); isMI {
					continue
				}
				if b := ret.Block(); !(b == t.ok || t.ok.Dominates(b)) {
					all = false
				}
			}
			if all {
				return true
			}
		}
	}
	return false
}

// loadOfParamCell: base is the cell a by-value parameter was spilled into (or a load of it).
func loadOfParamCell(base ssa.Value, param *ssa.Parameter) bool {
	if ld, ok := base.(*ssa.UnOp); ok && ld.Op == token.MUL {
		base = ld.X
	}
	al, ok := base.(*ssa.Alloc)
	if !ok {
		return false
	}
	sts := storesTo(al)
	return len(sts) == 1 && sts[0].Val == ssa.Value(param)
}

func sameBase(a, b ssa.Value) bool {
	if a == b {
		return true
	}
	// the same element of the same list, read twice (`resps[i].Errors … resps[i].Data`): same
	// list value, same index value, and the function never stores into an element of that list
	elem := func(v ssa.Value) *ssa.IndexAddr {
		if u, ok := v.(*ssa.UnOp); ok && u.Op == token.MUL {
			v = u.X // a list of pointers: the element is loaded
		}
		ia, _ := v.(*ssa.IndexAddr)
		return ia
	}
	_, la := a.(*ssa.UnOp)
	_, lb := b.(*ssa.UnOp)
	if la == lb {
		ia, ib := elem(a), elem(b)
		if ia != nil && ib != nil && ia.X == ib.X && ia.Index == ib.Index {
			for _, ins := range allInstrs(ia.Parent()) {
				if st, ok := ins.(*ssa.Store); ok {
					// the element as a whole, or one of its fields (`resps[i].Errors = …`)
					addr := st.Addr
					for {
						fa, ok := addr.(*ssa.FieldAddr)
						if !ok {
							break
						}
						addr = fa.X
					}
					if w, ok := addr.(*ssa.IndexAddr); ok && w.X == ia.X {
						return false
					}
				}
			}
			return true
		}
	}
	return sameValue(a, b)
}

// ruleStatusCheck: sendRequest returns success only after the HTTP status was compared
// against both bounds. The error it returns may be the result of a helper of the module that
// is handed the status code (or the response): `return body, checkStatus(resp.StatusCode)` —
// then the nil returns of that helper are the success returns, and each of them lies behind
// the comparisons inside the helper.
func ruleStatusCheck(r *Run) {
	const rule = "R13i.status"
	name := "queryer.(*MultiOpQueryer).sendRequest"
	fn := r.Anchor(rule, name)
	if fn == nil {
		return
	}
	isStatusLoad := func(v ssa.Value) bool {
		ld, ok := v.(*ssa.UnOp)
		if !ok || ld.Op != token.MUL {
			return false
		}
		fa, ok := ld.X.(*ssa.FieldAddr)
		if !ok {
			return false
		}
		f := fieldOf(fa)
		return f != nil && f.Name() == "StatusCode" && namedOf(fa.X.Type()) == "net/http.Response"
	}
	// what a set of comparisons says about the status: a lower bound of 200, an upper bound of
	// 299 (written with either neighbour constant), or the hundreds digit compared with 2
	type facts struct{ lower, upper, div bool }
	scan := func(f *ssa.Function, isStatus func(ssa.Value) bool, only ssa.Value) facts {
		var out facts
		for _, ins := range allInstrs(f) {
			bo, ok := ins.(*ssa.BinOp)
			if !ok || (only != nil && ssa.Value(bo) != only) {
				continue
			}
			x, y, op := bo.X, bo.Y, bo.Op
			if _, isC := x.(*ssa.Const); isC {
				x, y = y, x
				switch op {
				case token.LSS:
					op = token.GTR
				case token.GTR:
					op = token.LSS
				case token.LEQ:
					op = token.GEQ
				case token.GEQ:
					op = token.LEQ
				}
			}
			switch {
			case isStatus(x) && isIntConst(y, 200) && (op == token.LSS || op == token.GEQ),
				isStatus(x) && isIntConst(y, 199) && (op == token.LEQ || op == token.GTR):
				out.lower = true
			case isStatus(x) && isIntConst(y, 299) && (op == token.GTR || op == token.LEQ),
				isStatus(x) && isIntConst(y, 300) && (op == token.GEQ || op == token.LSS):
				out.upper = true
			}
			if q, ok := x.(*ssa.BinOp); ok && q.Op == token.QUO && isStatus(q.X) && isIntConst(q.Y, 100) && isIntConst(y, 2) && (op == token.EQL || op == token.NEQ) {
				out.div = true
			}
		}
		return out
	}
	// statusOfParam: how a function of the module that is handed `a` as its i-th argument sees
	// the status: the parameter itself (a is the status code), or the StatusCode of the
	// parameter (a is the response)
	statusOfParam := func(callee *ssa.Function, i int, a ssa.Value, isStatus func(ssa.Value) bool) func(ssa.Value) bool {
		if i >= len(callee.Params) {
			return nil
		}
		param := callee.Params[i]
		switch {
		case isStatus(a):
			return func(v ssa.Value) bool { return v == ssa.Value(param) }
		case strings.HasSuffix(a.Type().String(), "net/http.Response"):
			return func(v ssa.Value) bool {
				ld, ok := v.(*ssa.UnOp)
				if !ok || ld.Op != token.MUL {
					return false
				}
				fa, ok := ld.X.(*ssa.FieldAddr)
				return ok && fieldOf(fa) != nil && fieldOf(fa).Name() == "StatusCode" && fa.X == ssa.Value(param)
			}
		}
		return nil
	}
	type test struct {
		iff *ssa.If
		f   facts
	}
	// check looks at the success returns of f (f is sendRequest, or a helper whose result
	// sendRequest returns as its error) and answers how many it saw.
	var check func(f *ssa.Function, isStatus func(ssa.Value) bool, depth int) int
	check = func(f *ssa.Function, isStatus func(ssa.Value) bool, depth int) int {
		fname := name
		if f != fn {
			fname = fnName(f)
		}
		// the branches of f that test the status: directly, or through a predicate of the
		// module that is handed the status code or the response
		var tests []test
		for _, ins := range allInstrs(f) {
			iff, ok := ins.(*ssa.If)
			if !ok {
				continue
			}
			cond := iff.Cond
			if u, ok := cond.(*ssa.UnOp); ok && u.Op == token.NOT {
				cond = u.X
			}
			switch c := cond.(type) {
			case *ssa.BinOp:
				if fc := scan(f, isStatus, c); fc.lower || fc.upper || fc.div {
					tests = append(tests, test{iff, fc})
				}
			case *ssa.Call:
				pred := c.Call.StaticCallee()
				if pred == nil || !inModule(pred) || pred.Blocks == nil {
					continue
				}
				for i, a := range c.Call.Args {
					if st := statusOfParam(pred, i, a, isStatus); st != nil {
						tests = append(tests, test{iff, scan(pred, st, nil)})
					}
				}
			}
		}
		nSucc := 0
		for _, ret := range returnsOf(f) {
			success := true
			for i, res := range retVals(ret) {
				if !isErrorish(f.Signature.Results().At(i).Type()) || isNilConst(unwrap(res)) {
					continue
				}
				success = false
				// the error is worked out from the status by a helper of the module: its nil
				// returns are success returns of sendRequest
				call, ok := unwrap(res).(*ssa.Call)
				if !ok || depth >= 2 {
					continue
				}
				h := call.Call.StaticCallee()
				if h == nil || !inModule(h) || h.Blocks == nil || h.Signature.Results().Len() != 1 {
					continue
				}
				for k, a := range call.Call.Args {
					if st := statusOfParam(h, k, a, isStatus); st != nil {
						nSucc += check(h, st, depth+1)
						break
					}
				}
			}
			if !success {
				continue
			}
			nSucc++
			var have facts
			for _, t := range tests {
				for _, s := range t.iff.Block().Succs {
					if len(s.Preds) == 1 && (s == ret.Block() || s.Dominates(ret.Block())) {
						have.lower = have.lower || t.f.lower
						have.upper = have.upper || t.f.upper
						have.div = have.div || t.f.div
					}
				}
			}
			site := r.P.pos(retPos(ret))
			switch {
			case (have.lower && have.upper) || have.div:
				r.OK(rule, fname, "success return", site, "dominated by a test of the HTTP status against both ends of the 2xx range (200 and 299/300, or status/100 == 2)")
			case f == fn:
				r.Bad(rule, fname, "success return", site, "sendRequest can report success without having compared resp.StatusCode against both ends of the 2xx range (200 below, 299 above): a non-2xx answer would be treated as a result")
			default:
				r.Bad(rule, fname, "success return", site, "sendRequest returns the result of "+fname+" as its error, and "+fname+" can return nil on a path that is not decided by comparisons of the status code it is handed with both ends of the 2xx range (200 below, 299 above): a non-2xx answer would be treated as a result")
			}
		}
		return nSucc
	}
	r.AtLeast(rule, "success returns of sendRequest", check(fn, isStatusLoad, 0), 1)
	// and the error of client.Do itself is covered by R6
}

// isAnswerList: []requests.Response, named (requests.Responses) or not.
func isAnswerList(t types.Type) bool {
	sl, ok := t.Underlying().(*types.Slice)
	return ok && strings.HasSuffix(namedOf(sl.Elem()), "requests.Response")
}

func isEqNeq(i *ssa.If) bool {
	bo, ok := i.Cond.(*ssa.BinOp)
	return ok && (bo.Op == token.EQL || bo.Op == token.NEQ)
}

// ruleCountCheck: the answers of Queryer.Query are consumed positionally only after their
// number was compared with the number of requests sent.
func ruleCountCheck(r *Run) {
	const rule = "R13i.count"
	// every executor function that invokes Queryer.Query (today: executeRequests)
	n := 0
	for _, fn := range r.P.Funcs {
		if topFn(fn).Pkg == nil || shortPkg(topFn(fn).Pkg.Pkg.Path()) != "executor" {
			continue
		}
		n += r.countCheckIn(fn)
	}
	r.AtLeast(rule, "Queryer.Query calls in the executor", n, 1)
	// the queryer's side of the same bargain: what it hands the executor is a list preallocated
	// to the number of requests, so the executor's comparison cannot see a short answer — the
	// decoded answer list of a fetch has to be compared with the number of requests fetched
	// before it is ranged or indexed (repair c3dec22)
	m := 0
	for _, fn := range r.P.Funcs {
		if topFn(fn).Pkg == nil || shortPkg(topFn(fn).Pkg.Pkg.Path()) != "queryer" {
			continue
		}
		for _, ins := range allInstrs(fn) {
			call, ok := ins.(*ssa.Call)
			if !ok {
				continue
			}
			sc := call.Call.StaticCallee()
			if sc == nil || !inModule(sc) || sc == fn {
				continue
			}
			var resps ssa.Value
			if call.Referrers() != nil {
				for _, ref := range *call.Referrers() {
					if ex, ok := ref.(*ssa.Extract); ok && isAnswerList(ex.Type()) {
						resps = ex
					}
				}
			}
			if isAnswerList(call.Type()) {
				resps = call
			}
			if resps == nil || resps.Referrers() == nil {
				continue
			}
			// positional uses (a range over it, an index into it) here, or in a function of the
			// module the list is handed to (`q.placeResponses(results, indexes, resps)`): the
			// comparison has to stand in front of them in the function that uses the list
			type useSite struct {
				in   *ssa.Function
				list ssa.Value
				uses []ssa.Instruction
			}
			var sites []useSite
			var collect func(in *ssa.Function, list ssa.Value, depth int)
			collect = func(in *ssa.Function, list ssa.Value, depth int) {
				if list.Referrers() == nil || depth > 2 {
					return
				}
				us := useSite{in: in, list: list}
				for _, ref := range *list.Referrers() {
					switch x := ref.(type) {
					case *ssa.IndexAddr, *ssa.Index, *ssa.Range:
						us.uses = append(us.uses, x)
					case ssa.CallInstruction:
						callee := x.Common().StaticCallee()
						if callee == nil || !inModule(callee) || callee.Blocks == nil {
							continue
						}
						for ai, a := range x.Common().Args {
							if a == list && ai < len(callee.Params) {
								collect(callee, callee.Params[ai], depth+1)
							}
						}
					}
				}
				if len(us.uses) > 0 {
					sites = append(sites, us)
				}
			}
			collect(fn, resps, 0)
			for _, us := range sites {
				m++
				var eqSide *ssa.BasicBlock
				for _, i2 := range allInstrs(us.in) {
					iff, ok := i2.(*ssa.If)
					if !ok {
						continue
					}
					bo, ok := iff.Cond.(*ssa.BinOp)
					if !ok || (bo.Op != token.EQL && bo.Op != token.NEQ) {
						continue
					}
					lenOfList := func(v ssa.Value, same bool) bool {
						c, ok := v.(*ssa.Call)
						if !ok {
							return false
						}
						b, ok := c.Call.Value.(*ssa.Builtin)
						return ok && b.Name() == "len" && (unwrap(c.Call.Args[0]) == us.list) == same
					}
					if (lenOfList(bo.X, true) && lenOfList(bo.Y, false)) || (lenOfList(bo.Y, true) && lenOfList(bo.X, false)) {
						if bo.Op == token.NEQ {
							eqSide = iff.Block().Succs[1]
						} else {
							eqSide = iff.Block().Succs[0]
						}
					}
				}
				good := eqSide != nil && len(eqSide.Preds) == 1
				at := call.Pos()
				if good {
					for _, u := range us.uses {
						if !(eqSide == u.Block() || eqSide.Dominates(u.Block())) {
							good = false
							at = u.Pos()
						}
					}
				}
				r.Check(good, rule, fnName(us.in), "decoded answers consumed after count check", r.P.pos(at),
					"every positional use of the decoded answer list is dominated by a comparison of its length with the number of requests sent",
					"the answer list a service sent back is ranged or indexed without its length having been compared with the number of requests sent: a short (or long) answer is placed silently — the result list handed to the executor is preallocated to the number of requests, so the executor's own count check cannot see it, and a step's fields vanish from the data without an error")
			}
		}
	}
	r.AtLeast(rule, "decoded answer lists consumed positionally in the queryer", m, 1)
}

func (r *Run) countCheckIn(fn *ssa.Function) int {
	const rule = "R13i.count"
	name := fnName(fn)
	n := 0
	// the same list: the same SSA value, or two loads of one field that fn never writes
	sameList := func(a, b ssa.Value) bool {
		a, b = unwrap(a), unwrap(b)
		if a == b {
			return true
		}
		if ua, ok := a.(*ssa.UnOp); ok && ua.Op == token.MUL {
			if fa, ok := ua.X.(*ssa.FieldAddr); ok && !fieldWrittenIn(fn, fa) {
				return sameValue(a, b)
			}
		}
		return false
	}
	for _, ins := range allInstrs(fn) {
		call, ok := ins.(*ssa.Call)
		if !ok || !call.Call.IsInvoke() || call.Call.Method.Name() != "Query" || !strings.HasSuffix(calleeName(&call.Call), "queryer.Queryer).Query") {
			continue
		}
		n++
		var resps ssa.Value
		for _, ref := range *call.Referrers() {
			if ex, ok := ref.(*ssa.Extract); ok && ex.Index == 0 {
				resps = ex
			}
		}
		req := call.Call.Args[0]
		if resps == nil {
			r.Bad(rule, name, "Query result", r.P.pos(call.Pos()), "the responses of Queryer.Query are not used")
			continue
		}
		// find the If comparing len(resps) with len(req)
		var eqSide *ssa.BasicBlock
		for _, i2 := range allInstrs(fn) {
			iff, ok := i2.(*ssa.If)
			if !ok {
				continue
			}
			bo, ok := iff.Cond.(*ssa.BinOp)
			if !ok {
				continue
			}
			lenOf := func(v, of ssa.Value) bool {
				c, ok := v.(*ssa.Call)
				if !ok {
					return false
				}
				b, ok := c.Call.Value.(*ssa.Builtin)
				return ok && b.Name() == "len" && sameList(c.Call.Args[0], of)
			}
			if (lenOf(bo.X, resps) && lenOf(bo.Y, req)) || (lenOf(bo.Y, resps) && lenOf(bo.X, req)) {
				if bo.Op == token.NEQ {
					eqSide = iff.Block().Succs[1]
				} else if bo.Op == token.EQL {
					eqSide = iff.Block().Succs[0]
				}
			}
		}
		// every other use of resps must be dominated by eqSide
		ok2 := eqSide != nil && len(eqSide.Preds) == 1
		var badUse ssa.Instruction
		if ok2 {
			for _, ref := range *resps.Referrers() {
				if c, isCall := ref.(*ssa.Call); isCall {
					if b, isB := c.Call.Value.(*ssa.Builtin); isB && b.Name() == "len" {
						continue
					}
				}
				if !(eqSide == ref.Block() || eqSide.Dominates(ref.Block())) {
					ok2 = false
					badUse = ref
				}
			}
		}
		if ok2 {
			r.OK(rule, name, "responses consumed after count check", r.P.pos(call.Pos()), "every use of the response list is dominated by len(resps) == len(batchRequest)")
		} else {
			at := r.P.pos(call.Pos())
			if badUse != nil {
				at = r.P.pos(badUse.Pos())
			}
			r.Bad(rule, name, "responses consumed after count check", at, "the response list of Queryer.Query is indexed/ranged without first comparing its length with the number of requests sent: a short or long answer is not detected")
		}
	}
	return n
}

// ruleNodeChecks: in parseRespones, the `node` entry is looked up with comma-ok and both
// the presence test and the type test lead to an error return.
func ruleNodeChecks(r *Run) {
	const rule = "R13i.node"
	top := r.Anchor(rule, "executor.(*DepthExecutor).parseRespones")
	if top == nil {
		return
	}
	// the unwrapping may sit in the per-response closure or in a helper it calls: look at
	// every executor function reachable from parseRespones; a helper reports the failure
	// through its own error result, whose propagation by the caller is R6's obligation
	var region []*ssa.Function
	for g := range r.P.CG.Reachable([]*ssa.Function{top}, nil) {
		if topFn(g).Pkg == topFn(top).Pkg {
			region = append(region, g)
		}
	}
	sort.Slice(region, func(i, j int) bool { return fnName(region[i]) < fnName(region[j]) })
	nLookup, nAssert := 0, 0
	for _, fn := range region {
		a, b := r.nodeChecksIn(fn)
		nLookup += a
		nAssert += b
	}
	r.AtLeast(rule, "node lookups", nLookup, 1)
	r.AtLeast(rule, "node type assertions", nAssert, 1)
}

// isNodeValue: v is the value read from a map under the constant key "node".
func isNodeValue(v ssa.Value) bool {
	v = unwrap(v)
	if ex, ok := v.(*ssa.Extract); ok {
		v = ex.Tuple
	}
	lk, ok := v.(*ssa.Lookup)
	if !ok {
		return false
	}
	c, isConst := lk.Index.(*ssa.Const)
	return isConst && c.Value != nil && c.Value.ExactString() == `"node"`
}

func (r *Run) nodeChecksIn(fn *ssa.Function) (int, int) {
	const rule = "R13i.node"
	name := fnName(fn)
	hasErr := func(ret *ssa.Return) bool {
		for i, res := range retVals(ret) {
			if isErrorish(fn.Signature.Results().At(i).Type()) && !isNilConst(unwrap(res)) {
				return true
			}
		}
		return false
	}
	// failing side of a bool `ok`: every path returns an error
	okGuard := func(okv ssa.Value) (bool, string) {
		for _, ref := range *okv.Referrers() {
			iff, isIf := ref.(*ssa.If)
			if !isIf {
				continue
			}
			fail := iff.Block().Succs[1]
			good, bad := mustPass(fail, 0, func(i ssa.Instruction) bool {
				ret, isRet := i.(*ssa.Return)
				return isRet && hasErr(ret)
			})
			if good {
				return true, ""
			}
			_ = bad
			return false, "the `!ok` side does not return an error on every path"
		}
		return false, "the ok result is not branched on"
	}
	nLookup, nAssert := 0, 0
	for _, ins := range allInstrs(fn) {
		switch x := ins.(type) {
		case *ssa.Lookup:
			c, isConst := x.Index.(*ssa.Const)
			if !isConst || c.Value == nil || c.Value.ExactString() != `"node"` {
				continue
			}
			nLookup++
			if !x.CommaOk {
				r.Bad(rule, name, `lookup "node"`, r.P.pos(x.Pos()), "the node entry is read without comma-ok: a missing node key is indistinguishable from a null node")
				continue
			}
			var okv ssa.Value
			for _, ref := range *x.Referrers() {
				if ex, ok := ref.(*ssa.Extract); ok && ex.Index == 1 {
					okv = ex
				}
			}
			if okv == nil {
				r.Bad(rule, name, `lookup "node"`, r.P.pos(x.Pos()), "presence of the node key is not tested")
				continue
			}
			if good, why := okGuard(okv); good {
				r.OK(rule, name, `lookup "node"`, r.P.pos(x.Pos()), "a missing node key returns an error")
			} else {
				r.Bad(rule, name, `lookup "node"`, r.P.pos(x.Pos()), "missing node key: "+why)
			}
		case *ssa.TypeAssert:
			if _, isMap := x.AssertedType.Underlying().(*types.Map); !isMap || !x.CommaOk || !isNodeValue(x.X) {
				continue
			}
			nAssert++
			var okv ssa.Value
			for _, ref := range *x.Referrers() {
				if ex, ok := ref.(*ssa.Extract); ok && ex.Index == 1 {
					okv = ex
				}
			}
			if okv == nil {
				r.Bad(rule, name, "node type assertion", r.P.pos(x.Pos()), "the type of node is asserted but the outcome is ignored")
				continue
			}
			if good, why := okGuard(okv); good {
				r.OK(rule, name, "node type assertion", r.P.pos(x.Pos()), "a node that is not an object returns an error")
			} else {
				r.Bad(rule, name, "node type assertion", r.P.pos(x.Pos()), "mistyped node: "+why)
			}
		}
	}
	return nLookup, nAssert
}

// ruleBodyClosed (R5.body): after a successful (*http.Client).Do the response body is closed on
// every path to a return — directly or by a defer registered before that return. A path that
// skips the close keeps the connection out of the pool; with a bounded pool a handful of such
// answers (non-2xx, unreadable body) hang every later sub-request to that service.
func ruleBodyClosed(r *Run) {
	const rule = "R5.body"
	n := 0
	for _, fn := range r.P.Funcs {
		if topFn(fn).Pkg == nil || shortPkg(topFn(fn).Pkg.Pkg.Path()) != "queryer" {
			continue
		}
		for _, ins := range allInstrs(fn) {
			call, ok := ins.(*ssa.Call)
			if !ok || calleeName(&call.Call) != "(*net/http.Client).Do" {
				continue
			}
			n++
			// the success side of the error test
			var okSide *ssa.BasicBlock
			for _, ref := range *call.Referrers() {
				if ex, isEx := ref.(*ssa.Extract); isEx && ex.Index == 1 {
					for _, t := range failureTests(ex) {
						okSide = t.ok
					}
				}
			}
			if okSide == nil {
				r.Bad(rule, fnName(fn), "response body closed", r.P.pos(call.Pos()), "the error of client.Do is not tested, so the success side cannot be identified")
				continue
			}
			isClose := func(i ssa.Instruction) bool {
				ci, isCall := i.(ssa.CallInstruction)
				return isCall && ci.Common().IsInvoke() && ci.Common().Method.Name() == "Close" && strings.Contains(ci.Common().Value.Type().String(), "io.ReadCloser")
			}
			good, bad := mustPass(okSide, 0, isClose)
			site := r.P.pos(call.Pos())
			if !good && bad != nil {
				site = r.P.pos(bad.Pos())
			}
			r.Check(good, rule, fnName(fn), "response body closed", site,
				"every path from a successful Do to a return closes resp.Body (a deferred close counts from where it is registered)",
				"a path from a successful client.Do to a return does not close the response body: its connection never returns to the pool — after a few such answers (an outage answered with 503 pages) later sub-requests to that service wait for a connection forever")
		}
	}
	r.AtLeast(rule, "client.Do call sites", n, 1)
}

// ruleAnswerDecoder (R13i.decoder): the types a downstream answer is decoded into do not
// define their own UnmarshalJSON. With the plain decoder a body that is not a JSON array of
// objects is a decode error (a failure signal, C09); a custom decoder can quietly accept a bare
// object, a string or `null`.
func ruleAnswerDecoder(r *Run) {
	const rule = "R13i.decoder"
	n := 0
	for _, tn := range []string{"Response", "Responses", "ServerSubMsg", "ServerSubErorrMsg"} {
		pkg := r.P.ByPath[modPath+"/requests"]
		if pkg == nil {
			continue
		}
		obj := pkg.Types.Scope().Lookup(tn)
		if obj == nil {
			continue
		}
		n++
		custom := false
		for _, t := range []types.Type{obj.Type(), types.NewPointer(obj.Type())} {
			ms := types.NewMethodSet(t)
			for i := 0; i < ms.Len(); i++ {
				if ms.At(i).Obj().Name() == "UnmarshalJSON" {
					custom = true
				}
			}
		}
		r.Check(!custom, rule, "requests."+tn, "decoded by encoding/json itself", r.P.pos(obj.Pos()),
			"no UnmarshalJSON method: a body of another shape is a decode error",
			"requests."+tn+" defines its own UnmarshalJSON: what counts as a well-formed downstream answer is now decided by that method — a bare object or an error page that happens to be JSON can be taken for an answer without data and without errors")
	}
	r.AtLeast(rule, "answer types", n, 2)
}

// trueOnlyAfter: the boolean v can be true only if control has passed through block ok (the
// success side of a test): v is computed behind ok, or is a phi each of whose edges is the
// constant false, comes from behind ok, or is again such a value.
func trueOnlyAfter(v ssa.Value, ok *ssa.BasicBlock, depth int) bool {
	if depth > 6 {
		return false
	}
	switch x := v.(type) {
	case *ssa.Const:
		return x.Value != nil && x.Value.ExactString() == "false"
	case *ssa.Phi:
		for i, e := range x.Edges {
			p := x.Block().Preds[i]
			if c, isC := e.(*ssa.Const); isC && c.Value != nil && c.Value.ExactString() == "false" {
				continue
			}
			if p == ok || ok.Dominates(p) || blockOnlyAfter(p, ok, depth+1) {
				continue
			}
			if !trueOnlyAfter(e, ok, depth+1) {
				return false
			}
		}
		return true
	case ssa.Instruction:
		b := x.Block()
		return b == ok || ok.Dominates(b) || blockOnlyAfter(b, ok, depth+1)
	}
	return false
}

// blockOnlyAfter: block b (or one of its dominators) is entered only on the side of a branch
// whose condition can be true only after control passed through ok.
func blockOnlyAfter(b, ok *ssa.BasicBlock, depth int) bool {
	if depth > 6 {
		return false
	}
	for d := b; d != nil; d = d.Idom() {
		if d == ok {
			return true
		}
		if len(d.Preds) != 1 {
			continue
		}
		p := d.Preds[0]
		if len(p.Instrs) == 0 {
			continue
		}
		iff, isIf := p.Instrs[len(p.Instrs)-1].(*ssa.If)
		if !isIf {
			continue
		}
		cond, side := iff.Cond, p.Succs[0]
		if u, isNot := cond.(*ssa.UnOp); isNot && u.Op == token.NOT {
			cond, side = u.X, p.Succs[1]
		}
		if side == d && trueOnlyAfter(cond, ok, depth+1) {
			return true
		}
	}
	return false
}

// handsOnResponse: every return reachable from block b without leaving through a call that
// consumes the response returns the response itself (base) — the failing response is passed
// through as it is, errors included.
func handsOnResponse(b *ssa.BasicBlock, base ssa.Value) bool {
	seen := map[*ssa.BasicBlock]bool{}
	var walk func(b *ssa.BasicBlock) bool
	walk = func(b *ssa.BasicBlock) bool {
		if seen[b] {
			return true
		}
		seen[b] = true
		for _, ins := range b.Instrs {
			if ret, ok := ins.(*ssa.Return); ok {
				for _, res := range ret.Results {
					if sameBase(unwrap(res), base) || sameBase(res, base) {
						return true
					}
				}
				return false
			}
		}
		for _, s := range b.Succs {
			if !walk(s) {
				return false
			}
		}
		return len(b.Succs) > 0
	}
	return walk(b)
}

// falseOnlyWhenNoErrors: the predicate (a module function that is handed a response) can answer
// false only after the "no errors" side of a length test of that response's Errors was taken.
func falseOnlyWhenNoErrors(pred *ssa.Function, param *ssa.Parameter) bool {
	for _, rd := range respReads(pred) {
		if rd.field != "Errors" || unwrap(rd.base) != ssa.Value(param) {
			continue
		}
		for _, t := range failureTests(rd.val) {
			if bo, ok := t.iff.Cond.(*ssa.BinOp); ok && (isNilConst(bo.X) || isNilConst(bo.Y)) {
				continue
			}
			if len(t.ok.Preds) != 1 {
				continue
			}
			all := true
			for _, ret := range returnsOf(pred) {
				if !falseOnlyAfter(retVals(ret)[0], t.ok, 0) {
					all = false
				}
			}
			if all {
				return true
			}
		}
	}
	return false
}

// falseOnlyAfter: the dual of trueOnlyAfter.
func falseOnlyAfter(v ssa.Value, ok *ssa.BasicBlock, depth int) bool {
	if depth > 6 {
		return false
	}
	switch x := v.(type) {
	case *ssa.Const:
		return x.Value != nil && x.Value.ExactString() == "true"
	case *ssa.Phi:
		for i, e := range x.Edges {
			p := x.Block().Preds[i]
			if c, isC := e.(*ssa.Const); isC && c.Value != nil && c.Value.ExactString() == "true" {
				continue
			}
			if p == ok || ok.Dominates(p) {
				continue
			}
			if !falseOnlyAfter(e, ok, depth+1) {
				return false
			}
		}
		return true
	case ssa.Instruction:
		b := x.Block()
		return b == ok || ok.Dominates(b)
	}
	return false
}
