package main

import (
	"fmt"
	"go/ast"
	"go/token"
	"go/types"
	"os"
	"path/filepath"
	"sort"
	"strings"

	"golang.org/x/tools/go/packages"
	"golang.org/x/tools/go/ssa"
	"golang.org/x/tools/go/ssa/ssautil"
)

const modPath = "github.com/buildbuildio/pebbles"

// Prog is the resolved program: type-checked syntax, SSA for the module's
// packages (dependencies are type information only) and the call graph.
type Prog struct {
	Repo    string
	Fset    *token.FileSet
	Pkgs    []*packages.Package
	ByPath  map[string]*packages.Package
	SSA     *ssa.Program
	SSAPkgs map[string]*ssa.Package
	Funcs   []*ssa.Function // every source function of the module, closures included, generic bodies (not instances)
	byName  map[string]*ssa.Function
	CG      *CallGraph

	Assumptions []string
	// declOf maps an ssa function to its syntax
	fileOf map[*ast.File]*packages.Package
}

func loadEnv() []string {
	env := os.Environ()
	out := env[:0:0]
	for _, e := range env {
		k := e
		if i := strings.IndexByte(e, '='); i >= 0 {
			k = e[:i]
		}
		switch k {
		case "GOFLAGS", "GOPROXY", "GOSUMDB", "GOTOOLCHAIN", "GOWORK":
			continue
		}
		out = append(out, e)
	}
	return append(out, "GOFLAGS=-mod=mod", "GOPROXY=off", "GOSUMDB=off", "GOTOOLCHAIN=local", "GOWORK=off")
}

func Load(repo string) (*Prog, error) {
	fset := token.NewFileSet()
	cfg := &packages.Config{
		Mode: packages.NeedName | packages.NeedFiles | packages.NeedCompiledGoFiles | packages.NeedImports |
			packages.NeedDeps | packages.NeedTypes | packages.NeedSyntax | packages.NeedTypesInfo | packages.NeedTypesSizes | packages.NeedModule,
		Dir:   repo,
		Fset:  fset,
		Env:   loadEnv(),
		Tests: false,
	}
	pkgs, err := packages.Load(cfg, "./...")
	if err != nil {
		return nil, fmt.Errorf("load: %w", err)
	}
	var errs []string
	packages.Visit(pkgs, nil, func(p *packages.Package) {
		if !strings.HasPrefix(p.PkgPath, modPath) {
			return
		}
		for _, e := range p.Errors {
			errs = append(errs, e.Error())
		}
	})
	if len(errs) > 0 {
		return nil, fmt.Errorf("type errors in module packages:\n  %s", strings.Join(errs, "\n  "))
	}
	var mod []*packages.Package
	for _, p := range pkgs {
		if p.PkgPath == modPath || strings.HasPrefix(p.PkgPath, modPath+"/") {
			mod = append(mod, p)
		}
	}
	if len(mod) < 11 {
		return nil, fmt.Errorf("expected >= 11 module packages under %s, found %d", modPath, len(mod))
	}
	sort.Slice(mod, func(i, j int) bool { return mod[i].PkgPath < mod[j].PkgPath })

	prog, spkgs := ssautil.Packages(mod, ssa.BuilderMode(0))
	for i, sp := range spkgs {
		if sp == nil {
			return nil, fmt.Errorf("no SSA package for %s", mod[i].PkgPath)
		}
	}
	prog.Build()

	P := &Prog{
		Repo: repo, Fset: fset, Pkgs: mod, SSA: prog,
		ByPath:  map[string]*packages.Package{},
		SSAPkgs: map[string]*ssa.Package{},
		byName:  map[string]*ssa.Function{},
		fileOf:  map[*ast.File]*packages.Package{},
	}
	for i, p := range mod {
		registerFiles(p.TypesInfo, p.Syntax)
		P.ByPath[p.PkgPath] = p
		P.SSAPkgs[p.PkgPath] = spkgs[i]
		for _, f := range p.Syntax {
			P.fileOf[f] = p
		}
	}
	// collect source functions
	seen := map[*ssa.Function]bool{}
	var add func(fn *ssa.Function)
	add = func(fn *ssa.Function) {
		if fn == nil || seen[fn] {
			return
		}
		seen[fn] = true
		if fn.Blocks == nil || fn.Synthetic != "" {
			// synthetic wrappers (bound methods, thunks, instances, init) are not source
			// functions; package init is handled by rules that need it.
			if fn.Synthetic != "package initializer" {
				return
			}
		}
		P.Funcs = append(P.Funcs, fn)
		for _, an := range fn.AnonFuncs {
			add(an)
		}
	}
	for _, sp := range spkgs {
		for _, m := range sp.Members {
			switch m := m.(type) {
			case *ssa.Function:
				add(m)
			case *ssa.Type:
				T := m.Type()
				for _, t := range []types.Type{T, types.NewPointer(T)} {
					ms := prog.MethodSets.MethodSet(t)
					for i := 0; i < ms.Len(); i++ {
						fn := prog.MethodValue(ms.At(i))
						if fn != nil && fn.Pkg == sp {
							add(fn)
						}
					}
				}
			}
		}
	}
	P.aliasRenamed()
	sort.Slice(P.Funcs, func(i, j int) bool { return fnName(P.Funcs[i]) < fnName(P.Funcs[j]) })
	for _, fn := range P.Funcs {
		P.byName[fnName(fn)] = fn
	}
	// configuration facts the analysis assumes
	usesReflect := false
	for _, p := range mod {
		for imp := range p.Imports {
			if imp == "reflect" || imp == "unsafe" {
				usesReflect = true
				P.Assumptions = append(P.Assumptions, fmt.Sprintf("package %s imports %s: treated as opaque (may need table lines)", p.PkgPath, imp))
			}
		}
		for _, f := range p.Syntax {
			for _, cg := range f.Comments {
				for _, c := range cg.List {
					if strings.HasPrefix(c.Text, "//go:build") || strings.HasPrefix(c.Text, "// +build") || strings.HasPrefix(c.Text, "//go:linkname") {
						P.Assumptions = append(P.Assumptions, fmt.Sprintf("%s carries %q: only the default build configuration is analysed", P.pos(c.Pos()), c.Text))
					}
				}
			}
		}
	}
	if !usesReflect {
		P.Assumptions = append(P.Assumptions, "module production code uses neither reflect nor unsafe (checked on this run)")
	}
	P.CG = buildCallGraph(P)
	return P, nil
}

// pos renders a position relative to the repository root.
func (P *Prog) pos(p token.Pos) string {
	if !p.IsValid() {
		return "-"
	}
	pp := P.Fset.Position(p)
	rel, err := filepath.Rel(P.Repo, pp.Filename)
	if err != nil || strings.HasPrefix(rel, "..") {
		rel = pp.Filename
	}
	return fmt.Sprintf("%s:%d:%d", rel, pp.Line, pp.Column)
}

func shortPkg(path string) string {
	if path == modPath {
		return "pebbles"
	}
	return strings.TrimPrefix(path, modPath+"/")
}

// fnName gives a stable readable name: pkg.Func, pkg.(*T).M, pkg.Func$1
func fnName(fn *ssa.Function) string {
	if fn == nil {
		return "<nil>"
	}
	if fn.Origin() != nil {
		fn = fn.Origin()
	}
	if old, ok := renamedFuncs[fn]; ok {
		return old
	}
	if p := fn.Parent(); p != nil {
		// closure: name is parent$N
		return fnName(p) + fn.Name()[strings.LastIndex(fn.Name(), "$"):]
	}
	pkg := ""
	if fn.Pkg != nil {
		pkg = shortPkg(fn.Pkg.Pkg.Path())
	} else if fn.Object() != nil && fn.Object().Pkg() != nil {
		pkg = shortPkg(fn.Object().Pkg().Path())
	}
	if recv := fn.Signature.Recv(); recv != nil {
		t := recv.Type()
		ptr := ""
		if pt, ok := t.(*types.Pointer); ok {
			t = pt.Elem()
			ptr = "*"
		}
		name := "?"
		if n, ok := t.(*types.Named); ok {
			name = n.Obj().Name()
		}
		return fmt.Sprintf("%s.(%s%s).%s", pkg, ptr, name, fn.Name())
	}
	return pkg + "." + fn.Name()
}

// Fn looks a module function up by its fnName; nil if absent.
func (P *Prog) Fn(name string) *ssa.Function { return P.byName[name] }

// inModule reports whether fn has a body in the analysed module.
func inModule(fn *ssa.Function) bool {
	if fn == nil {
		return false
	}
	if fn.Origin() != nil {
		fn = fn.Origin()
	}
	for fn.Parent() != nil {
		fn = fn.Parent()
	}
	if fn.Pkg == nil {
		if fn.Object() != nil && fn.Object().Pkg() != nil {
			p := fn.Object().Pkg().Path()
			return p == modPath || strings.HasPrefix(p, modPath+"/")
		}
		return false
	}
	p := fn.Pkg.Pkg.Path()
	return p == modPath || strings.HasPrefix(p, modPath+"/")
}

// syntaxOf returns the FuncDecl or FuncLit of a source function.
func syntaxOf(fn *ssa.Function) ast.Node {
	if fn == nil {
		return nil
	}
	return fn.Syntax()
}

// infoFor returns the types.Info covering fn.
func (P *Prog) infoFor(fn *ssa.Function) *types.Info {
	for fn.Parent() != nil {
		fn = fn.Parent()
	}
	if fn.Origin() != nil {
		fn = fn.Origin()
	}
	if fn.Pkg == nil {
		return nil
	}
	if p := P.ByPath[fn.Pkg.Pkg.Path()]; p != nil {
		return p.TypesInfo
	}
	return nil
}

// renamedFuncs maps a declared function of the current tree to the name it had when the
// rules and tables were confirmed (names_frozen.go), so that a plain rename keeps every
// anchor, table line and obligation key. See aliasRenamed.
var renamedFuncs = map[*ssa.Function]string{}

// sigString is the fingerprint used to recognise a renamed function: package, receiver and
// signature, with full package paths.
func sigString(fn *ssa.Function) string {
	q := func(p *types.Package) string { return p.Path() }
	recv := ""
	if r := fn.Signature.Recv(); r != nil {
		recv = types.TypeString(r.Type(), q)
	}
	pkg := ""
	if fn.Pkg != nil {
		pkg = fn.Pkg.Pkg.Path()
	}
	tuple := func(t *types.Tuple) string {
		var parts []string
		for i := 0; i < t.Len(); i++ {
			parts = append(parts, types.TypeString(t.At(i).Type(), q))
		}
		return "(" + strings.Join(parts, ", ") + ")"
	}
	variadic := ""
	if fn.Signature.Variadic() {
		variadic = " variadic"
	}
	return fmt.Sprintf("%s | %s | %dT %s %s%s", pkg, recv, fn.Signature.TypeParams().Len(), tuple(fn.Signature.Params()), tuple(fn.Signature.Results()), variadic)
}

// aliasRenamed: a frozen name that no longer exists is matched with the one declared
// function that is new (not in the frozen list), lives in the same package and has the same
// receiver and signature. Exactly one candidate is required; otherwise the name stays
// missing and rules anchored on it report the lost anchor.
func (P *Prog) aliasRenamed() {
	if len(frozenFuncs) == 0 {
		return
	}
	current := map[string]*ssa.Function{}
	for _, fn := range P.Funcs {
		if fn.Parent() == nil && fn.Synthetic == "" {
			current[fnName(fn)] = fn
		}
	}
	var missing []string
	for name := range frozenFuncs {
		if current[name] == nil {
			missing = append(missing, name)
		}
	}
	sort.Strings(missing)
	for _, name := range missing {
		var cands []*ssa.Function
		for cur, fn := range current {
			if _, known := frozenFuncs[cur]; known {
				continue
			}
			if sigString(fn) == frozenFuncs[name] {
				cands = append(cands, fn)
			}
		}
		// a second missing name with the same fingerprint makes the match ambiguous
		same := 0
		for _, other := range missing {
			if frozenFuncs[other] == frozenFuncs[name] {
				same++
			}
		}
		if len(cands) == 1 && same == 1 {
			P.Assumptions = append(P.Assumptions, fmt.Sprintf("%s is treated as the renamed %s (same package, receiver and signature; the old name is gone and this is the only new function that fits)", cands[0].String(), name))
			renamedFuncs[cands[0]] = name
		}
	}
}
