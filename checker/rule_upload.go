package main

// Upload rules (C19) and encoded-string agreement (C01, C19):
//  R3e   the upload extractor writes only maps it owns: writes into client variable trees
//        (shared between the sub-requests of one operation) are violations
//  R13f  separators/keywords written by an encoder equal those parsed by its decoder
//        (upload paths: files.go ⇄ injectFile; insertion points: FindInsertionPoints ⇄ Extract)
//  R13p  every extracted upload becomes its own multipart part

import (
	"fmt"
	"go/constant"
	"go/token"
	"go/types"
	"regexp"
	"sort"
	"strconv"
	"strings"

	"golang.org/x/tools/go/ssa"
)

func isJSONContainer(t types.Type) bool {
	switch x := t.Underlying().(type) {
	case *types.Map:
		_, ok := x.Elem().Underlying().(*types.Interface)
		return ok
	case *types.Slice:
		_, ok := x.Elem().Underlying().(*types.Interface)
		return ok
	}
	return false
}

var variableWriteTable = map[string]tabEntry{
	"queryer.extractFiles/write ‹Request›.Variables[…]": {1,
		"the top-level Variables map of a downstream request is built per sub-request by DepthExecutor.getVariables (fresh map literal), so nulling an upload slot there does not touch the client's tree or another sub-request"},
}

func ruleVariableWrites(r *Run) {
	const rule = "R3e"
	root := r.Anchor(rule, "queryer.extractFiles")
	if root == nil {
		return
	}
	n := 0
	var fns []*ssa.Function
	for fn := range r.P.CG.Reachable([]*ssa.Function{root}, nil) {
		fns = append(fns, fn)
	}
	sort.Slice(fns, func(i, j int) bool { return fnName(fns[i]) < fnName(fns[j]) })
	for _, fn := range fns {
		for _, ins := range allInstrs(fn) {
			var container ssa.Value
			what := ""
			switch x := ins.(type) {
			case *ssa.MapUpdate:
				container, what = x.Map, "map write"
			case *ssa.Store:
				if ia, ok := x.Addr.(*ssa.IndexAddr); ok {
					container, what = ia.X, "element write"
				}
			case *ssa.Call:
				if b, ok := x.Call.Value.(*ssa.Builtin); ok && b.Name() == "delete" {
					container, what = x.Call.Args[0], "delete"
				}
			}
			if container == nil || !isJSONContainer(container.Type()) {
				continue
			}
			if _, fresh := container.(*ssa.MakeMap); fresh {
				continue
			}
			if _, fresh := container.(*ssa.MakeSlice); fresh {
				continue
			}
			n++
			construct := what + " on " + describeContainer(container)
			key := fnName(fn) + "/write " + describeContainer(container)
			site := r.P.pos(ins.Pos())
			if reason, ok := useTable(r, variableWriteTable, key); ok && what == "map write" {
				r.Tabled(rule, fnName(fn), construct, site, "variableWrite", reason)
				continue
			}
			r.Bad(rule, fnName(fn), construct, site, "the upload extractor modifies a nested map/list of the client's variables in place: that tree is shared by all sub-requests of the operation (and built concurrently), so the second service that needs the same variable receives null instead of the file, and the writes race")
		}
	}
	r.AtLeast(rule, "writes to JSON containers in the upload extractor", n, 3)
	// R3e.fresh: the tabled top-level write rests on every downstream request getting a
	// Variables map of its own. Every value stored into requests.Request.Variables in the
	// executor comes from a function each of whose returns yields a map made in that call
	// (second table audit: a shortcut that returned the client's own map for a root step went
	// unnoticed, and the second service lost its upload).
	nv := 0
	var sendRegion map[*ssa.Function]bool
	if ex := r.P.Fn("executor.(*DepthExecutor).Execute"); ex != nil {
		sendRegion = r.P.CG.Reachable([]*ssa.Function{ex}, nil)
	}
	for _, fn := range r.P.Funcs {
		if !sendRegion[fn] && shortPkg(topFn(fn).Pkg.Pkg.Path()) != "executor" {
			continue
		}
		for _, ins := range allInstrs(fn) {
			st, ok := ins.(*ssa.Store)
			if !ok {
				continue
			}
			fa, ok := st.Addr.(*ssa.FieldAddr)
			if !ok || fieldOf(fa) == nil || fieldOf(fa).Name() != "Variables" || !strings.HasSuffix(namedOf(fa.X.Type()), "requests.Request") {
				continue
			}
			nv++
			good, why := freshMap(r, st.Val, 0)
			r.Check(good, "R3e.fresh", fnName(fn), "Variables of a downstream request", r.P.pos(st.Pos()),
				"a map made for this request (every return of the function that supplies it yields a map created in that call)",
				"the Variables map of a downstream request may be a map that others hold too ("+why+"): the upload extractor nulls upload slots in it in place, so another sub-request that uses the same map — or the client's own variables — loses the file, and the concurrent writes race")
		}
	}
	r.AtLeast("R3e.fresh", "Variables maps handed to downstream requests", nv, 1)
}

// freshMap: v is a map created here (make / literal), or the result of a module function all
// of whose non-nil returns are.
func freshMap(r *Run, v ssa.Value, depth int) (bool, string) {
	v = unwrap(v)
	switch x := v.(type) {
	case *ssa.MakeMap:
		return true, ""
	case *ssa.Const:
		return x.IsNil(), "constant"
	case *ssa.Extract:
		if c, ok := x.Tuple.(*ssa.Call); ok {
			return freshMapCall(r, c, x.Index, depth)
		}
	case *ssa.Call:
		return freshMapCall(r, x, 0, depth)
	case *ssa.Parameter:
		// a constructor or helper that receives the map: what its callers hand in
		fn := x.Parent()
		idx := -1
		for i, p := range fn.Params {
			if p == x {
				idx = i
			}
		}
		n := 0
		for _, e := range r.P.CG.In[fn] {
			if e.Kind != "static" || idx < 0 || depth > 4 {
				return false, "parameter " + x.Name() + " of " + fnName(fn) + " (caller not resolved)"
			}
			args := e.Site.Common().Args
			if idx >= len(args) {
				return false, "parameter " + x.Name() + " of " + fnName(fn)
			}
			if ok, why := freshMap(r, args[idx], depth+1); !ok {
				return false, why
			}
			n++
		}
		if n > 0 {
			return true, ""
		}
	case *ssa.UnOp:
		// a local variable that lives in a cell (captured, or address taken)
		if al, ok := x.X.(*ssa.Alloc); ok && x.Op == token.MUL && depth < 6 {
			sts := storesTo(al)
			for _, st := range sts {
				if ok, why := freshMap(r, st.Val, depth+1); !ok {
					return false, why
				}
			}
			if len(sts) > 0 {
				return true, ""
			}
		}
	case *ssa.Phi:
		if depth > 6 {
			return false, "too deep"
		}
		for _, e := range x.Edges {
			if ok, why := freshMap(r, e, depth+1); !ok {
				return false, why
			}
		}
		return true, ""
	}
	return false, "value of kind " + fmt.Sprintf("%T", v) + " at " + r.P.pos(v.Pos())
}

// freshMapMakers: library functions that return a map of their own (samber/lo: "returns a new map").
var freshMapMakers = []string{"lo.PickByKeys", "lo.PickBy", "lo.PickByValues", "lo.OmitByKeys", "lo.OmitBy", "lo.OmitByValues", "lo.Assign", "lo.MapValues", "lo.MapKeys", "lo.MapEntries", "maps.Clone"}

func freshMapCall(r *Run, c *ssa.Call, idx int, depth int) (bool, string) {
	sc := c.Call.StaticCallee()
	name := strings.SplitN(calleeName(&c.Call), "[", 2)[0]
	for _, m := range freshMapMakers {
		if strings.HasSuffix(name, m) {
			return true, ""
		}
	}
	if sc == nil || !inModule(sc) || sc.Blocks == nil || depth > 3 {
		return false, "result of " + calleeName(&c.Call)
	}
	for _, ret := range returnsOf(sc) {
		vals := retVals(ret)
		if idx >= len(vals) {
			return false, "unexpected result shape of " + fnName(sc)
		}
		if ok, why := freshMap(r, vals[idx], depth+1); !ok {
			return false, fnName(sc) + " returns " + why + " at " + r.P.pos(retPos(ret))
		}
	}
	return true, ""
}

func describeContainer(v ssa.Value) string {
	if ld, ok := v.(*ssa.UnOp); ok && ld.Op == token.MUL {
		if fa, ok := ld.X.(*ssa.FieldAddr); ok && fieldOf(fa) != nil {
			return "‹" + shortStruct(namedOf(fa.X.Type())) + "›." + fieldOf(fa).Name() + "[…]"
		}
	}
	if _, ok := v.(*ssa.TypeAssert); ok {
		return "type-switched ‹" + shortType(v.Type()) + "›"
	}
	if ex, ok := v.(*ssa.Extract); ok {
		if _, ok := ex.Tuple.(*ssa.TypeAssert); ok {
			return "type-switched ‹" + shortType(v.Type()) + "›"
		}
	}
	return "‹" + shortType(v.Type()) + "›"
}

// constStringsIn collects constant strings passed at argument index idx of calls to callee.
func constArgs(fn *ssa.Function, calleeSuffix string, idx int) []string {
	var out []string
	for _, f := range withClosures(fn) {
		for _, ins := range allInstrs(f) {
			c, ok := ins.(*ssa.Call)
			if !ok || !strings.HasSuffix(calleeName(&c.Call), calleeSuffix) || idx >= len(c.Call.Args) {
				continue
			}
			if k, ok := unwrap(c.Call.Args[idx]).(*ssa.Const); ok && k.Value != nil && k.Value.Kind() == constant.String {
				out = append(out, constant.StringVal(k.Value))
			}
		}
	}
	return out
}

var verbRe = regexp.MustCompile(`%[a-z]`)

// separators of a Sprintf format: the literals between verbs.
func formatLiterals(format string) []string {
	parts := verbRe.Split(format, -1)
	var out []string
	for _, p := range parts {
		if p != "" {
			out = append(out, p)
		}
	}
	return out
}

// pathLiterals: literal pieces of the strings fn assembles (Sprintf formats and constant
// operands of string concatenations).
func pathLiterals(fn *ssa.Function) []string {
	var out []string
	for _, f := range constArgs(fn, "fmt.Sprintf", 0) {
		out = append(out, formatLiterals(f)...)
	}
	for _, f := range withClosures(fn) {
		for _, ins := range allInstrs(f) {
			bo, ok := ins.(*ssa.BinOp)
			if !ok || bo.Op != token.ADD {
				continue
			}
			for _, v := range []ssa.Value{bo.X, bo.Y} {
				if k, ok := v.(*ssa.Const); ok && k.Value != nil && k.Value.Kind() == constant.String && constant.StringVal(k.Value) != "" {
					out = append(out, constant.StringVal(k.Value))
				}
			}
		}
	}
	return out
}

func ruleEncodings(which string) ruleFn {
	return func(r *Run) {
		const rule = "R13f"
		switch which {
		case "upload":
			add := r.Anchor(rule, "queryer.(*UploadMap).Add")
			ext := r.Anchor(rule, "queryer.(*UploadMap).extract")
			inj := r.Anchor(rule, "requests.(*ParseRequestResponse).injectFile")
			if add == nil || ext == nil || inj == nil {
				return
			}
			// the split may sit in injectFile or in a helper of its package that it calls
			var seps []string
			for g := range r.P.CG.Reachable([]*ssa.Function{inj}, nil) {
				if topFn(g).Pkg == topFn(inj).Pkg {
					seps = append(seps, constArgs(g, "strings.Split", 1)...)
				}
			}
			sort.Strings(seps)
			seps = uniqSorted(seps)
			if len(seps) != 1 {
				r.Bad(rule, fnName(inj), "path separator", r.P.pos(inj.Pos()), "injectFile no longer splits the path on one constant separator")
				return
			}
			sep := seps[0]
			// keyword compared with parts[0]
			kw := ""
			for _, ins := range allInstrs(inj) {
				if bo, ok := ins.(*ssa.BinOp); ok && (bo.Op == token.NEQ || bo.Op == token.EQL) {
					for _, v := range []ssa.Value{bo.X, bo.Y} {
						if k, ok := v.(*ssa.Const); ok && k.Value != nil && k.Value.Kind() == constant.String && constant.StringVal(k.Value) != "" {
							kw = constant.StringVal(k.Value)
						}
					}
				}
			}
			// the literal pieces a path is assembled from: between the verbs of a Sprintf
			// format, or the constant operands of string concatenations
			al := pathLiterals(add)
			for _, l := range al {
				r.Check(l == kw+sep, rule, fnName(add), "path literal "+l, r.P.pos(add.Pos()),
					"top-level paths are written as `"+kw+sep+"<name>`, which is what injectFile parses", "the path prefix written for an extracted upload (`"+l+"`) is not `"+kw+sep+"…` as parsed by requests.injectFile: the owning service cannot map the part back to the variable")
			}
			el := pathLiterals(ext)
			for _, l := range el {
				r.Check(l == sep, rule, fnName(ext), "path literal "+l, r.P.pos(ext.Pos()),
					"nested path components are joined with `"+sep+"`", "nested upload paths are written with `"+l+"` but parsed by splitting on `"+sep+"`")
			}
			r.AtLeast(rule, "upload path literals", len(al)+len(el), 3)
			r.checkCodecPair("R13f.codec", []*ssa.Function{add, ext}, []*ssa.Function{inj},
				"an upload path", "the owning service cannot map the part back to the variable")
			// list indexes are parsed as integers
			hasAtoi := false
			for _, ins := range allInstrs(inj) {
				if c, ok := ins.(*ssa.Call); ok && calleeName(&c.Call) == "strconv.Atoi" {
					hasAtoi = true
				}
			}
			r.Check(hasAtoi, rule, fnName(inj), "list index parsed", r.P.pos(inj.Pos()), "list positions written with %d are parsed with Atoi", "list positions are no longer parsed as integers")
		case "insertion":
			fip := r.Anchor(rule, "executor.FindInsertionPoints")
			ex := r.Anchor(rule, "executor.(*CachedPointDataExtractor).Extract")
			ile := r.Anchor(rule, "executor.isListElement")
			if fip == nil || ex == nil || ile == nil {
				return
			}
			wr := map[string]bool{}
			for _, f := range constArgs(fip, "fmt.Sprintf", 0) {
				for _, l := range formatLiterals(f) {
					wr[l] = true
				}
			}
			rd := map[string]bool{}
			for _, fn := range []*ssa.Function{ex, ile} {
				for _, suffix := range []string{"strings.Split", "strings.SplitN", "strings.Contains", "strings.Index"} {
					for _, s := range constArgs(fn, suffix, 1) {
						rd[s] = true
					}
				}
			}
			var ws, rs []string
			for k := range wr {
				ws = append(ws, k)
			}
			for k := range rd {
				rs = append(rs, k)
			}
			sort.Strings(ws)
			sort.Strings(rs)
			r.Check(strings.Join(ws, " ") == strings.Join(rs, " ") && len(ws) == 2, rule, fnName(fip), "insertion-point separators", r.P.pos(fip.Pos()),
				"FindInsertionPoints writes exactly the separators "+strings.Join(ws, " ")+" that Extract/isListElement parse",
				"separators written into insertion points ("+strings.Join(ws, " ")+") differ from those parsed ("+strings.Join(rs, " ")+"): ids/indices are mis-parsed and results are stitched into the wrong place")
			// R13f.codec: whatever encoding the writer applies to a component (the id), the reader
			// undoes with the inverse function of the same family
			r.checkCodecPair("R13f.codec", []*ssa.Function{fip}, []*ssa.Function{ex, ile},
				"an insertion point", "ids that contain the characters on which the two functions differ are looked up under another id: the object's fields from other services silently disappear")
			// … and at every place the component is written: an id that is encoded at two of
			// three writing sites and decoded always fails for the third (third audit)
			r.checkEncodedEverywhere("R13f.codec", fip, "#")
			// the id is a free-form trailing component: it must be split off at the first '#' only
			okTail := true
			var site ssa.Instruction
			for _, ins := range allInstrs(ex) {
				c, ok := ins.(*ssa.Call)
				if !ok || calleeName(&c.Call) != "strings.Split" {
					continue
				}
				if k, ok := unwrap(c.Call.Args[1]).(*ssa.Const); ok && k.Value != nil && constant.StringVal(k.Value) == "#" {
					okTail = false
					site = c
				}
			}
			if okTail {
				r.OK(rule, fnName(ex), "id split at first '#'", r.P.pos(ex.Pos()), "the id component is separated with SplitN/Index, so ids may contain the separator")
			} else {
				r.Bad(rule, fnName(ex), "id split at first '#'", r.P.pos(site.Pos()), "the entity id is the free-form tail of an insertion point but the point is split on every '#' (strings.Split) and accepted only when that yields two parts: an id containing '#' is dropped and the lookup fails with `could not find id in path`")
			}
		}
	}
}

// ruleUploadParts (R13p): Add appends a new part on every path.
func ruleUploadParts(r *Run) {
	const rule = "R13p"
	add := r.Anchor(rule, "queryer.(*UploadMap).Add")
	if add == nil {
		return
	}
	isAppendStore := func(i ssa.Instruction) bool {
		st, ok := i.(*ssa.Store)
		if !ok || st.Addr != ssa.Value(add.Params[0]) {
			return false
		}
		c, ok := st.Val.(*ssa.Call)
		if !ok {
			return false
		}
		b, ok := c.Call.Value.(*ssa.Builtin)
		return ok && b.Name() == "append"
	}
	ok, bad := mustPass(add.Blocks[0], 0, isAppendStore)
	site := r.P.pos(add.Pos())
	if !ok && bad != nil {
		site = r.P.pos(retPos(bad.(*ssa.Return)))
	}
	loops := false
	for _, b := range add.Blocks {
		if len(naturalLoop(b)) > 0 {
			loops = true
		}
	}
	r.Check(ok && !loops, rule, fnName(add), "one part per extracted upload", site,
		"every call of Add appends exactly one new part for the upload it was given",
		"UploadMap.Add can return without appending a new part (it searches/merges existing parts): two different files can end up as one multipart part, so one of them is never sent and its path receives the other's bytes")
}

// ruleUploadNumbering (R13f.parts): the `map` field and the file parts of a multipart request
// name the same things: both are produced by ranging over the same UploadMap, the name is
// strconv.Itoa of the loop's own index in both, and neither loop skips an element before it
// writes. Two numberings that are computed differently (a dense counter in one, the list index
// in the other) drift apart as soon as one element is skipped.
func ruleUploadNumbering(r *Run) {
	const rule = "R13f.parts"
	type site struct {
		fn   *ssa.Function
		role string
	}
	var sites []site
	if f := r.Anchor(rule, "queryer.(UploadMap).Map"); f != nil {
		sites = append(sites, site{f, "the `map` field"})
	}
	if f := r.Anchor(rule, "queryer.prepareMultipart"); f != nil {
		sites = append(sites, site{f, "the file parts"})
	}
	n := 0
	for _, s := range sites {
		fn := s.fn
		found := false
		for _, ins := range allInstrs(fn) {
			c, ok := ins.(*ssa.Call)
			if !ok {
				continue
			}
			var idxArg ssa.Value
			if calleeName(&c.Call) == "strconv.Itoa" {
				idxArg = c.Call.Args[0]
			} else if h := c.Call.StaticCallee(); h != nil && inModule(h) && h != fn {
				// a helper of the module that names the part by one of its parameters
				// (`writeUpload(w, index, upload)`, itself perhaps through `partName(index)`):
				// the argument handed in for it is the name
				for _, pi := range namingParams(h, 0) {
					if pi < len(c.Call.Args) {
						idxArg = c.Call.Args[pi]
					}
				}
			}
			if idxArg == nil {
				continue
			}
			found = true
			n++
			// the argument is the index phi of a range-over-slice loop whose slice is an UploadMap
			idx := unwrap(idxArg)
			good, why := false, "the name is not the index of the loop over the upload list"
			loop := innermostLoop(c.Block())
			if loop != nil {
				for b := range loop {
					for _, i2 := range b.Instrs {
						ia, ok := i2.(*ssa.IndexAddr)
						if !ok || !strings.HasSuffix(namedOf(ia.X.Type()), "queryer.UploadMap") {
							continue
						}
						if unwrap(ia.Index) == idx {
							good = true
						}
					}
				}
			}
			if good {
				// no element is skipped: every path from the loop's body entry back to the
				// header passes the naming call
				var header, bodyEntry *ssa.BasicBlock
				for b := range loop {
					for _, p := range b.Preds {
						if !loop[p] {
							header = b
						}
					}
				}
				if header != nil {
					for _, sc := range header.Succs {
						if loop[sc] {
							bodyEntry = sc
						}
					}
				}
				if bodyEntry != nil {
					okAll, _ := mustPassUntil(bodyEntry, header, func(i ssa.Instruction) bool { return i == ssa.Instruction(c) })
					// paths that leave the function (error returns) are fine; a path back to the
					// header without naming the element is a skip
					if !okAll {
						good, why = false, "some elements of the upload list are skipped before they are named"
					}
				}
			}
			r.Check(good, rule, fnName(fn), "name of "+s.role, r.P.pos(c.Pos()),
				"named by the index of the loop over the upload list, for every element",
				s.role+" of the multipart request are no longer named by the position of the upload in the list ("+why+"): the `map` field and the parts are numbered by two different rules, so a path in `map` can point at a part that does not exist while a file travels under a name nothing refers to")
		}
		if !found {
			r.Bad(rule, fnName(fn), "name of "+s.role, r.P.pos(fn.Pos()), "no strconv.Itoa naming found: the numbering of "+s.role+" cannot be compared with its sibling")
		}
	}
	r.AtLeast(rule, "part-naming sites", n, 2)
}

func uniqSorted(in []string) []string {
	var out []string
	for i, x := range in {
		if i == 0 || x != in[i-1] {
			out = append(out, x)
		}
	}
	return out
}

// codecInverse: library encoders and the functions that undo them.
var codecInverse = map[string]string{
	"net/url.PathEscape":                         "net/url.PathUnescape",
	"net/url.QueryEscape":                        "net/url.QueryUnescape",
	"(*encoding/base64.Encoding).EncodeToString": "(*encoding/base64.Encoding).DecodeString",
	"encoding/hex.EncodeToString":                "encoding/hex.DecodeString",
	"strconv.Quote":                              "strconv.Unquote",
	"html.EscapeString":                          "html.UnescapeString",
}

// checkCodecPair: the library encoders called on the writing side (the given functions and the
// functions of their package they call) are matched by their inverses on the reading side, and
// the other way round. Neither side encoding anything is the trivial match.
func (r *Run) checkCodecPair(rule string, writers, readers []*ssa.Function, what, consequence string) {
	inv := map[string]string{}
	for e, d := range codecInverse {
		inv[e] = d
		inv[d] = e
	}
	collect := func(roots []*ssa.Function) (map[string]ssa.Instruction, []string) {
		found := map[string]ssa.Instruction{}
		for g := range r.P.CG.Reachable(roots, nil) {
			if topFn(g).Pkg != topFn(roots[0]).Pkg {
				continue
			}
			for _, ins := range allInstrs(g) {
				if ci, ok := ins.(ssa.CallInstruction); ok {
					if n := calleeName(ci.Common()); inv[n] != "" {
						found[n] = ins
					}
				}
			}
		}
		var names []string
		for n := range found {
			names = append(names, n)
		}
		sort.Strings(names)
		return found, names
	}
	w, wn := collect(writers)
	rd, rn := collect(readers)
	good := true
	site := r.P.pos(writers[0].Pos())
	why := ""
	for _, n := range wn {
		if rd[inv[n]] == nil {
			good = false
			site = r.P.pos(w[n].Pos())
			why = "the writing side applies " + n + " but the reading side does not apply " + inv[n] + " (it applies: " + strings.Join(rn, ", ") + ")"
		}
	}
	for _, n := range rn {
		if w[inv[n]] == nil {
			good = false
			site = r.P.pos(rd[n].Pos())
			why = "the reading side applies " + n + " but the writing side does not apply " + inv[n] + " (it applies: " + strings.Join(wn, ", ") + ")"
		}
	}
	r.Check(good, rule, fnName(writers[0]), "encoding of "+what+" undone by its inverse", site,
		"writer and reader apply matching library encodings ("+fmt.Sprint(len(wn))+" on the writing side)",
		"the components of "+what+" are encoded and decoded by functions that are not inverses of each other: "+why+" — "+consequence)
}

// checkEncodedEverywhere: when the writer applies a library encoder at all, every Sprintf of
// the writer whose format holds the separator of the encoded component takes a value that went
// through the encoder (directly or through a helper of the module that calls it).
func (r *Run) checkEncodedEverywhere(rule string, writer *ssa.Function, sep string) {
	inv := map[string]bool{}
	for e, d := range codecInverse {
		inv[e] = true
		inv[d] = true
	}
	encodes := func(fn *ssa.Function) bool {
		for _, ins := range allInstrs(fn) {
			if ci, ok := ins.(ssa.CallInstruction); ok && inv[calleeName(ci.Common())] {
				return true
			}
		}
		return false
	}
	region := r.P.CG.Reachable([]*ssa.Function{writer}, nil)
	any := false
	for g := range region {
		if topFn(g).Pkg == topFn(writer).Pkg && encodes(g) {
			any = true
		}
	}
	if !any {
		return
	}
	var throughEncoder func(v ssa.Value, depth int) bool
	throughEncoder = func(v ssa.Value, depth int) bool {
		if depth > 6 || v == nil {
			return false
		}
		if c, ok := v.(*ssa.Call); ok {
			if inv[calleeName(&c.Call)] {
				return true
			}
			if sc := c.Call.StaticCallee(); sc != nil && inModule(sc) && sc.Blocks != nil && encodes(sc) {
				return true
			}
		}
		ins, ok := v.(ssa.Instruction)
		if !ok {
			return false
		}
		for _, op := range ins.Operands(nil) {
			if *op != nil && throughEncoder(*op, depth+1) {
				return true
			}
		}
		return false
	}
	for _, ins := range allInstrs(writer) {
		c, ok := ins.(*ssa.Call)
		if !ok || calleeName(&c.Call) != "fmt.Sprintf" || len(c.Call.Args) < 2 {
			continue
		}
		k, ok := c.Call.Args[0].(*ssa.Const)
		if !ok || k.Value == nil || !strings.Contains(constant.StringVal(k.Value), sep) {
			continue
		}
		// the values packed into the variadic argument
		encoded := false
		if sl, ok := c.Call.Args[1].(*ssa.Slice); ok {
			if arr, ok := sl.X.(*ssa.Alloc); ok {
				for _, ref := range *arr.Referrers() {
					if ia, ok := ref.(*ssa.IndexAddr); ok {
						for _, r2 := range *ia.Referrers() {
							if st, ok := r2.(*ssa.Store); ok && throughEncoder(st.Val, 0) {
								encoded = true
							}
						}
					}
				}
			}
		}
		r.Check(encoded, rule, fnName(writer), "component after `"+sep+"` encoded at this writing site", r.P.pos(c.Pos()),
			"the value written after the separator went through the encoder",
			"the writer encodes the component after `"+sep+"` at some sites but not at this one, while the reader always decodes it: a value written here that contains an escape character is rejected or changed when it is read back")
	}
}

// ruleUploadBytes (R13q.bytes): between the client's multipart part and the part written for the
// owning service a file is handed on as it was opened: code reachable from the upload entry
// points calls nothing that bounds or cuts a byte stream (io.LimitReader, io.CopyN,
// io.NewSectionReader, http.MaxBytesReader, a literal io.LimitedReader / io.SectionReader). A
// bound that is generous for every test file still cuts the first file that is larger.
var byteBounders = map[string]bool{
	"io.LimitReader":           true,
	"io.CopyN":                 true,
	"io.NewSectionReader":      true,
	"io.NewOffsetWriter":       true,
	"net/http.MaxBytesReader":  true,
	"(*bytes.Buffer).Truncate": true,
	"(*os.File).Truncate":      true,
}

func ruleUploadBytes(r *Run) {
	const rule = "R13q.bytes"
	var roots []*ssa.Function
	for _, name := range scUpload.roots {
		if f := r.Anchor(rule, name); f != nil {
			roots = append(roots, f)
		}
	}
	if len(roots) == 0 {
		return
	}
	n := 0
	for fn := range r.P.CG.ReachableAll(roots) {
		if !inModule(fn) {
			continue
		}
		n++
		for _, ins := range allInstrs(fn) {
			switch x := ins.(type) {
			case ssa.CallInstruction:
				cn := calleeName(x.Common())
				if byteBounders[cn] && !boundsAnAnswer(r, fn, cn, x.Common().Args) {
					r.Check(false, rule, fnName(fn), "call of "+cn, r.P.pos(ins.Pos()), "",
						"code on the upload path calls "+cn+": a file longer than the bound reaches the owning service cut short (or not at all), without an error")
				}
			case *ssa.Alloc:
				t := x.Type().(*types.Pointer).Elem().String()
				if t == "io.LimitedReader" || t == "io.SectionReader" {
					r.Check(false, rule, fnName(fn), "a "+t, r.P.pos(ins.Pos()), "",
						"code on the upload path builds a "+t+": a file longer than the bound reaches the owning service cut short, without an error")
				}
			}
		}
	}
	r.OKTrivial(rule, "", "upload path", "-", strconv.Itoa(n)+" function(s) reachable from "+strings.Join(scUpload.roots, ", ")+" call nothing that bounds or cuts a byte stream")
}

// boundsAnAnswer: the stream handed to the bounding call is the body of a service's HTTP answer
// (`resp.Body`): a limit on what a service may send back is not a limit on a file.
func boundsAnAnswer(r *Run, fn *ssa.Function, cn string, args []ssa.Value) bool {
	idx := 0
	if cn == "io.CopyN" || cn == "net/http.MaxBytesReader" {
		idx = 1
	}
	if idx >= len(args) {
		return false
	}
	return isAnswerBody(r, fn, args[idx], 0)
}

// isAnswerBody: v is `resp.Body` of a *http.Response, or a parameter of fn for which every call
// site of the module hands in one (a `readBody(r io.Reader, limit)` helper).
func isAnswerBody(r *Run, fn *ssa.Function, v ssa.Value, depth int) bool {
	for i := 0; i < 8 && v != nil; i++ {
		switch x := v.(type) {
		case *ssa.Parameter:
			if depth > 2 || x.Parent() != fn {
				return false
			}
			sites := 0
			for pi, par := range fn.Params {
				if par != x {
					continue
				}
				for _, e := range r.P.CG.In[origin(fn)] {
					if e.Site == nil || e.Caller == nil {
						return false
					}
					a := e.Site.Common().Args
					if pi >= len(a) || !isAnswerBody(r, e.Caller, a[pi], depth+1) {
						return false
					}
					sites++
				}
			}
			return sites > 0
		case *ssa.MakeInterface:
			v = x.X
		case *ssa.ChangeInterface:
			v = x.X
		case *ssa.ChangeType:
			v = x.X
		case *ssa.TypeAssert:
			v = x.X
		case *ssa.UnOp:
			if fa, ok := x.X.(*ssa.FieldAddr); ok {
				if f := fieldOf(fa); f != nil && f.Name() == "Body" {
					return strings.HasSuffix(fa.X.Type().String(), "net/http.Response")
				}
			}
			return false
		default:
			return false
		}
	}
	return false
}

// namingParams: the parameters of h that h turns into a part name with strconv.Itoa — itself or
// through a helper of the module (two levels) — on every path through h (a helper that returns
// before it names the part skips the element as a `continue` in the loop would).
func namingParams(h *ssa.Function, depth int) []int {
	var out []int
	if depth > 2 || len(h.Blocks) == 0 {
		return nil
	}
	for _, hi := range allInstrs(h) {
		hc, ok := hi.(*ssa.Call)
		if !ok {
			continue
		}
		var named []ssa.Value
		if calleeName(&hc.Call) == "strconv.Itoa" {
			named = append(named, hc.Call.Args[0])
		} else if g := hc.Call.StaticCallee(); g != nil && inModule(g) && g != h {
			for _, gi := range namingParams(g, depth+1) {
				if gi < len(hc.Call.Args) {
					named = append(named, hc.Call.Args[gi])
				}
			}
		}
		if len(named) == 0 {
			continue
		}
		if ok, _ := mustPass(h.Blocks[0], 0, func(i ssa.Instruction) bool { return i == ssa.Instruction(hc) }); !ok {
			continue
		}
		for _, v := range named {
			for pi, par := range h.Params {
				if unwrap(v) == ssa.Value(par) {
					out = append(out, pi)
				}
			}
		}
	}
	return out
}
