package main

// R7 — PANIC: panic-freedom obligations (DESIGN §3 R7).
//  P1 unproven bounds checks (compiler's own BCE facts + extra provers + table)
//  P2 single-result type assertions
//  P3 nil-able lookups (maps with pointer/interface elements, gqlparser ForName family)
//  P4 explicit panic
//  P5 pointer fields of JSON-decoded structs
//  P6 division/modulo by a non-constant

import (
	"bufio"
	"bytes"
	"fmt"
	"go/ast"
	"go/constant"
	"go/token"
	"go/types"
	"os/exec"
	"path/filepath"
	"reflect"
	"regexp"
	"sort"
	"strconv"
	"strings"

	"golang.org/x/tools/go/ssa"
)

type bceSite struct {
	file string // relative to repo
	line int
	col  int
	kind string
}

var bceCache = map[string][]bceSite{}

// compilerBCE asks the installed compiler which bounds checks it could not eliminate.
// It compiles the module (no execution); the go build cache replays diagnostics.
func compilerBCE(P *Prog) ([]bceSite, error) {
	if s, ok := bceCache[P.Repo]; ok {
		return s, nil
	}
	cmd := exec.Command("go", "build", "-gcflags="+modPath+"/...=-l -d=ssa/check_bce/debug=1", "./...")
	cmd.Dir = P.Repo
	cmd.Env = loadEnv()
	var buf bytes.Buffer
	cmd.Stderr = &buf
	cmd.Stdout = &buf
	err := cmd.Run()
	re := regexp.MustCompile(`^(\S+\.go):(\d+):(\d+): Found (IsInBounds|IsSliceInBounds)`)
	var out []bceSite
	sc := bufio.NewScanner(&buf)
	nOther := 0
	for sc.Scan() {
		line := sc.Text()
		m := re.FindStringSubmatch(line)
		if m == nil {
			if !strings.HasPrefix(line, "#") && strings.TrimSpace(line) != "" {
				nOther++
			}
			continue
		}
		f := m[1]
		if filepath.IsAbs(f) {
			rel, e := filepath.Rel(P.Repo, f)
			if e != nil || strings.HasPrefix(rel, "..") {
				continue // dependency
			}
			f = rel
		}
		f = filepath.Clean(f)
		l, _ := strconv.Atoi(m[2])
		c, _ := strconv.Atoi(m[3])
		out = append(out, bceSite{f, l, c, m[4]})
	}
	if err != nil && len(out) == 0 {
		return nil, fmt.Errorf("go build for bounds-check facts failed: %v\n%s", err, buf.String())
	}
	sort.Slice(out, func(i, j int) bool {
		if out[i].file != out[j].file {
			return out[i].file < out[j].file
		}
		if out[i].line != out[j].line {
			return out[i].line < out[j].line
		}
		return out[i].col < out[j].col
	})
	bceCache[P.Repo] = out
	return out, nil
}

// fnBySyntax maps FuncDecl/FuncLit nodes to ssa functions.
func (P *Prog) fnBySyntax() map[ast.Node]*ssa.Function {
	m := map[ast.Node]*ssa.Function{}
	for _, fn := range P.Funcs {
		if s := fn.Syntax(); s != nil {
			m[s] = fn
		}
	}
	return m
}

// findIndexAt locates the IndexExpr/SliceExpr whose '[' is at file:line:col.
func (P *Prog) findIndexAt(s bceSite) (path []ast.Node, info *types.Info) {
	for _, p := range P.Pkgs {
		for _, f := range p.Syntax {
			name := P.Fset.Position(f.Pos()).Filename
			rel, _ := filepath.Rel(P.Repo, name)
			if rel != s.file {
				continue
			}
			var stack []ast.Node
			var found []ast.Node
			ast.Inspect(f, func(n ast.Node) bool {
				if n == nil {
					stack = stack[:len(stack)-1]
					return true
				}
				stack = append(stack, n)
				var lb token.Pos
				switch x := n.(type) {
				case *ast.IndexExpr:
					lb = x.Lbrack
				case *ast.SliceExpr:
					lb = x.Lbrack
				}
				if lb.IsValid() {
					pp := P.Fset.Position(lb)
					if pp.Line == s.line && pp.Column == s.col {
						found = make([]ast.Node, len(stack))
						for i := range stack {
							found[i] = stack[len(stack)-1-i]
						}
					}
				}
				return true
			})
			if found != nil {
				return found, p.TypesInfo
			}
		}
	}
	return nil, nil
}

func enclosingFuncNode(path []ast.Node) ast.Node {
	for _, n := range path {
		switch n.(type) {
		case *ast.FuncLit, *ast.FuncDecl:
			return n
		}
	}
	return nil
}

func qualifiedCallee(info *types.Info, c *ast.CallExpr) string {
	var id *ast.Ident
	switch f := c.Fun.(type) {
	case *ast.Ident:
		id = f
	case *ast.SelectorExpr:
		id = f.Sel
	case *ast.IndexExpr: // generic instantiation f[T]
		switch g := f.X.(type) {
		case *ast.Ident:
			id = g
		case *ast.SelectorExpr:
			id = g.Sel
		}
	}
	if id == nil {
		return ""
	}
	if fn, ok := info.Uses[id].(*types.Func); ok {
		return fn.FullName()
	}
	return ""
}

// proveBounds tries the repository-specific provers on an index/slice expression.
func (P *Prog) proveBounds(path []ast.Node, info *types.Info) (bool, string) {
	fc := newFactCtx(info, path)
	switch e := path[0].(type) {
	case *ast.IndexExpr:
		// only slices, arrays, strings (maps never produce bounds checks)
		X, I := e.X, e.Index
		// (a) strings.Split*(..)[0]
		if n, ok := intLit(info, I); ok && n == 0 {
			if P.isSplitResult(fc, X) {
				return true, "strings.Split*/SplitN returns at least one element, index 0"
			}
		}
		// constant index under a len guard on the same expression
		if n, ok := intLit(info, I); ok && n >= 0 {
			if fc.lenGreater(X, n) {
				return true, fmt.Sprintf("constant index %d under a dominating guard that implies len(%s) > %d", n, normExpr(info, X), n)
			}
		}
		// strings.Split(S, SEP)[1] under a dominating strings.Contains(S, SEP)
		if n, ok := intLit(info, I); ok && n == 1 {
			if P.splitUnderContains(fc, X) {
				return true, "strings.Split(S, sep) has at least two elements because strings.Contains(S, sep) dominates the use"
			}
		}
		// (c) less callback of sort.Slice*
		if why, ok := P.sortLessProver(path, info, X, I); ok {
			return true, why
		}
		// (c') Less/Swap method of a sort.Interface implementation over the receiver
		if why, ok := P.sortMethodProver(path, info, X, I); ok {
			return true, why
		}
		// (b) element of lo.Range(len(X)) handed to the closure by AsyncMapReduce / lo.Map
		if why, ok := P.rangeParamProver(path, info, X, I); ok {
			return true, why
		}
		// (d) for i := range E { ... E[i] ... } on the same (field) expression
		if why, ok := P.rangeSameExprProver(fc, path, info, X, I); ok {
			return true, why
		}
		// (d') for i := range Y { … X[i] … } with a live fact len(Y) == len(X)
		if why, ok := P.rangeLenEqProver(fc, path, info, X, I); ok {
			return true, why
		}
		// (d") for i := range p { … q[i] … } where p, q are parameters and every caller
		// passes a q made with len(p)
		if why, ok := P.parallelParamProver(fc, path, info, X, I); ok {
			return true, why
		}
		// (d"') X and I are parameters, and every caller passes them under a guard I < len(X)
		if why, ok := P.callerGuardProver(path, info, X, I); ok {
			return true, why
		}
		// (e) I < len(X) from guards, and I >= 0
		if fc.idxBelowLen(I, X) {
			if fc.nonNeg(I, 0) {
				return true, "dominating guard gives index < len(" + normExpr(info, X) + "); index is non-negative by construction"
			}
			return false, "upper bound is guarded but nothing shows the index is non-negative"
		}
	case *ast.SliceExpr:
		// x[:k] where k := strings.Index(x, ..) guarded k > 0  (Index result <= len(x))
		if e.Low == nil && e.High != nil && !e.Slice3 {
			if id, ok := e.High.(*ast.Ident); ok {
				if P.isStringsIndexOf(fc, id, e.X) && fc.nonNeg(id, 0) {
					return true, "slice bound is strings.Index of the same string (≤ len) and guarded non-negative"
				}
			}
		}
	}
	return false, ""
}

// isSplitResult: X is a call of strings.Split/SplitN/SplitAfter/Fields-free variants, or a
// local assigned exactly once from such a call and never re-sliced/reassigned.
func (P *Prog) isSplitResult(fc *factCtx, X ast.Expr) bool {
	isSplit := func(e ast.Expr) bool {
		c, ok := e.(*ast.CallExpr)
		if !ok {
			return false
		}
		switch qualifiedCallee(fc.info, c) {
		case "strings.Split", "strings.SplitN", "strings.SplitAfter", "strings.SplitAfterN":
			// SplitN with n == 0 returns nil; require n != 0 constant or the 2-arg forms
			if len(c.Args) == 3 {
				if n, ok := intLit(fc.info, c.Args[2]); !ok || n == 0 {
					return false
				}
			}
			return true
		}
		return false
	}
	if isSplit(X) {
		return true
	}
	id, ok := X.(*ast.Ident)
	if !ok || fc.fn == nil {
		return false
	}
	obj := fc.info.Uses[id]
	nAssign, okAll := 0, true
	var splits, others []*ast.AssignStmt
	defer func() {}()
	ast.Inspect(fc.fn, func(n ast.Node) bool {
		if as, ok := n.(*ast.AssignStmt); ok {
			for i, l := range as.Lhs {
				lid, ok := l.(*ast.Ident)
				if !ok {
					continue
				}
				o := fc.info.Defs[lid]
				if o == nil {
					o = fc.info.Uses[lid]
				}
				if o != obj {
					continue
				}
				// classified below
				nAssign++
				if len(as.Lhs) != len(as.Rhs) || !isSplit(as.Rhs[i]) {
					others = append(others, as)
				} else if as.Pos() < fc.use {
					splits = append(splits, as)
				}
			}
		}
		return true
	})
	if len(splits) == 0 {
		return false
	}
	last := splits[len(splits)-1]
	for _, a := range others {
		if a.Pos() < fc.use && a.Pos() > last.Pos() {
			okAll = false // re-assigned between the Split and the use
		}
		if a.Pos() < last.Pos() {
			continue // overwritten by the Split (straight-line; branches are handled conservatively below)
		}
		if a.Pos() > fc.use {
			// matters only through a loop that contains the use but not the Split
			for _, n := range fc.path {
				switch n.(type) {
				case *ast.ForStmt, *ast.RangeStmt:
					if n.Pos() <= a.Pos() && a.Pos() < n.End() && !(n.Pos() <= last.Pos() && last.Pos() < n.End()) {
						okAll = false
					}
				}
			}
		}
	}
	// the Split assignment must not be conditional relative to the use: it has to be in a
	// statement list that encloses the use
	encl := false
	for _, n := range fc.path {
		var list []ast.Stmt
		switch b := n.(type) {
		case *ast.BlockStmt:
			list = b.List
		case *ast.CaseClause:
			list = b.Body
		}
		for _, st := range list {
			if st == ast.Stmt(last) {
				encl = true
			}
		}
	}
	return nAssign >= 1 && okAll && encl
}

// splitUnderContains: X is a local assigned from strings.Split(S, SEP) and a live guard
// strings.Contains(S, SEP) holds at the use.
func (P *Prog) splitUnderContains(fc *factCtx, X ast.Expr) bool {
	id, ok := X.(*ast.Ident)
	if !ok || fc.fn == nil {
		return false
	}
	if !P.isSplitResult(fc, X) {
		return false
	}
	obj := fc.info.Uses[id]
	var split *ast.CallExpr
	ast.Inspect(fc.fn, func(n ast.Node) bool {
		if as, ok := n.(*ast.AssignStmt); ok && as.Pos() < fc.use {
			for i, l := range as.Lhs {
				lid, ok := l.(*ast.Ident)
				if !ok || len(as.Lhs) != len(as.Rhs) {
					continue
				}
				o := fc.info.Defs[lid]
				if o == nil {
					o = fc.info.Uses[lid]
				}
				if o == obj {
					if c, ok := as.Rhs[i].(*ast.CallExpr); ok && qualifiedCallee(fc.info, c) == "strings.Split" {
						split = c
					}
				}
			}
		}
		return true
	})
	if split == nil || len(split.Args) != 2 {
		return false
	}
	for _, f := range fc.live() {
		c, ok := f.cond.(*ast.CallExpr)
		if !ok || !f.pol || qualifiedCallee(fc.info, c) != "strings.Contains" || len(c.Args) != 2 {
			continue
		}
		if idExpr(fc.info, c.Args[0]) == idExpr(fc.info, split.Args[0]) && idExpr(fc.info, c.Args[1]) == idExpr(fc.info, split.Args[1]) {
			// the guard must have been evaluated on the same string value: the Split happens inside the guarded region
			if split.Pos() > f.from {
				return true
			}
		}
	}
	return false
}

// inLoopWith: is position p inside a loop that also contains the use?
func (fc *factCtx) inLoopWith(p token.Pos) bool {
	for _, n := range fc.path {
		switch n.(type) {
		case *ast.ForStmt, *ast.RangeStmt:
			if n.Pos() <= p && p < n.End() {
				return true
			}
		}
	}
	return false
}

func (P *Prog) isStringsIndexOf(fc *factCtx, id *ast.Ident, S ast.Expr) bool {
	obj := fc.info.Uses[id]
	if obj == nil || fc.fn == nil {
		return false
	}
	want := idExpr(fc.info, S)
	n, okAll := 0, true
	var defEnd token.Pos
	ast.Inspect(fc.fn, func(nd ast.Node) bool {
		if as, ok := nd.(*ast.AssignStmt); ok {
			for i, l := range as.Lhs {
				lid, ok := l.(*ast.Ident)
				if !ok {
					continue
				}
				o := fc.info.Defs[lid]
				if o == nil {
					o = fc.info.Uses[lid]
				}
				if o != obj {
					continue
				}
				n++
				defEnd = as.End()
				if len(as.Lhs) != len(as.Rhs) {
					okAll = false
					continue
				}
				c, ok := as.Rhs[i].(*ast.CallExpr)
				if !ok || len(c.Args) != 2 || idExpr(fc.info, c.Args[0]) != want {
					okAll = false
					continue
				}
				switch qualifiedCallee(fc.info, c) {
				case "strings.Index", "strings.LastIndex", "strings.IndexByte", "strings.IndexRune":
				default:
					okAll = false
				}
			}
		}
		return true
	})
	if n != 1 || !okAll {
		return false
	}
	// the sliced string must not have been reassigned between the Index call and the slice
	// (S is usually re-sliced by the very statement that holds the slice expression: that
	// assignment takes effect after the expression is evaluated, so the window ends where the
	// statement begins; inside a loop the statement still counts, through assignedBetween's
	// loop clause)
	to := fc.use
	for _, nd := range fc.path {
		if st, isStmt := nd.(ast.Stmt); isStmt {
			to = st.Pos()
			break
		}
	}
	return !fc.assignedBetween(objsIn(fc.info, S), defEnd, to, nil)
}

func (P *Prog) sortLessProver(path []ast.Node, info *types.Info, X, I ast.Expr) (string, bool) {
	id, ok := I.(*ast.Ident)
	if !ok {
		return "", false
	}
	for i, n := range path {
		fl, ok := n.(*ast.FuncLit)
		if !ok {
			continue
		}
		if i+1 >= len(path) {
			break
		}
		call, ok := path[i+1].(*ast.CallExpr)
		if !ok {
			// `less := func(i, j int) bool {…}` handed to sort.Slice* by name: every use of the
			// variable is the comparator argument of a sort over the same slice
			as, isAssign := path[i+1].(*ast.AssignStmt)
			if !isAssign || len(as.Lhs) != 1 || len(as.Rhs) != 1 || as.Rhs[0] != ast.Expr(fl) {
				break
			}
			lid, isId := as.Lhs[0].(*ast.Ident)
			if !isId {
				break
			}
			obj := info.Defs[lid]
			if obj == nil {
				break
			}
			var encl ast.Node
			for _, n2 := range path[i+1:] {
				if _, isFn := n2.(*ast.FuncDecl); isFn {
					encl = n2
				}
				if _, isFn := n2.(*ast.FuncLit); isFn && encl == nil {
					encl = n2
				}
			}
			if encl == nil {
				break
			}
			uses, good := 0, true
			ast.Inspect(encl, func(n2 ast.Node) bool {
				c2, isCall := n2.(*ast.CallExpr)
				if isCall && len(c2.Args) == 2 {
					if a1, isId := c2.Args[1].(*ast.Ident); isId && info.Uses[a1] == obj {
						switch qualifiedCallee(info, c2) {
						case "sort.Slice", "sort.SliceStable", "sort.SliceIsSorted":
							if idExpr(info, c2.Args[0]) == idExpr(info, X) {
								uses++
								return true
							}
						}
						good = false
					}
				}
				if id2, isId := n2.(*ast.Ident); isId && info.Uses[id2] == obj {
					uses--
				}
				return true
			})
			// every use counted +1 as a sort argument and -1 as an identifier: balanced means no other use
			if !good || uses != 0 {
				break
			}
			call = nil
		} else {
			if len(call.Args) != 2 || call.Args[1] != ast.Expr(fl) {
				break
			}
			switch qualifiedCallee(info, call) {
			case "sort.Slice", "sort.SliceStable", "sort.SliceIsSorted":
			default:
				return "", false
			}
			if idExpr(info, call.Args[0]) != idExpr(info, X) {
				return "", false
			}
		}
		if fl.Type.Params == nil {
			return "", false
		}
		for _, f := range fl.Type.Params.List {
			for _, nm := range f.Names {
				if info.Defs[nm] == info.Uses[id] {
					// the slice must not be reassigned inside the callback
					lfc := &factCtx{info: info, path: path, fn: fl, use: path[0].Pos()}
					if lfc.assignedBetween(objsIn(info, X), fl.Pos(), fl.End(), nil) {
						return "", false
					}
					return "index is a parameter of the less callback of sort.Slice* over the same slice", true
				}
			}
		}
		break
	}
	return "", false
}

// sortMethodProver: recv[i] in the Less or Swap method of a named slice type whose Len method
// returns len(recv): package sort calls these with 0 <= i, j < Len() only. The methods must
// not be used by the module itself (called directly or taken as values), and the receiver
// must not be reassigned in the method.
func (P *Prog) sortMethodProver(path []ast.Node, info *types.Info, X, I ast.Expr) (string, bool) {
	xid, ok1 := X.(*ast.Ident)
	iid, ok2 := I.(*ast.Ident)
	if !ok1 || !ok2 {
		return "", false
	}
	var decl *ast.FuncDecl
	for _, n := range path {
		if _, isLit := n.(*ast.FuncLit); isLit {
			return "", false
		}
		if d, ok := n.(*ast.FuncDecl); ok {
			decl = d
		}
	}
	if decl == nil || decl.Recv == nil || len(decl.Recv.List) != 1 || len(decl.Recv.List[0].Names) != 1 || decl.Body == nil {
		return "", false
	}
	if decl.Name.Name != "Less" && decl.Name.Name != "Swap" {
		return "", false
	}
	recv := info.Defs[decl.Recv.List[0].Names[0]]
	if recv == nil || info.Uses[xid] != recv {
		return "", false
	}
	named, ok := recv.Type().(*types.Named)
	if !ok {
		return "", false
	}
	if _, isSlice := named.Underlying().(*types.Slice); !isSlice {
		return "", false
	}
	// signature (i, j int) and I is one of the two
	sig, _ := info.Defs[decl.Name].Type().(*types.Signature)
	if sig == nil || sig.Params().Len() != 2 {
		return "", false
	}
	isParam := false
	for k := 0; k < 2; k++ {
		if types.Object(sig.Params().At(k)) == info.Uses[iid] {
			isParam = true
		}
	}
	if !isParam {
		return "", false
	}
	// neither the receiver nor the index is assigned in the body
	// (an element write `s[i] = …` — Swap — leaves the slice itself alone)
	objs := map[types.Object]bool{recv: true, info.Uses[iid]: true}
	reassigned := false
	ast.Inspect(decl.Body, func(nd ast.Node) bool {
		whole := func(e ast.Expr) {
			if id, ok := e.(*ast.Ident); ok && objs[info.Uses[id]] {
				reassigned = true
			}
		}
		switch st := nd.(type) {
		case *ast.AssignStmt:
			for _, l := range st.Lhs {
				whole(l)
			}
		case *ast.IncDecStmt:
			whole(st.X)
		case *ast.RangeStmt:
			if st.Tok == token.ASSIGN {
				whole(st.Key)
				whole(st.Value)
			}
		case *ast.UnaryExpr:
			if st.Op == token.AND {
				whole(st.X)
			}
		}
		return true
	})
	if reassigned {
		return "", false
	}
	// the three methods exist, Len is `return len(recv)`, and the module never uses Less/Swap itself
	methods := map[string]*types.Func{}
	for k := 0; k < named.NumMethods(); k++ {
		methods[named.Method(k).Name()] = named.Method(k)
	}
	if methods["Len"] == nil || methods["Less"] == nil || methods["Swap"] == nil {
		return "", false
	}
	lenOK := false
	for _, pkg := range P.Pkgs {
		for _, file := range pkg.Syntax {
			for _, d := range file.Decls {
				fd, ok := d.(*ast.FuncDecl)
				if !ok || pkg.TypesInfo.Defs[fd.Name] != types.Object(methods["Len"]) || fd.Body == nil || len(fd.Body.List) != 1 {
					continue
				}
				ret, ok := fd.Body.List[0].(*ast.ReturnStmt)
				if !ok || len(ret.Results) != 1 || fd.Recv == nil || len(fd.Recv.List) != 1 || len(fd.Recv.List[0].Names) != 1 {
					continue
				}
				if arg, ok := isLenOf(pkg.TypesInfo, ret.Results[0]); ok {
					if aid, ok := arg.(*ast.Ident); ok && pkg.TypesInfo.Uses[aid] == pkg.TypesInfo.Defs[fd.Recv.List[0].Names[0]] {
						lenOK = true
					}
				}
			}
			ast.Inspect(file, func(nd ast.Node) bool {
				if id, ok := nd.(*ast.Ident); ok {
					if u := pkg.TypesInfo.Uses[id]; u != nil && (u == types.Object(methods["Less"]) || u == types.Object(methods["Swap"])) {
						lenOK = false
						methods["Len"] = nil
					}
				}
				return true
			})
		}
	}
	if !lenOK || methods["Len"] == nil {
		return "", false
	}
	return "index is a parameter of the " + decl.Name.Name + " method of a sort.Interface implementation whose Len is len of the receiver: package sort passes positions below Len() only, and the module does not call the method itself", true
}

// rangeParamProver: X[i] inside a closure whose first parameter i ranges over
// lo.Range(len(X)) — as mapFunc of common.AsyncMapReduce or callback of lo.Map/lo.ForEach.
// The closure is written in place or bound to a local (`work := func(i int) …`) every use of
// which is such a callback argument; the length may be taken directly or through a local
// defined once as `n := len(X)` with X not reassigned up to the call.
func (P *Prog) rangeParamProver(path []ast.Node, info *types.Info, X, I ast.Expr) (string, bool) {
	id, ok := I.(*ast.Ident)
	if !ok {
		return "", false
	}
	for i, n := range path {
		fl, ok := n.(*ast.FuncLit)
		if !ok {
			continue
		}
		if i+1 >= len(path) {
			return "", false
		}
		if fl.Type.Params == nil || len(fl.Type.Params.List) == 0 || len(fl.Type.Params.List[0].Names) == 0 {
			return "", false
		}
		if info.Defs[fl.Type.Params.List[0].Names[0]] != info.Uses[id] {
			return "", false
		}
		// the call sites the closure is handed to, each with its own enclosing path
		type site struct {
			call *ast.CallExpr
			path []ast.Node // innermost first, starting at the call
			fun  ast.Expr   // the argument that stands for the closure
		}
		var sites []site
		switch p := path[i+1].(type) {
		case *ast.CallExpr:
			sites = append(sites, site{p, path[i+1:], fl})
		case *ast.AssignStmt:
			if len(p.Lhs) != 1 || len(p.Rhs) != 1 || p.Rhs[0] != ast.Expr(fl) || p.Tok != token.DEFINE {
				return "", false
			}
			lid, isId := p.Lhs[0].(*ast.Ident)
			if !isId || info.Defs[lid] == nil {
				return "", false
			}
			obj := info.Defs[lid]
			encl := enclosingFuncNode(path[i+1:])
			if encl == nil {
				return "", false
			}
			good := true
			var stack []ast.Node
			ast.Inspect(encl, func(n2 ast.Node) bool {
				if n2 == nil {
					stack = stack[:len(stack)-1]
					return true
				}
				stack = append(stack, n2)
				id2, isId := n2.(*ast.Ident)
				if !isId || info.Uses[id2] != obj {
					return true
				}
				// every use of the variable is an argument of a call
				if len(stack) < 2 {
					good = false
					return true
				}
				c2, isCall := stack[len(stack)-2].(*ast.CallExpr)
				if !isCall || c2.Fun == ast.Expr(id2) {
					good = false
					return true
				}
				rev := make([]ast.Node, 0, len(stack)-1)
				for k := len(stack) - 2; k >= 0; k-- {
					rev = append(rev, stack[k])
				}
				sites = append(sites, site{c2, rev, id2})
				return true
			})
			if !good || len(sites) == 0 {
				return "", false
			}
		default:
			return "", false
		}
		for _, s := range sites {
			call := s.call
			callee := qualifiedCallee(info, call)
			var src ast.Expr
			switch {
			case callee == modPath+"/common.AsyncMapReduce" && len(call.Args) == 4 && call.Args[2] == s.fun:
				src = call.Args[0]
			case (callee == "github.com/samber/lo.Map" || callee == "github.com/samber/lo.ForEach") && len(call.Args) == 2 && call.Args[1] == s.fun:
				src = call.Args[0]
			default:
				return "", false
			}
			rc, ok := src.(*ast.CallExpr)
			if !ok || qualifiedCallee(info, rc) != "github.com/samber/lo.Range" || len(rc.Args) != 1 {
				return "", false
			}
			cfc := &factCtx{info: info, path: s.path, fn: enclosingFuncNode(s.path), use: call.Pos()}
			arg, ok := cfc.lenArg(rc.Args[0])
			if !ok || idExpr(info, arg) != idExpr(info, X) {
				return "", false
			}
		}
		// the indexed expression must not be reassigned inside the closure
		fc := &factCtx{info: info, path: path, fn: fl, use: path[0].Pos()}
		if fc.assignedBetween(objsIn(info, X), fl.Pos(), fl.End(), nil) {
			return "", false
		}
		return "index is the closure's parameter, an element of lo.Range(len(" + normExpr(info, X) + "))", true
	}
	return "", false
}

// rangeSameExprProver: for i := range E { … E[i] … } where E is the same side-effect-free
// expression (e.g. a field) and is not reassigned in the body before the use.
func (P *Prog) rangeSameExprProver(fc *factCtx, path []ast.Node, info *types.Info, X, I ast.Expr) (string, bool) {
	id, ok := I.(*ast.Ident)
	if !ok {
		return "", false
	}
	obj := info.Uses[id]
	for _, n := range path {
		rs, ok := n.(*ast.RangeStmt)
		if !ok {
			continue
		}
		kid, ok := rs.Key.(*ast.Ident)
		if !ok || info.Defs[kid] != obj {
			continue
		}
		if idExpr(info, rs.X) != idExpr(info, X) {
			return "", false
		}
		if fc.fn == nil {
			fc.fn = enclosingFuncNode(path)
		}
		objs := objsIn(info, X)
		objs[obj] = true
		// no assignment to E's root or to i inside the loop body (a write E[i] = v is an
		// element write, not a reassignment of E: rootIdent-based check would flag it, so
		// compare only whole-expression assignments)
		bad := false
		ast.Inspect(rs.Body, func(nd ast.Node) bool {
			switch s := nd.(type) {
			case *ast.AssignStmt:
				for _, l := range s.Lhs {
					if _, isIdx := l.(*ast.IndexExpr); isIdx {
						continue
					}
					if idExpr(info, l) == idExpr(info, X) {
						bad = true
					}
					if lid, ok := l.(*ast.Ident); ok && (info.Uses[lid] == obj) {
						bad = true
					}
					// assignment to a prefix of X (e.g. qp = …) also invalidates
					if lid, ok := l.(*ast.Ident); ok {
						if r := rootIdent(X); r != nil && info.Uses[r] != nil && info.Uses[lid] == info.Uses[r] {
							bad = true
						}
					}
				}
			case *ast.IncDecStmt:
				if lid, ok := s.X.(*ast.Ident); ok && info.Uses[lid] == obj {
					bad = true
				}
			}
			return true
		})
		if bad {
			return "", false
		}
		return "index is the key of `range " + normExpr(info, rs.X) + "` over the same expression, not reassigned in the body", true
	}
	return "", false
}

// rangeOf finds the enclosing `for I := range Y` that defines the index identifier I and
// checks that neither I nor Y's root is reassigned inside its body.
func rangeOf(path []ast.Node, info *types.Info, I ast.Expr) *ast.RangeStmt {
	id, ok := I.(*ast.Ident)
	if !ok {
		return nil
	}
	obj := info.Uses[id]
	for _, n := range path {
		rs, ok := n.(*ast.RangeStmt)
		if !ok {
			continue
		}
		kid, ok := rs.Key.(*ast.Ident)
		if !ok || info.Defs[kid] != obj || obj == nil {
			continue
		}
		switch info.TypeOf(rs.X).Underlying().(type) {
		case *types.Slice, *types.Array:
		default:
			return nil
		}
		bad := false
		root := rootIdent(rs.X)
		ast.Inspect(rs.Body, func(nd ast.Node) bool {
			switch s := nd.(type) {
			case *ast.AssignStmt:
				for _, l := range s.Lhs {
					if lid, ok := l.(*ast.Ident); ok {
						if info.Uses[lid] == obj || (root != nil && info.Uses[lid] != nil && info.Uses[lid] == info.Uses[root]) {
							bad = true
						}
					} else if _, isIdx := l.(*ast.IndexExpr); !isIdx && idExpr(info, l) == idExpr(info, rs.X) {
						bad = true
					}
				}
			case *ast.IncDecStmt:
				if lid, ok := s.X.(*ast.Ident); ok && info.Uses[lid] == obj {
					bad = true
				}
			}
			return true
		})
		if bad {
			return nil
		}
		return rs
	}
	return nil
}

// rangeLenEqProver: the index is the key of `range Y` and a live guard gives len(Y) == len(X).
func (P *Prog) rangeLenEqProver(fc *factCtx, path []ast.Node, info *types.Info, X, I ast.Expr) (string, bool) {
	rs := rangeOf(path, info, I)
	if rs == nil {
		return "", false
	}
	wy, wx := idExpr(info, rs.X), idExpr(info, X)
	for _, f := range fc.cmps() {
		if f.op != token.EQL {
			continue
		}
		a, ok1 := isLenOf(info, f.x)
		b, ok2 := isLenOf(info, f.y)
		if ok1 && ok2 && idExpr(info, a) == wy && idExpr(info, b) == wx {
			return "index is the key of `range " + normExpr(info, rs.X) + "` and a dominating guard gives len(" + normExpr(info, rs.X) + ") == len(" + normExpr(info, X) + ")", true
		}
	}
	return "", false
}

// parallelParamProver: X and the ranged slice are both parameters of the enclosing declared
// function, neither is reassigned in it, the function is only ever called directly, and at
// every call site the argument for X is a local defined once as make(T, len(<argument for
// the ranged parameter>)) and not reassigned before the call.
func (P *Prog) parallelParamProver(fc *factCtx, path []ast.Node, info *types.Info, X, I ast.Expr) (string, bool) {
	rs := rangeOf(path, info, I)
	if rs == nil {
		return "", false
	}
	xid, ok1 := X.(*ast.Ident)
	yid, ok2 := rs.X.(*ast.Ident)
	if !ok1 || !ok2 {
		return "", false
	}
	var decl *ast.FuncDecl
	for _, n := range path {
		if _, isLit := n.(*ast.FuncLit); isLit {
			return "", false
		}
		if d, ok := n.(*ast.FuncDecl); ok {
			decl = d
		}
	}
	if decl == nil || decl.Body == nil {
		return "", false
	}
	paramIndex := func(id *ast.Ident) int {
		k := 0
		for _, f := range decl.Type.Params.List {
			for _, nm := range f.Names {
				if info.Defs[nm] == info.Uses[id] {
					return k
				}
				k++
			}
		}
		return -1
	}
	xi, yi := paramIndex(xid), paramIndex(yid)
	if xi < 0 || yi < 0 {
		return "", false
	}
	// neither parameter is reassigned in the function
	reassigned := false
	ast.Inspect(decl.Body, func(nd ast.Node) bool {
		if as, ok := nd.(*ast.AssignStmt); ok {
			for _, l := range as.Lhs {
				if lid, ok := l.(*ast.Ident); ok && (info.Uses[lid] == info.Uses[xid] || info.Uses[lid] == info.Uses[yid]) {
					reassigned = true
				}
			}
		}
		if u, ok := nd.(*ast.UnaryExpr); ok && u.Op == token.AND {
			if lid, ok := u.X.(*ast.Ident); ok && (info.Uses[lid] == info.Uses[xid] || info.Uses[lid] == info.Uses[yid]) {
				reassigned = true
			}
		}
		return true
	})
	if reassigned {
		return "", false
	}
	fobj := info.Defs[decl.Name]
	if fobj == nil {
		return "", false
	}
	sites := 0
	okAll := true
	for _, pkg := range P.Pkgs {
		for _, file := range pkg.Syntax {
			var stack []ast.Node
			ast.Inspect(file, func(nd ast.Node) bool {
				if nd == nil {
					stack = stack[:len(stack)-1]
					return true
				}
				stack = append(stack, nd)
				id, ok := nd.(*ast.Ident)
				if !ok || pkg.TypesInfo.Uses[id] != fobj {
					return true
				}
				// the use must be the function position of a call
				var call *ast.CallExpr
				for k := len(stack) - 2; k >= 0 && k >= len(stack)-3; k-- {
					if c, ok := stack[k].(*ast.CallExpr); ok {
						fun := ast.Node(c.Fun)
						if fun == stack[k+1] {
							call = c
						}
						break
					}
					if _, isSel := stack[k].(*ast.SelectorExpr); !isSel {
						break
					}
				}
				if call == nil || len(call.Args) <= xi || len(call.Args) <= yi || call.Ellipsis.IsValid() {
					okAll = false
					return true
				}
				sites++
				if !madeWithLenOf(pkg.TypesInfo, stack, call, call.Args[xi], call.Args[yi]) {
					okAll = false
				}
				return true
			})
		}
	}
	if !okAll || sites == 0 {
		return "", false
	}
	return fmt.Sprintf("index is the key of `range %s`; %s and %s are parameters never reassigned here, and at each of the %d call site(s) of %s the argument for %s is make(…, len(<argument for %s>))", yid.Name, xid.Name, yid.Name, sites, decl.Name.Name, xid.Name, yid.Name), true
}

// callerGuardProver: X[I] where X and I are parameters of the enclosing declared function,
// neither is reassigned (nor has its address taken) in it, the function is only ever called
// directly, and at every call site in the module the guard facts give
// 0 <= <argument for I> < len(<argument for X>).
// Also X[len(X)-c] (c a constant >= 1) with X such a parameter: then every call site has to
// stand under a guard that gives len(<argument for X>) >= c.
func (P *Prog) callerGuardProver(path []ast.Node, info *types.Info, X, I ast.Expr) (string, bool) {
	xid, ok1 := X.(*ast.Ident)
	iid, ok2 := I.(*ast.Ident)
	if !ok1 {
		return "", false
	}
	// fromEnd: the index is len(X)-c
	fromEnd := int64(0)
	if !ok2 {
		be, ok := I.(*ast.BinaryExpr)
		if !ok || be.Op != token.SUB {
			return "", false
		}
		arg, isLen := isLenOf(info, be.X)
		aid, isID := arg.(*ast.Ident)
		c, isLit := intLit(info, be.Y)
		if !isLen || !isID || !isLit || c < 1 || info.Uses[aid] == nil || info.Uses[aid] != info.Uses[xid] {
			return "", false
		}
		fromEnd, iid = c, xid
	}
	var decl *ast.FuncDecl
	for _, n := range path {
		if _, isLit := n.(*ast.FuncLit); isLit {
			return "", false
		}
		if d, ok := n.(*ast.FuncDecl); ok {
			decl = d
		}
	}
	if decl == nil || decl.Body == nil || decl.Type.Params == nil {
		return "", false
	}
	paramIndex := func(id *ast.Ident) int {
		k := 0
		for _, f := range decl.Type.Params.List {
			for _, nm := range f.Names {
				if info.Defs[nm] == info.Uses[id] && info.Uses[id] != nil {
					return k
				}
				k++
			}
		}
		return -1
	}
	xi, ii := paramIndex(xid), paramIndex(iid)
	if xi < 0 || ii < 0 {
		return "", false
	}
	reassigned := false
	touches := func(e ast.Expr) bool {
		lid, ok := e.(*ast.Ident)
		return ok && (info.Uses[lid] == info.Uses[xid] || info.Uses[lid] == info.Uses[iid])
	}
	ast.Inspect(decl.Body, func(nd ast.Node) bool {
		switch s := nd.(type) {
		case *ast.AssignStmt:
			for _, l := range s.Lhs {
				if touches(l) {
					reassigned = true
				}
			}
		case *ast.IncDecStmt:
			if touches(s.X) {
				reassigned = true
			}
		case *ast.RangeStmt:
			if s.Tok == token.ASSIGN && ((s.Key != nil && touches(s.Key)) || (s.Value != nil && touches(s.Value))) {
				reassigned = true
			}
		case *ast.UnaryExpr:
			if s.Op == token.AND && touches(s.X) {
				reassigned = true
			}
		}
		return true
	})
	fobj := info.Defs[decl.Name]
	if reassigned || fobj == nil {
		return "", false
	}
	// a method can also be reached through an interface or as a method value: those calls do not
	// mention it by name in call position and are not among the call sites looked at below
	if sfn := P.fnBySyntax()[decl]; sfn != nil && P.CG != nil {
		for _, e := range P.CG.In[sfn] {
			if e.Kind != "static" {
				return "", false
			}
		}
	}
	sites, okAll := 0, true
	for _, pkg := range P.Pkgs {
		for _, file := range pkg.Syntax {
			var stack []ast.Node
			ast.Inspect(file, func(nd ast.Node) bool {
				if nd == nil {
					stack = stack[:len(stack)-1]
					return true
				}
				stack = append(stack, nd)
				id, ok := nd.(*ast.Ident)
				if !ok || pkg.TypesInfo.Uses[id] != fobj {
					return true
				}
				// the use must be the function position of a call
				var call *ast.CallExpr
				ci := -1
				for k := len(stack) - 2; k >= 0 && k >= len(stack)-3; k-- {
					if c, ok := stack[k].(*ast.CallExpr); ok {
						if ast.Node(c.Fun) == stack[k+1] {
							call, ci = c, k
						}
						break
					}
					if _, isSel := stack[k].(*ast.SelectorExpr); !isSel {
						break
					}
				}
				if call == nil || len(call.Args) <= xi || len(call.Args) <= ii || call.Ellipsis.IsValid() {
					okAll = false
					return true
				}
				sites++
				rev := make([]ast.Node, 0, ci+1)
				for k := ci; k >= 0; k-- {
					rev = append(rev, stack[k])
				}
				cfc := newFactCtx(pkg.TypesInfo, rev)
				if fromEnd > 0 {
					if !cfc.lenGreater(call.Args[xi], fromEnd-1) {
						okAll = false
					}
				} else if !cfc.idxBelowLen(call.Args[ii], call.Args[xi]) || !cfc.nonNeg(call.Args[ii], 0) {
					okAll = false
				}
				return true
			})
		}
	}
	if !okAll || sites == 0 {
		return "", false
	}
	if fromEnd > 0 {
		return fmt.Sprintf("%s is a parameter never reassigned here, %s is only called directly, and at each of its %d call site(s) a dominating guard gives len(<argument for %s>) >= %d: the index len(%s)-%d is in range", xid.Name, decl.Name.Name, sites, xid.Name, fromEnd, xid.Name, fromEnd), true
	}
	return fmt.Sprintf("%s and %s are parameters never reassigned here, %s is only called directly, and at each of its %d call site(s) a dominating guard gives 0 <= <argument for %s> < len(<argument for %s>)", xid.Name, iid.Name, decl.Name.Name, sites, iid.Name, xid.Name), true
}

// madeWithLenOf: at the call, argument b is a local assigned exactly once, by
// `b := make(T, len(a))` in the same function, with a not reassigned between that and the call.
func madeWithLenOf(info *types.Info, stack []ast.Node, call *ast.CallExpr, b, a ast.Expr) bool {
	bid, ok := b.(*ast.Ident)
	if !ok {
		return false
	}
	bobj := info.Uses[bid]
	var fn ast.Node
	for k := len(stack) - 1; k >= 0; k-- {
		switch stack[k].(type) {
		case *ast.FuncDecl, *ast.FuncLit:
			fn = stack[k]
		}
		if fn != nil {
			break
		}
	}
	if fn == nil || bobj == nil {
		return false
	}
	defs, good := 0, false
	var defPos token.Pos
	ast.Inspect(fn, func(nd ast.Node) bool {
		switch s := nd.(type) {
		case *ast.AssignStmt:
			for i, l := range s.Lhs {
				lid, ok := l.(*ast.Ident)
				if !ok || (info.Defs[lid] != bobj && info.Uses[lid] != bobj) {
					continue
				}
				defs++
				if len(s.Rhs) != len(s.Lhs) {
					continue
				}
				mk, ok := s.Rhs[i].(*ast.CallExpr)
				if !ok || len(mk.Args) != 2 {
					continue
				}
				if f, ok := mk.Fun.(*ast.Ident); !ok || f.Name != "make" {
					continue
				} else if _, isB := info.Uses[f].(*types.Builtin); !isB {
					continue
				}
				if arg, ok := isLenOf(info, mk.Args[1]); ok && idExpr(info, arg) == idExpr(info, a) {
					good = true
					defPos = s.End()
				}
			}
		case *ast.ValueSpec:
			for _, nm := range s.Names {
				if info.Defs[nm] == bobj {
					defs++
				}
			}
		case *ast.UnaryExpr:
			if lid, ok := s.X.(*ast.Ident); ok && s.Op == token.AND && info.Uses[lid] == bobj {
				defs += 2
			}
		}
		return true
	})
	if defs != 1 || !good {
		return false
	}
	fc := &factCtx{info: info, fn: fn, use: call.Pos()}
	return !fc.assignedBetween(objsIn(info, a), defPos, call.Pos(), nil)
}

// ---------------------------------------------------------------------------------------

type panicScope struct {
	label string
	roots []string // function names
	// extra: include all functions of these packages (short names)
	pkgs []string
	// fixed: the scope is part of the rule (not widened by the thorough tier)
	fixed bool
}

func (r *Run) scopeFuncs(sc panicScope) map[*ssa.Function]bool {
	if r.Tier == "thorough" && !sc.fixed {
		// thorough: the same rule over every function of the module
		set := map[*ssa.Function]bool{}
		for _, fn := range r.P.Funcs {
			if fn.Synthetic == "" {
				set[fn] = true
			}
		}
		for _, n := range sc.roots {
			r.Anchor("R7", n)
		}
		return set
	}
	var roots []*ssa.Function
	for _, n := range sc.roots {
		if fn := r.Anchor("R7", n); fn != nil {
			roots = append(roots, fn)
		}
	}
	set := r.P.CG.Reachable(roots, nil)
	for _, fn := range r.P.Funcs {
		for _, p := range sc.pkgs {
			top := fn
			for top.Parent() != nil {
				top = top.Parent()
			}
			if top.Pkg != nil && shortPkg(top.Pkg.Pkg.Path()) == p {
				set[fn] = true
			}
		}
	}
	return set
}

// widenByInterfaceEscape: a value of a module type that a function in scope converts to an
// interface and hands to a callee without body in the module (sort.Stable, json.Marshal,
// fmt.Errorf, an encoder) has its methods called from there: the methods of the interface it
// is converted to, or — for the empty interface — the methods the standard library looks for
// by name. Those methods, and what they reach, run in this scope although no call edge of the
// module leads to them.
func (r *Run) widenByInterfaceEscape(set map[*ssa.Function]bool) {
	protocol := map[string]bool{"Error": true, "String": true, "GoString": true, "Format": true,
		"MarshalJSON": true, "MarshalText": true, "UnmarshalJSON": true, "UnmarshalText": true}
	var work []*ssa.Function
	for fn := range set {
		work = append(work, fn)
	}
	sort.Slice(work, func(i, j int) bool { return fnName(work[i]) < fnName(work[j]) })
	for len(work) > 0 {
		fn := work[len(work)-1]
		work = work[:len(work)-1]
		for _, ins := range allInstrs(fn) {
			mi, ok := ins.(*ssa.MakeInterface)
			if !ok || mi.Referrers() == nil {
				continue
			}
			escapes := false
			for _, ref := range *mi.Referrers() {
				ci, ok := ref.(ssa.CallInstruction)
				if !ok {
					continue
				}
				c := ci.Common()
				if c.IsInvoke() {
					if len(r.P.CG.implementers(c)) == 0 {
						escapes = true
					}
				} else if sc := c.StaticCallee(); sc != nil {
					if d := r.P.declared(sc); !inModule(d) || d.Blocks == nil {
						escapes = true
					}
				}
			}
			if !escapes {
				continue
			}
			iface, _ := mi.Type().Underlying().(*types.Interface)
			ms := r.P.SSA.MethodSets.MethodSet(mi.X.Type())
			for i := 0; i < ms.Len(); i++ {
				sel := ms.At(i)
				name := sel.Obj().Name()
				if iface != nil && iface.NumMethods() > 0 {
					found := false
					for k := 0; k < iface.NumMethods(); k++ {
						if iface.Method(k).Name() == name {
							found = true
						}
					}
					if !found {
						continue
					}
				} else if !protocol[name] {
					continue
				}
				m := r.P.declared(r.P.SSA.MethodValue(sel))
				if m == nil || !inModule(m) || m.Blocks == nil || set[m] {
					continue
				}
				for g := range r.P.CG.Reachable([]*ssa.Function{m}, nil) {
					if !set[g] {
						set[g] = true
						work = append(work, g)
					}
				}
			}
		}
	}
}

// goroutineContext tells whether fn can run on a goroutine that has no recover.
func (r *Run) ctxNote(fn *ssa.Function) string {
	// functions reachable from a go statement's callee without a deferred recover in that callee
	for _, g := range r.P.Funcs {
		for _, ins := range allInstrs(g) {
			gi, ok := ins.(*ssa.Go)
			if !ok {
				continue
			}
			for _, e := range r.P.CG.Out[g] {
				if e.Site != ssa.CallInstruction(gi) {
					continue
				}
				if r.P.CG.ReachableAll([]*ssa.Function{e.Callee})[fn] {
					return "runs inside a goroutine started at " + r.P.pos(gi.Pos()) + " without recover: a panic here ends the process"
				}
			}
		}
	}
	return "runs on the caller's goroutine"
}

func rulePanic(sc panicScope) ruleFn {
	return func(r *Run) {
		set := r.scopeFuncs(sc)
		nCG := len(set)
		r.widenByInterfaceEscape(set)
		r.Notes = append(r.Notes, fmt.Sprintf("R7 scope %q: %d functions (%d of them methods reached through an interface handed to code outside the module)", sc.label, len(set), len(set)-nCG))
		bySyntax := r.P.fnBySyntax()

		// ---- P1 ----
		sites, err := compilerBCE(r.P)
		if err != nil {
			r.Bad("R7.P1", "", "compiler-bce", "-", err.Error())
		}
		nP1 := 0
		for _, s := range sites {
			path, info := r.P.findIndexAt(s)
			site := fmt.Sprintf("%s:%d:%d", s.file, s.line, s.col)
			if path == nil {
				r.Bad("R7.P1", "", "unmapped:"+site, site, "compiler reports an unproven bounds check that could not be mapped to an index expression")
				continue
			}
			fnode := enclosingFuncNode(path)
			fn := bySyntax[fnode]
			if fn == nil {
				r.Bad("R7.P1", "", "unmapped-func:"+site, site, "enclosing function of an unproven bounds check not found in SSA")
				continue
			}
			r.silent = !set[fn]
			if set[fn] {
				nP1++
			}
			construct := normExpr(info, path[0].(ast.Expr))
			name := fnName(fn)
			if ok, why := r.P.proveBounds(path, info); ok {
				r.OK("R7.P1", name, construct, site, why)
				continue
			} else if why2, ok2 := r.chunkSliceProver(fn, path[0].(ast.Expr)); ok2 {
				r.OK("R7.P1", name, construct, site, why2)
				continue
			} else if why2, ok2 := r.positionalReducerProver(fn, path[0].(ast.Expr)); ok2 {
				r.OK("R7.P1", name, construct, site, why2)
				continue
			} else if why2, ok2 := r.searchIndexProver(fn, path[0].(ast.Expr)); ok2 {
				r.OK("R7.P1", name, construct, site, why2)
				continue
			} else if why2, ok2 := r.recordedIndexProver(fn, path[0].(ast.Expr)); ok2 {
				r.OK("R7.P1", name, construct, site, why2)
				continue
			} else if reason, tabled := useTable(r, boundsTable, name+"/"+construct); tabled {
				r.Tabled("R7.P1", name, construct, site, "bounds", reason)
				continue
			} else {
				msg := "the compiler cannot prove this index in range and no repository idiom discharges it"
				if why != "" {
					msg += " (" + why + ")"
				}
				r.Bad("R7.P1", name, construct, site, msg+"; "+r.ctxNote(fn))
			}
		}
		r.silent = false
		if sc.label == "http" {
			r.AtLeast("R7.P1", "unproven bounds checks in scope", nP1, 25)
		}

		// ---- SSA-based kinds ----
		// every function of the module is walked (table credits are counted module-wide);
		// obligations are recorded for the functions in scope only
		var fns []*ssa.Function
		for _, fn := range r.P.Funcs {
			if fn.Synthetic == "" {
				fns = append(fns, fn)
			}
		}
		sort.Slice(fns, func(i, j int) bool { return fnName(fns[i]) < fnName(fns[j]) })
		nP2, nP3, nP4, nP5, nP6 := 0, 0, 0, 0, 0
		for _, fn := range fns {
			r.silent = !set[fn]
			name := fnName(fn)
			for _, ins := range allInstrs(fn) {
				switch x := ins.(type) {
				case *ssa.TypeAssert:
					if x.CommaOk {
						continue
					}
					nP2++
					construct := ".(" + shortType(x.AssertedType) + ") on " + shortType(x.X.Type())
					if why, ok := r.searchedElementAssert(x); ok {
						r.OK("R7.P2", name, construct, r.P.pos(x.Pos()), why)
					} else if reason, ok := useTable(r, assertTable, name+"/"+construct); ok {
						r.Tabled("R7.P2", name, construct, r.P.pos(x.Pos()), "assert", reason)
					} else {
						r.Bad("R7.P2", name, construct, r.P.pos(x.Pos()), "single-result type assertion panics when the dynamic type differs; "+r.ctxNote(fn))
					}
				case *ssa.Call, *ssa.Defer, *ssa.Go:
					// P4 (exit): a call that ends the process is an explicit panic that nothing
					// can recover — log.Fatal*, os.Exit, log.Panic*, runtime.Goexit (the latter
					// ends the goroutine the reply is owed by)
					cn := calleeName(x.(ssa.CallInstruction).Common())
					if what, ends := processEnding(cn); ends {
						construct := "call " + strings.TrimPrefix(cn, "invoke:")
						if reason, ok := useTable(r, panicTable, name+"/"+construct); ok {
							r.Tabled("R7.P4", name, construct, r.P.pos(ins.Pos()), "panic", reason)
						} else {
							r.Bad("R7.P4", name, construct, r.P.pos(ins.Pos()), what+" is reachable in this scope: a failure handled this way takes the whole gateway (every other client's request and subscription) down with it; "+r.ctxNote(fn))
						}
					}
				case *ssa.Lookup, *ssa.MapUpdate:
					// P7 (hash): a map keyed by an interface type hashes the dynamic value of the
					// key — a JSON object or list as key panics with `hash of unhashable type`,
					// the same hazard as == on two interfaces
					var m, key ssa.Value
					if lk, isLk := x.(*ssa.Lookup); isLk {
						m, key = lk.X, lk.Index
					} else {
						mu := x.(*ssa.MapUpdate)
						m, key = mu.Map, mu.Key
					}
					if why, risky := ifaceKeyRisk(m, key, ins.Block()); risky {
						construct := "key " + shortType(key.Type()) + " of " + shortType(m.Type())
						if reason, ok := useTable(r, cmpTable, name+"/"+construct); ok {
							r.Tabled("R7.P7", name, construct, r.P.pos(ins.Pos()), "cmp", reason)
						} else {
							r.Bad("R7.P7", name, construct, r.P.pos(ins.Pos()), "a map with an interface-typed key is read or written with a key whose dynamic type is not known to be hashable ("+why+"): if the key holds a map or a slice (a JSON object or list) Go panics with `hash of unhashable type`; "+r.ctxNote(fn))
						}
					}
				case *ssa.Panic:
					if c, ok := unwrap(x.X).(*ssa.Const); ok && c.Value != nil && strings.HasPrefix(c.Value.ExactString(), `"blocking select`) {
						continue
					}
					nP4++
					construct := "panic"
					if reason, ok := useTable(r, panicTable, name); ok {
						r.Tabled("R7.P4", name, construct, r.P.pos(x.Pos()), "panic", reason)
					} else {
						r.Bad("R7.P4", name, construct, r.P.pos(x.Pos()), "explicit panic reachable in this scope; "+r.ctxNote(fn))
					}
				case *ssa.BinOp:
					if x.Op == token.EQL || x.Op == token.NEQ {
						// P7: == on two interface values panics when both hold the same
						// uncomparable dynamic type (two JSON objects, two lists, two ErrorLists)
						if why, risky := ifaceCompareRisk(x); risky {
							construct := "compare " + shortType(x.X.Type()) + " == " + shortType(x.Y.Type())
							if reason, ok := useTable(r, cmpTable, name+"/"+construct); ok {
								r.Tabled("R7.P7", name, construct, r.P.pos(x.Pos()), "cmp", reason)
							} else {
								r.Bad("R7.P7", name, construct, r.P.pos(x.Pos()), "two interface values are compared with ==/!=; "+why+": if both hold a map or a slice (a JSON object or list, an error list) Go panics with `comparing uncomparable type`; "+r.ctxNote(fn))
							}
						}
						continue
					}
					if x.Op != token.QUO && x.Op != token.REM {
						continue
					}
					if _, isConst := x.Y.(*ssa.Const); isConst {
						continue
					}
					if b, ok := x.Y.Type().Underlying().(*types.Basic); !ok || b.Info()&types.IsInteger == 0 {
						continue
					}
					nP6++
					construct := "divide-by " + describeVal(x.Y)
					if why, ok := r.divisorFieldPositive(x.Y); ok {
						r.OK("R7.P6", name, construct, r.P.pos(x.Pos()), why)
					} else if reason, ok := useTable(r, divTable, name+"/"+construct); ok {
						r.Tabled("R7.P6", name, construct, r.P.pos(x.Pos()), "div", reason)
					} else {
						r.Bad("R7.P6", name, construct, r.P.pos(x.Pos()), "integer division by a value that is not shown to be non-zero; "+r.ctxNote(fn))
					}
				}
			}
			a, b := r.nilChecks(fn)
			if set[fn] {
				nP3 += a
				nP5 += b
			}
			r.nilMapWrites(fn)
		}
		r.silent = false
		r.chainRefLists(set)
		_ = nP2
		_ = nP4
		_ = nP6
		if sc.label == "http" {
			r.AtLeast("R7.P3", "nil-able lookups dereferenced", nP3, 8)
		}
	}
}

// divisorFieldPositive: the divisor is read from a struct field of the module, and everything
// the module ever stores into that field is a positive constant — directly, or through a
// parameter of a function that is only called directly and is given a positive constant at
// every call site inside the module; every place that allocates the struct sets the field.
// (Callers outside the module are the precondition of the exported constructor.)
func (r *Run) divisorFieldPositive(v ssa.Value) (string, bool) {
	ld, ok := v.(*ssa.UnOp)
	if !ok || ld.Op != token.MUL {
		return "", false
	}
	fa, ok := ld.X.(*ssa.FieldAddr)
	if !ok {
		return "", false
	}
	f := fieldOf(fa)
	if f == nil || f.Pkg() == nil || !strings.HasPrefix(f.Pkg().Path(), modPath) {
		return "", false
	}
	nSites, nStores := 0, 0
	var positive func(v ssa.Value, depth int) bool
	positive = func(v ssa.Value, depth int) bool {
		v = viaCell(unwrap(v))
		switch x := v.(type) {
		case *ssa.Const:
			if x.Value == nil {
				return false
			}
			n, exact := constant.Int64Val(constant.ToInt(x.Value))
			return exact && n > 0
		case *ssa.Parameter:
			g := x.Parent()
			if depth > 3 || g == nil || g.Parent() != nil {
				return false
			}
			k := -1
			for i, p := range g.Params {
				if p == x {
					k = i
				}
			}
			sites := 0
			for _, e := range r.P.CG.In[g] {
				if e.Kind != "static" || k < 0 || k >= len(e.Site.Common().Args) {
					return false
				}
				if !positive(e.Site.Common().Args[k], depth+1) {
					return false
				}
				sites++
			}
			// the function must not travel as a value (it could then be called with anything)
			for _, h := range r.P.Funcs {
				for _, ins := range allInstrs(h) {
					for _, op := range operandsOf(ins) {
						if fv, isFn := op.(*ssa.Function); isFn && r.P.declared(fv) == g {
							if ci, isCall := ins.(ssa.CallInstruction); !isCall || ci.Common().Value != op {
								return false
							}
						}
					}
				}
			}
			nSites += sites
			return sites > 0
		}
		return false
	}
	for _, h := range r.P.Funcs {
		for _, ins := range allInstrs(h) {
			switch x := ins.(type) {
			case *ssa.Store:
				if fb, ok := x.Addr.(*ssa.FieldAddr); ok && fieldOf(fb) == f {
					nStores++
					if !positive(x.Val, 0) {
						return "", false
					}
				}
			case *ssa.Alloc:
				st, ok := derefType(x.Type()).Underlying().(*types.Struct)
				if !ok {
					continue
				}
				owns := false
				for i := 0; i < st.NumFields(); i++ {
					if st.Field(i) == f {
						owns = true
					}
				}
				if !owns {
					continue
				}
				set := false
				for _, ref := range *x.Referrers() {
					if fb, ok := ref.(*ssa.FieldAddr); ok && fieldOf(fb) == f && fb.Referrers() != nil {
						for _, r2 := range *fb.Referrers() {
							if st2, ok := r2.(*ssa.Store); ok && st2.Addr == ssa.Value(fb) {
								set = true
							}
						}
					}
				}
				if !set {
					return "", false // a value of the struct with the field left zero
				}
			}
		}
	}
	if nStores == 0 {
		return "", false
	}
	return fmt.Sprintf("the divisor is the field %s: each of the %d store(s) into it writes a positive constant, handed in at %d call site(s) inside the module, and every allocation of the struct sets it (callers outside the module: precondition of the exported constructor)", f.Name(), nStores, nSites), true
}

func describeVal(v ssa.Value) string {
	switch x := v.(type) {
	case *ssa.UnOp:
		if x.Op == token.MUL {
			if fa, ok := x.X.(*ssa.FieldAddr); ok {
				if f := fieldOf(fa); f != nil {
					return namedOf(fa.X.Type())[strings.LastIndex(namedOf(fa.X.Type()), "/")+1:] + "." + f.Name()
				}
			}
		}
	case *ssa.Parameter:
		return "parameter:" + shortType(x.Type())
	}
	return shortType(v.Type())
}

// ---- nil analysis ------------------------------------------------------------------------

// keyOfSameMap: the key of the lookup is an element of the key list of the very map that is
// looked into (`names := lo.Keys(m); sort.Strings(names); for _, k := range names { m[k] }`), and
// the function does not write the map: the entry exists, the lookup yields what a range over the
// map would.
func keyOfSameMap(lk *ssa.Lookup) bool {
	ld, ok := unwrap(lk.Index).(*ssa.UnOp)
	if !ok || ld.Op != token.MUL {
		return false
	}
	ia, ok := ld.X.(*ssa.IndexAddr)
	if !ok {
		return false
	}
	c, ok := viaCell(unwrap(ia.X)).(*ssa.Call)
	if !ok || len(c.Call.Args) != 1 {
		return false
	}
	name := strings.SplitN(calleeName(&c.Call), "[", 2)[0]
	if !(strings.HasSuffix(name, "samber/lo.Keys") || name == "maps.Keys" || strings.HasSuffix(name, "exp/maps.Keys")) {
		return false
	}
	if viaCell(unwrap(c.Call.Args[0])) != viaCell(unwrap(lk.X)) {
		return false
	}
	return !mapWrittenIn(lk.Parent(), lk.X) && !mapWrittenIn(lk.Parent(), c.Call.Args[0])
}

// maybeNilSource classifies v as a value that may be nil by construction.
func (r *Run) maybeNilSource(v ssa.Value) (kind, desc string, ok bool) {
	switch x := v.(type) {
	case *ssa.Lookup:
		if _, isMap := x.X.Type().Underlying().(*types.Map); !isMap || x.CommaOk {
			return
		}
		if keyOfSameMap(x) {
			return // the key was taken from this very map (its key list): the entry exists, as in a range over the map
		}
		switch x.Type().Underlying().(type) {
		case *types.Pointer, *types.Interface:
			return "P3", "map lookup " + describeMap(x.X) + "[…] without comma-ok", true
		}
	case *ssa.Extract:
		// `v, ok := m[k]` / `v, _ := m[k]`: v is the zero value when the key is absent — the
		// same nil as the single-result form unless the use is on the ok side (nonNilAt)
		lk, isLk := x.Tuple.(*ssa.Lookup)
		if !isLk || !lk.CommaOk || x.Index != 0 {
			return
		}
		if _, isMap := lk.X.Type().Underlying().(*types.Map); !isMap {
			return
		}
		switch x.Type().Underlying().(type) {
		case *types.Pointer, *types.Interface:
			return "P3", "map lookup " + describeMap(lk.X) + "[…] with comma-ok", true
		}
	case *ssa.Call:
		if sc := x.Call.StaticCallee(); sc != nil {
			n := extName(sc)
			if strings.HasPrefix(n, "(github.com/vektah/gqlparser/v2/ast.") && strings.HasSuffix(n, ").ForName") {
				return "P3", "result of " + strings.TrimPrefix(n, "(github.com/vektah/gqlparser/v2/") + " (nil when absent)", true
			}
			// a module function with a single pointer result that returns nil on some path
			// (a search that found nothing): DESIGN §R7 P3 "return nil summary"
			if d := r.P.declared(sc); d != nil && inModule(d) && d.Blocks != nil && d.Signature.Results().Len() == 1 {
				if _, isPtr := d.Signature.Results().At(0).Type().Underlying().(*types.Pointer); isPtr {
					for _, ret := range returnsOf(d) {
						if vals := retVals(ret); len(vals) == 1 && isNilConst(unwrap(vals[0])) {
							return "P3", "result of " + fnName(d) + " (returns nil on some path)", true
						}
					}
				}
			}
		}
	case *ssa.UnOp:
		if x.Op != token.MUL {
			return
		}
		// element of a []*T that was filled by json.Unmarshal: `null` entries decode to nil
		if ia, isIA := x.X.(*ssa.IndexAddr); isIA {
			if _, isPtr := x.Type().Underlying().(*types.Pointer); isPtr {
				if ld, isLd := ia.X.(*ssa.UnOp); isLd && ld.Op == token.MUL {
					if al, isAl := ld.X.(*ssa.Alloc); isAl && jsonDecodedInto(al) {
						return "P5", "element of a JSON-decoded " + shortType(ld.Type()), true
					}
				}
				// the list arrives as a parameter and some caller passes a JSON-decoded list
				if prm, isPrm := ia.X.(*ssa.Parameter); isPrm && r.jsonDecodedList(prm, 0) {
					return "P5", "element of a JSON-decoded " + shortType(prm.Type()) + " (decoded by a caller)", true
				}
			}
		}
		// element of a named list type of the module that is the type of a JSON-decoded field
		// (gqlerrors.ErrorList in Response.Errors): wherever such a list travels, a `null`
		// entry sent by a service is a nil pointer
		if ia, isIA := x.X.(*ssa.IndexAddr); isIA {
			if _, isPtr := x.Type().Underlying().(*types.Pointer); isPtr {
				if n := namedOf(ia.X.Type()); n != "" && r.jsonListTypes()[n] {
					return "P5", "element of a " + shortStruct(n) + " (a list type decoded from JSON)", true
				}
			}
		}
		fa, ok2 := x.X.(*ssa.FieldAddr)
		if !ok2 {
			return
		}
		f := fieldOf(fa)
		if f == nil {
			return
		}
		if _, isPtr := f.Type().Underlying().(*types.Pointer); !isPtr {
			return
		}
		// Position of a gqlparser AST node: set by the parser, nil on every node the merger,
		// the planner or the reconstruction build themselves
		if f.Name() == "Position" && strings.HasPrefix(namedOf(fa.X.Type()), "github.com/vektah/gqlparser/v2/ast.") {
			return "P5", "Position of an AST node (nil on nodes built by this module)", true
		}
		// JSON-decoded struct field of pointer type declared in the module
		st, _ := derefType(fa.X.Type()).Underlying().(*types.Struct)
		if st == nil || f.Pkg() == nil || !strings.HasPrefix(f.Pkg().Path(), modPath) {
			return
		}
		tag := st.Tag(fa.Field)
		if strings.Contains(tag, `json:"`) && !strings.Contains(tag, `json:"-"`) {
			return "P5", "pointer field " + namedOf(fa.X.Type())[strings.LastIndex(namedOf(fa.X.Type()), "/")+1:] + "." + f.Name() + " of a JSON-decoded struct", true
		}
	}
	return
}

func describeMap(v ssa.Value) string {
	if ld, ok := v.(*ssa.UnOp); ok && ld.Op == token.MUL {
		if fa, ok := ld.X.(*ssa.FieldAddr); ok {
			if f := fieldOf(fa); f != nil {
				return f.Name()
			}
		}
	}
	if p, ok := v.(*ssa.Parameter); ok {
		return shortType(p.Type())
	}
	return shortType(v.Type())
}

// derefUses lists the instructions that dereference v (would panic if v is nil).
func derefUses(v ssa.Value) []ssa.Instruction {
	var out []ssa.Instruction
	refs := v.Referrers()
	if refs == nil {
		return nil
	}
	for _, ref := range *refs {
		switch x := ref.(type) {
		case *ssa.FieldAddr:
			if x.X == v {
				out = append(out, x)
			}
		case *ssa.Field:
			if x.X == v {
				out = append(out, x)
			}
		case *ssa.IndexAddr:
			if x.X == v {
				if _, isPtr := v.Type().Underlying().(*types.Pointer); isPtr {
					out = append(out, x)
				}
			}
		case *ssa.UnOp:
			if x.Op == token.MUL && x.X == v {
				out = append(out, x)
			}
		case *ssa.Store:
			if x.Addr == v {
				out = append(out, x)
			}
		case *ssa.MapUpdate:
			if x.Map == v {
				out = append(out, x)
			}
		case ssa.CallInstruction:
			c := x.Common()
			if c.IsInvoke() && c.Value == v {
				out = append(out, x)
			} else if !c.IsInvoke() && len(c.Args) > 0 && c.Args[0] == v && c.Signature().Recv() != nil {
				// method call with v as receiver: pointer receivers are dereferenced by the callee
				if _, isPtr := v.Type().Underlying().(*types.Pointer); isPtr {
					out = append(out, x)
				}
			} else if !c.IsInvoke() && c.Value == v {
				out = append(out, x) // calling a nil func
			}
		case *ssa.Phi, *ssa.MakeInterface, *ssa.ChangeType:
			// flows on: follow one step
			if val, ok := ref.(ssa.Value); ok {
				out = append(out, derefUses(val)...)
			}
		}
	}
	return out
}

// derefOf: the pointer operand a dereferencing instruction goes through.
func derefOf(u ssa.Instruction) ssa.Value {
	switch x := u.(type) {
	case *ssa.FieldAddr:
		return x.X
	case *ssa.IndexAddr:
		return x.X
	case *ssa.UnOp:
		return x.X
	case *ssa.Store:
		return x.Addr
	}
	return nil
}

// nonNilAt: is v known non-nil at instruction `at`?
func (r *Run) nonNilAt(v ssa.Value, at ssa.Instruction) (bool, string) {
	fn := at.Parent()
	for _, ins := range allInstrs(fn) {
		iff, ok := ins.(*ssa.If)
		if !ok {
			continue
		}
		var tested ssa.Value
		side := nilTestSide(iff, func(x ssa.Value) bool {
			if sameValue(x, v) {
				tested = x
				return true
			}
			return false
		})
		if side == nil {
			continue
		}
		if len(side.Preds) == 1 && (side == at.Block() || side.Dominates(at.Block())) {
			if tested != v && r.writeBetween(tested, side, at) {
				continue
			}
			return true, "dominated by a nil test of the same value at " + r.P.pos(iff.Cond.Pos())
		}
	}
	// value of a comma-ok lookup: the use is on the side where ok holds
	if ex, isEx := v.(*ssa.Extract); isEx {
		if lk, isLk := ex.Tuple.(*ssa.Lookup); isLk && lk.CommaOk && lk.Referrers() != nil {
			for _, ref := range *lk.Referrers() {
				okv, isOk := ref.(*ssa.Extract)
				if !isOk || okv.Index != 1 {
					continue
				}
				for _, side := range truthSides(okv) {
					if len(side.Preds) == 1 && (side == at.Block() || side.Dominates(at.Block())) {
						return true, "on the ok side of the comma-ok lookup at " + r.P.pos(lk.Pos())
					}
				}
			}
		}
	}
	// init-if-nil idiom for map lookups: if m[k] == nil { m[k] = new }; use m[k]
	if lk, ok := v.(*ssa.Lookup); ok {
		if r.initIfNil(lk) {
			return true, "init-if-nil idiom on the same map and key"
		}
	}
	return false, ""
}

var fieldWriterMemo = map[*Prog]map[*types.Var]map[*ssa.Function]bool{}
var reachMemo = map[*Prog]map[*ssa.Function]map[*ssa.Function]bool{}

// callMayWriteField: some module function the call at site can reach stores into field f.
func (r *Run) callMayWriteField(caller *ssa.Function, site ssa.CallInstruction, f *types.Var) bool {
	if fieldWriterMemo[r.P] == nil {
		fieldWriterMemo[r.P] = map[*types.Var]map[*ssa.Function]bool{}
		reachMemo[r.P] = map[*ssa.Function]map[*ssa.Function]bool{}
	}
	writers, ok := fieldWriterMemo[r.P][f]
	if !ok {
		writers = map[*ssa.Function]bool{}
		for _, g := range r.P.Funcs {
			for _, ins := range allInstrs(g) {
				if st, ok := ins.(*ssa.Store); ok {
					if fb, ok := st.Addr.(*ssa.FieldAddr); ok && fieldOf(fb) == f {
						writers[g] = true
					}
				}
			}
		}
		fieldWriterMemo[r.P][f] = writers
	}
	if len(writers) == 0 {
		return false
	}
	for _, e := range r.P.CG.Out[caller] {
		if e.Site != site {
			continue
		}
		reach, ok := reachMemo[r.P][e.Callee]
		if !ok {
			reach = r.P.CG.ReachableAll([]*ssa.Function{e.Callee})
			reachMemo[r.P][e.Callee] = reach
		}
		for g := range writers {
			if reach[g] {
				return true
			}
		}
	}
	return false
}

// nonNilOnEdge: v is known non-nil when control goes from pred to succ — at the end of pred
// already, or because that edge is the non-nil / ok branch of the test pred ends with.
func (r *Run) nonNilOnEdge(v ssa.Value, pred, succ *ssa.BasicBlock) bool {
	if len(pred.Instrs) == 0 {
		return false
	}
	last := pred.Instrs[len(pred.Instrs)-1]
	if ok, _ := r.nonNilAt(v, last); ok {
		return true
	}
	iff, ok := last.(*ssa.If)
	if !ok || len(pred.Succs) != 2 || pred.Succs[0] == pred.Succs[1] {
		return false
	}
	if side := nilTestSide(iff, func(x ssa.Value) bool { return x == v }); side != nil {
		return side == succ
	}
	if ex, isEx := v.(*ssa.Extract); isEx {
		if lk, isLk := ex.Tuple.(*ssa.Lookup); isLk && lk.CommaOk {
			cond := iff.Cond
			truth := 0
			if not, isNot := cond.(*ssa.UnOp); isNot && not.Op == token.NOT {
				cond, truth = not.X, 1
			}
			if okv, isOk := cond.(*ssa.Extract); isOk && okv.Tuple == ssa.Value(lk) && okv.Index == 1 {
				return pred.Succs[truth] == succ
			}
		}
	}
	return false
}

// truthSides: the blocks entered only when the boolean b is true — the true successor of
// `if b`, the false successor of `if !b`; short-circuit conditions (`ok && …`) have already
// been split into such tests by go/ssa.
func truthSides(b ssa.Value) []*ssa.BasicBlock {
	var out []*ssa.BasicBlock
	if b.Referrers() == nil {
		return nil
	}
	for _, ref := range *b.Referrers() {
		switch x := ref.(type) {
		case *ssa.If:
			if x.Cond == b && len(x.Block().Succs) == 2 && x.Block().Succs[0] != x.Block().Succs[1] {
				out = append(out, x.Block().Succs[0])
			}
		case *ssa.UnOp:
			if x.Op == token.NOT && x.Referrers() != nil {
				for _, r2 := range *x.Referrers() {
					if iff, ok := r2.(*ssa.If); ok && iff.Cond == ssa.Value(x) && len(iff.Block().Succs) == 2 && iff.Block().Succs[0] != iff.Block().Succs[1] {
						out = append(out, iff.Block().Succs[1])
					}
				}
			}
		}
	}
	return out
}

// writeBetween: for a re-read (second lookup of the same map/key, second load of the same
// field or cell), is there a write to that map/field/cell on a path from the tested side to
// the use?
func (r *Run) writeBetween(tested ssa.Value, side *ssa.BasicBlock, at ssa.Instruction) bool {
	fn := at.Parent()
	reachFromSide := blockReach(side)
	reachFromSide[side] = true
	isWrite := func(ins ssa.Instruction) bool {
		switch t := tested.(type) {
		case *ssa.Lookup:
			switch x := ins.(type) {
			case *ssa.MapUpdate:
				return x.Map == t.X
			case *ssa.Call:
				if b, ok := x.Call.Value.(*ssa.Builtin); ok && b.Name() == "delete" {
					return x.Call.Args[0] == t.X
				}
			}
		case *ssa.UnOp:
			if st, ok := ins.(*ssa.Store); ok {
				if fa, ok := t.X.(*ssa.FieldAddr); ok {
					if fb, ok := st.Addr.(*ssa.FieldAddr); ok {
						return fieldOf(fa) == fieldOf(fb)
					}
					return false
				}
				return st.Addr == t.X
			}
			// a call in between whose callee (or anything it reaches) stores into the same
			// field: `if req.Name != nil { normalise(req); use(*req.Name) }`
			if ci, ok := ins.(ssa.CallInstruction); ok {
				if fa, ok := t.X.(*ssa.FieldAddr); ok && fieldOf(fa) != nil {
					return r.callMayWriteField(fn, ci, fieldOf(fa))
				}
			}
		}
		return false
	}
	// a write counts when it can happen after the test and before the use: it is reachable
	// from the tested side and the use is reachable from it without re-evaluating the tested
	// value (inside a loop a write that comes after the use reaches it again only through the
	// next iteration, which — when the tested value is loaded in the loop — tests anew)
	var tb *ssa.BasicBlock
	tIdx := -1
	if ti, ok := tested.(ssa.Instruction); ok && ti.Block() != nil {
		tb, tIdx = ti.Block(), instrIdx(ti)
	}
	reachAvoiding := func(from *ssa.BasicBlock) bool {
		seen := map[*ssa.BasicBlock]bool{}
		work := append([]*ssa.BasicBlock{}, from.Succs...)
		for len(work) > 0 {
			x := work[len(work)-1]
			work = work[:len(work)-1]
			if seen[x] || x == tb {
				continue
			}
			seen[x] = true
			if x == at.Block() {
				return true
			}
			work = append(work, x.Succs...)
		}
		return false
	}
	atIdx := instrIdx(at)
	for _, b := range fn.Blocks {
		if !reachFromSide[b] {
			continue
		}
		var later *bool
		for i, ins := range b.Instrs {
			if ins == at || !isWrite(ins) {
				continue
			}
			if b == tb && i < tIdx {
				continue // before the tested value is read in this block: the test sees it
			}
			if b == at.Block() && i < atIdx {
				return true
			}
			if later == nil {
				v := reachAvoiding(b)
				later = &v
			}
			if *later {
				return true
			}
		}
	}
	return false
}

// nilTestSide returns the successor on which the tested value is non-nil, when iff tests
// `x != nil` / `x == nil` for an x accepted by match (also through && / || decomposition,
// which go/ssa has already turned into separate blocks).
func nilTestSide(iff *ssa.If, match func(ssa.Value) bool) *ssa.BasicBlock {
	bo, ok := iff.Cond.(*ssa.BinOp)
	if !ok {
		return nil
	}
	var x ssa.Value
	if isNilConst(bo.Y) {
		x = bo.X
	} else if isNilConst(bo.X) {
		x = bo.Y
	} else {
		return nil
	}
	if !match(unwrap(x)) && !match(x) {
		return nil
	}
	switch bo.Op {
	case token.NEQ:
		return iff.Block().Succs[0]
	case token.EQL:
		return iff.Block().Succs[1]
	}
	return nil
}

// sameValue: identical SSA value, or two lookups of the same map with the same key, or two
// loads of the same field of the same base, with no intervening write in the function.
func sameValue(a, b ssa.Value) bool {
	if a == b {
		return true
	}
	la, ok1 := a.(*ssa.Lookup)
	lb, ok2 := b.(*ssa.Lookup)
	if ok1 && ok2 && !la.CommaOk && !lb.CommaOk {
		return sameValue(la.X, lb.X) && sameValue(la.Index, lb.Index)
	}
	ua, ok1 := a.(*ssa.UnOp)
	ub, ok2 := b.(*ssa.UnOp)
	if ok1 && ok2 && ua.Op == token.MUL && ub.Op == token.MUL {
		fa, ok1 := ua.X.(*ssa.FieldAddr)
		fb, ok2 := ub.X.(*ssa.FieldAddr)
		if ok1 && ok2 && fa.Field == fb.Field && sameValue(fa.X, fb.X) {
			return true
		}
		// loads of the same cell (captured variable) without stores in this function
		if ua.X == ub.X {
			switch ua.X.(type) {
			case *ssa.FreeVar, *ssa.Alloc:
				return true
			}
		}
	}
	ca, ok1 := a.(*ssa.Const)
	cb, ok2 := b.(*ssa.Const)
	if ok1 && ok2 && ca.Value != nil && cb.Value != nil && types.Identical(ca.Type(), cb.Type()) {
		return ca.Value.ExactString() == cb.Value.ExactString()
	}
	return false
}

func cellStoredIn(fn *ssa.Function, cell ssa.Value) bool {
	for _, ins := range allInstrs(fn) {
		if st, ok := ins.(*ssa.Store); ok && st.Addr == cell {
			return true
		}
	}
	return false
}

func mapWrittenIn(fn *ssa.Function, m ssa.Value) bool {
	for _, ins := range allInstrs(fn) {
		switch x := ins.(type) {
		case *ssa.MapUpdate:
			if sameValueNoRec(x.Map, m) {
				return true
			}
		case *ssa.Call:
			if b, ok := x.Call.Value.(*ssa.Builtin); ok && b.Name() == "delete" && sameValueNoRec(x.Call.Args[0], m) {
				return true
			}
		}
	}
	return false
}

func sameValueNoRec(a, b ssa.Value) bool { return a == b }

func fieldWrittenIn(fn *ssa.Function, fa *ssa.FieldAddr) bool {
	f := fieldOf(fa)
	for _, ins := range allInstrs(fn) {
		if st, ok := ins.(*ssa.Store); ok {
			if fb, ok := st.Addr.(*ssa.FieldAddr); ok && fieldOf(fb) == f {
				return true
			}
		}
	}
	return false
}

// initIfNil: lk's block is the join after `if m[k] == nil { m[k] = <non-nil> }`.
func (r *Run) initIfNil(lk *ssa.Lookup) bool {
	fn := lk.Parent()
	for _, ins := range allInstrs(fn) {
		iff, ok := ins.(*ssa.If)
		if !ok {
			continue
		}
		bo, ok := iff.Cond.(*ssa.BinOp)
		if !ok || bo.Op != token.EQL {
			continue
		}
		var t ssa.Value
		if isNilConst(bo.Y) {
			t = bo.X
		} else if isNilConst(bo.X) {
			t = bo.Y
		} else {
			continue
		}
		tl, ok := t.(*ssa.Lookup)
		if !ok || tl.X != lk.X || !(tl.Index == lk.Index || sameValue(tl.Index, lk.Index)) {
			continue
		}
		then, done := iff.Block().Succs[0], iff.Block().Succs[1]
		// then-branch: contains MapUpdate(m,k,non-nil) and flows only to done
		if len(then.Succs) != 1 || then.Succs[0] != done {
			continue
		}
		upd := false
		for _, ti := range then.Instrs {
			if mu, ok := ti.(*ssa.MapUpdate); ok && mu.Map == lk.X && (mu.Key == lk.Index || sameValue(mu.Key, lk.Index)) {
				switch unwrap(mu.Value).(type) {
				case *ssa.Alloc, *ssa.MakeMap, *ssa.MakeSlice, *ssa.MakeChan, *ssa.MakeClosure:
					upd = true
				}
			}
		}
		if !upd {
			continue
		}
		if done == lk.Block() || done.Dominates(lk.Block()) {
			// no later delete/update with nil: covered by upd being the only writer on this path
			return true
		}
	}
	return false
}

func (r *Run) nilChecks(fn *ssa.Function) (nP3, nP5 int) {
	name := fnName(fn)
	for _, ins := range allInstrs(fn) {
		v, ok := ins.(ssa.Value)
		if !ok {
			continue
		}
		kind, desc, isSrc := r.maybeNilSource(v)
		if !isSrc {
			continue
		}
		uses := derefUses(v)
		if len(uses) == 0 {
			continue
		}
		if kind == "P3" {
			nP3++
		} else {
			nP5++
		}
		construct := desc
		var badUse ssa.Instruction
		arg := ""
		for _, u := range uses {
			ok, why := r.nonNilAt(v, u)
			if !ok {
				// the dereference may be of a phi the value flowed into (a loop variable
				// `for ref := t; ref != nil; ref = ref.OfType`): a nil test of that phi counts
				for _, ref := range *v.Referrers() {
					if phi, isPhi := ref.(*ssa.Phi); isPhi && derefOf(u) == ssa.Value(phi) {
						ok, why = r.nonNilAt(phi, u)
						// or the value enters the phi only on edges on which it is non-nil
						// (`p, ok := m[k]; if !ok { p = new }; p.f = …`)
						if !ok {
							all, n := true, 0
							for i, e := range phi.Edges {
								if e != v || i >= len(phi.Block().Preds) {
									continue
								}
								n++
								if !r.nonNilOnEdge(v, phi.Block().Preds[i], phi.Block()) {
									all = false
								}
							}
							if all && n > 0 {
								ok, why = true, "merged with a fresh value: it flows on only along the edge on which it is known to be present / non-nil"
							}
						}
					}
				}
			}
			if !ok {
				badUse = u
				break
			}
			arg = why
		}
		site := r.P.pos(ins.Pos())
		if ex, isEx := ins.(*ssa.Extract); isEx {
			site = r.P.pos(ex.Tuple.Pos())
		}
		if site == "-" && badUse != nil {
			site = r.P.pos(badUse.Pos())
		}
		if badUse == nil {
			r.OK("R7."+kind, name, construct, site, "every dereference is "+arg)
			continue
		}
		if why, ok := r.chainWalker(fn, v); ok {
			r.OK("R7."+kind, name, construct, site, why)
			continue
		}
		if reason, ok := useTable(r, nilTable, name+"/"+construct); ok {
			r.Tabled("R7."+kind, name, construct, site, "nil", reason)
			continue
		}
		r.Bad("R7."+kind, name, construct, site, fmt.Sprintf("%s is dereferenced at %s without a dominating nil test; %s", desc, r.P.pos(badUse.Pos()), r.ctxNote(fn)))
	}
	return
}

// Tables are written per function (that is where each instance was confirmed), but they
// are applied per *package*: the key used for matching is "<package>:<construct>" and the
// instance counts of all functions of the package are added up. Moving code between
// functions or files of a package (helper extraction, inlining) therefore does not turn a
// confirmed instance into a new one; an additional instance of the construct anywhere in the
// package still exceeds the count and is reported.
func pkgKey(key string) string {
	fn, construct := key, ""
	if i := strings.Index(key, "/"); i >= 0 {
		fn, construct = key[:i], key[i+1:]
	}
	pkg := fn
	if i := strings.Index(fn, "."); i >= 0 {
		pkg = fn[:i]
	}
	// a map loop is identified by the type it ranges over, not by where the map came from
	// (parameter, field, local): moving the loop into a helper changes only the latter
	if strings.HasPrefix(construct, "range ") && !strings.HasPrefix(construct, "range over") {
		construct = "range " + construct[strings.LastIndex(construct, " ")+1:]
	}
	// a slice whose low bound is written 0 is the slice with the low bound left out
	// (`acc[0:k]` and `acc[:k]` are one construct)
	construct = strings.ReplaceAll(construct, "[0:", "[:")
	return pkg + ":" + construct
}

var normTables = map[*map[string]tabEntry]map[string]tabEntry{}

func normTable(t *map[string]tabEntry) map[string]tabEntry {
	if n, ok := normTables[t]; ok {
		return n
	}
	n := map[string]tabEntry{}
	var keys []string
	for k := range *t {
		keys = append(keys, k)
	}
	sort.Strings(keys)
	for _, k := range keys {
		e := (*t)[k]
		pk := pkgKey(k)
		if old, ok := n[pk]; ok {
			if !strings.Contains(old.Reason, e.Reason) {
				old.Reason += " | " + e.Reason
			}
			old.N += e.N
			n[pk] = old
		} else {
			n[pk] = e
		}
	}
	normTables[t] = n
	return n
}

func normKinds(t map[string][]string) map[string][]string {
	n := map[string][]string{}
	for k, v := range t {
		pk := pkgKey(k)
		for _, x := range v {
			dup := false
			for _, y := range n[pk] {
				if x == y {
					dup = true
				}
			}
			if !dup {
				n[pk] = append(n[pk], x)
			}
		}
	}
	return n
}

// useTable consumes one instance of a table entry; instances beyond the confirmed count are
// not covered.
func useTable(r *Run, t map[string]tabEntry, key string) (string, bool) {
	nt := normTable(tablePtr(t))
	pk := pkgKey(key)
	e, ok := nt[pk]
	if !ok {
		return "", false
	}
	if r.tableUse == nil {
		r.tableUse = map[string]int{}
	}
	uk := tableName(t) + "|" + pk
	r.tableUse[uk]++
	if r.tableUse[uk] > e.N {
		return "", false
	}
	if r.tableUse[uk] > globalTableUse[uk] {
		globalTableUse[uk] = r.tableUse[uk]
	}
	return e.Reason, true
}

// globalTableUse: per table entry, the largest number of instances any one property run of
// this process consumed (for the stale-entry report of `check --property all`).
var globalTableUse = map[string]int{}

// staleTableEntries lists entries whose confirmed count was not used up by any property: the
// unused credit would silently cover a new instance of the same construct in the package.
func staleTableEntries() []string {
	var out []string
	for _, nt := range allTables {
		for pk, e := range normTable(nt.t) {
			if used := globalTableUse[nt.name+"|"+pk]; used < e.N {
				out = append(out, fmt.Sprintf("STALE-TABLE-ENTRY table=%s key=%q confirmed=%d used=%d", nt.name, pk, e.N, used))
			}
		}
	}
	sort.Strings(out)
	return out
}

// tablePtr / tableName identify the package-level table variables.
func tablePtr(t map[string]tabEntry) *map[string]tabEntry {
	for _, p := range allTables {
		if reflectSame(*p.t, t) {
			return p.t
		}
	}
	tmp := t
	return &tmp
}

func tableName(t map[string]tabEntry) string {
	for _, p := range allTables {
		if reflectSame(*p.t, t) {
			return p.name
		}
	}
	return "?"
}

func reflectSame(a, b map[string]tabEntry) bool {
	return reflect.ValueOf(a).Pointer() == reflect.ValueOf(b).Pointer()
}

type namedTable struct {
	name string
	t    *map[string]tabEntry
}

var allTables = []namedTable{
	{"bounds", &boundsTable}, {"assert", &assertTable}, {"panic", &panicTable}, {"div", &divTable}, {"nil", &nilTable},
	{"err", &errTable}, {"det", &detTable}, {"select", &selectTable}, {"stepLoop", &stepLoopTable},
	{"planWrite", &planWriteTable}, {"astWrite", &astWriteTable}, {"variableWrite", &variableWriteTable}, {"fanoutOwnerWrites", &fanoutOwnerWrites}, {"cmp", &cmpTable}, {"globalWrite", &globalWriteTable},
}

// chainRefLists (R7.P5.chain): a JSON-decoded struct type T of the module that refers to itself
// through a pointer field (IntrospectionTypeRef.OfType) is walked by code that trusts the
// chain to be complete; the module's validator for such chains is the method on *T that
// returns a bool. Every list field whose elements hold a T and that the module reads at all
// must be ranged over somewhere with the validator applied to the element's T and its answer
// tested — otherwise the elements of that list reach the walkers unchecked. (This is what the
// tabled nil entries for the walkers rest on.)
type chainRead struct {
	fn  *ssa.Function
	ins ssa.Instruction
}

type chainFacts struct {
	validators map[*types.Named][]*ssa.Function
	reads      map[*types.Var][]chainRead
	chainOf    map[*types.Var]*types.Named
	validated  map[*types.Var]bool
}

var chainMemo = map[*Prog]*chainFacts{}

func (r *Run) chainRefLists(set map[*ssa.Function]bool) {
	const rule = "R7.P5.chain"
	cf := r.chainAnalysis()
	reads, chainOf, validated, validators := cf.reads, cf.chainOf, cf.validated, cf.validators
	var fields []*types.Var
	for f := range reads {
		fields = append(fields, f)
	}
	sort.Slice(fields, func(i, j int) bool { return fields[i].Pos() < fields[j].Pos() })
	for _, f := range fields {
		nt := chainOf[f]
		construct := "elements of " + f.Name() + " hold a " + nt.Obj().Name() + " chain"
		for _, rd := range reads[f] {
			r.silent = !set[rd.fn]
			if validated[f] {
				r.OK(rule, fnName(rd.fn), construct, r.P.pos(rd.ins.Pos()), "the list is ranged over with the chain validator applied to every element and its answer tested")
			} else {
				r.Bad(rule, fnName(rd.fn), construct, r.P.pos(rd.ins.Pos()), "the list field "+f.Name()+" is read, but nowhere in the module is it ranged over with the "+nt.Obj().Name()+" validator ("+fnName(validators[nt][0])+") applied to its elements: a reference in it whose wrapper chain ends early (ofType: null) reaches the code that follows the chain without a nil test; "+r.ctxNote(rd.fn))
			}
		}
	}
	r.silent = false
}

// chainWalker: v is the self-referential pointer field of a chain type that has a validator,
// read in a function that is not itself a validator: whether the chain is complete there is
// decided at the lists the references come from (R7.P5.chain), not at the walker.
func (r *Run) chainWalker(fn *ssa.Function, v ssa.Value) (string, bool) {
	ld, ok := v.(*ssa.UnOp)
	if !ok || ld.Op != token.MUL {
		return "", false
	}
	fa, ok := ld.X.(*ssa.FieldAddr)
	if !ok {
		return "", false
	}
	nt, _ := derefType(fa.X.Type()).(*types.Named)
	f := fieldOf(fa)
	if nt == nil || f == nil {
		return "", false
	}
	if p, ok := f.Type().(*types.Pointer); !ok || !types.Identical(p.Elem(), nt) {
		return "", false
	}
	cf := r.chainAnalysis()
	if len(cf.validators[nt]) == 0 {
		return "", false
	}
	for _, vf := range cf.validators[nt] {
		if vf == fn {
			return "", false
		}
	}
	for fld, t := range cf.chainOf {
		if t == nt && !cf.validated[fld] {
			return "", false
		}
	}
	return "link of a " + nt.Obj().Name() + " chain: every list whose elements hold such a chain is validated with " + fnName(cf.validators[nt][0]) + " before it is converted (R7.P5.chain, checked on this run), and a validated chain carries this link wherever its kind says there is one — the correspondence between what the validator accepts and what the walker follows is by reading", true
}

func (r *Run) chainAnalysis() *chainFacts {
	if cf, ok := chainMemo[r.P]; ok {
		return cf
	}
	type read = chainRead
	// chain types and their validators
	validators := map[*types.Named][]*ssa.Function{}
	for _, fn := range r.P.Funcs {
		if fn.Signature.Recv() == nil || fn.Signature.Params().Len() != 0 || fn.Signature.Results().Len() != 1 || fn.Synthetic != "" {
			continue
		}
		if b, ok := fn.Signature.Results().At(0).Type().Underlying().(*types.Basic); !ok || b.Kind() != types.Bool {
			continue
		}
		nt, _ := derefType(fn.Signature.Recv().Type()).(*types.Named)
		if nt == nil {
			continue
		}
		st, ok := nt.Underlying().(*types.Struct)
		if !ok {
			continue
		}
		self := false
		for i := 0; i < st.NumFields(); i++ {
			if p, ok := st.Field(i).Type().(*types.Pointer); ok && types.Identical(p.Elem(), nt) && strings.Contains(st.Tag(i), `json:"`) {
				self = true
			}
		}
		if self {
			validators[nt] = append(validators[nt], fn)
		}
	}
	if len(validators) == 0 {
		cf := &chainFacts{validators: validators, reads: map[*types.Var][]chainRead{}, chainOf: map[*types.Var]*types.Named{}, validated: map[*types.Var]bool{}}
		chainMemo[r.P] = cf
		return cf
	}
	holdsChain := func(elem types.Type) (*types.Named, bool) {
		st, ok := derefType(elem).Underlying().(*types.Struct)
		if !ok {
			return nil, false
		}
		for nt := range validators {
			if types.Identical(derefType(elem), nt) {
				return nil, false // a list of plain references (read by name), not of holders of a chain
			}
		}
		for i := 0; i < st.NumFields(); i++ {
			ft := derefType(st.Field(i).Type())
			for nt := range validators {
				if types.Identical(ft, nt) {
					return nt, true
				}
			}
		}
		return nil, false
	}
	reads := map[*types.Var][]read{}
	chainOf := map[*types.Var]*types.Named{}
	validated := map[*types.Var]bool{}
	// the answer of the call decides a branch (directly, negated, compared with nil/false)
	tested := func(c *ssa.Call) bool {
		seen := map[ssa.Value]bool{}
		var reaches func(v ssa.Value, depth int) bool
		reaches = func(v ssa.Value, depth int) bool {
			if v.Referrers() == nil || seen[v] || depth > 4 {
				return false
			}
			seen[v] = true
			for _, ref := range *v.Referrers() {
				switch x := ref.(type) {
				case *ssa.If:
					return true
				case *ssa.UnOp:
					if x.Op == token.NOT && reaches(x, depth+1) {
						return true
					}
				case *ssa.BinOp:
					if (x.Op == token.EQL || x.Op == token.NEQ) && reaches(x, depth+1) {
						return true
					}
				case *ssa.Extract:
					if reaches(x, depth+1) {
						return true
					}
				}
			}
			return false
		}
		return reaches(c, 0)
	}
	isValidator := func(callee *ssa.Function, nt *types.Named) bool {
		for _, v := range validators[nt] {
			if callee == v {
				return true
			}
		}
		return false
	}
	// a function that hands one of its *T parameters to a validator and branches on the answer
	// is a validator too (`checkTypeRef(ref) error { if !ref.complete() {…} }`)
	for round := 0; round < 3; round++ {
		for _, fn := range r.P.Funcs {
			if fn.Synthetic != "" {
				continue
			}
			for _, prm := range fn.Params {
				nt, _ := derefType(prm.Type()).(*types.Named)
				if nt == nil || validators[nt] == nil || isValidator(fn, nt) || prm.Referrers() == nil {
					continue
				}
				if _, isPtr := prm.Type().Underlying().(*types.Pointer); !isPtr {
					continue
				}
				for _, ref := range *prm.Referrers() {
					c, ok := ref.(*ssa.Call)
					if !ok || c.Call.IsInvoke() {
						continue
					}
					uses := false
					for _, a := range c.Call.Args {
						if a == ssa.Value(prm) {
							uses = true
						}
					}
					if uses && isValidator(r.P.declared(c.Call.StaticCallee()), nt) && tested(c) {
						validators[nt] = append(validators[nt], fn)
						break
					}
				}
			}
		}
	}
	// does the element address `base` (an IndexAddr into the list, or the cell the element was
	// copied into) have its chain field handed to a validator whose answer is tested?
	var elemValidated func(base ssa.Value, nt *types.Named) bool
	elemValidated = func(base ssa.Value, nt *types.Named) bool {
		if base.Referrers() == nil {
			return false
		}
		for _, ref := range *base.Referrers() {
			fa, ok := ref.(*ssa.FieldAddr)
			if !ok || fa.X != base || fa.Referrers() == nil || !types.Identical(derefType(derefType(fa.Type())), nt) {
				continue
			}
			var recvs []ssa.Value
			if _, isPtr := derefType(fa.Type()).(*types.Pointer); isPtr {
				for _, r2 := range *fa.Referrers() { // a *T field: the loaded pointer is the receiver
					if ld, ok := r2.(*ssa.UnOp); ok && ld.Op == token.MUL {
						recvs = append(recvs, ld)
					}
				}
			} else {
				recvs = append(recvs, fa)
			}
			for _, rv := range recvs {
				if rv.Referrers() == nil {
					continue
				}
				for _, r2 := range *rv.Referrers() {
					c, ok := r2.(*ssa.Call)
					if !ok || c.Call.IsInvoke() {
						continue
					}
					uses := false
					for _, a := range c.Call.Args {
						if a == rv {
							uses = true
						}
					}
					if uses && isValidator(r.P.declared(c.Call.StaticCallee()), nt) && tested(c) {
						return true
					}
				}
			}
		}
		return false
	}
	// the list is ranged over with every element validated — here, or in a module function it
	// is handed to
	var listValidated func(list ssa.Value, nt *types.Named, depth int) bool
	listValidated = func(list ssa.Value, nt *types.Named, depth int) bool {
		if list.Referrers() == nil || depth > 2 {
			return false
		}
		for _, ref := range *list.Referrers() {
			if c, ok := ref.(*ssa.Call); ok && !c.Call.IsInvoke() {
				g := r.P.declared(c.Call.StaticCallee())
				if g != nil && inModule(g) && g.Blocks != nil && len(g.Params) == len(c.Call.Args) && tested(c) {
					for k, a := range c.Call.Args {
						if a == list && listValidated(g.Params[k], nt, depth+1) {
							return true
						}
					}
				}
				continue
			}
			ia, ok := ref.(*ssa.IndexAddr)
			if !ok || ia.X != list || ia.Referrers() == nil {
				continue
			}
			if elemValidated(ia, nt) {
				return true
			}
			for _, r2 := range *ia.Referrers() {
				ld, ok := r2.(*ssa.UnOp)
				if !ok || ld.Op != token.MUL || ld.Referrers() == nil {
					continue
				}
				if _, isPtr := ld.Type().Underlying().(*types.Pointer); isPtr && elemValidated(ld, nt) {
					return true // a list of pointers: the element itself is the base
				}
				for _, r3 := range *ld.Referrers() {
					if st, ok := r3.(*ssa.Store); ok && st.Val == ssa.Value(ld) && elemValidated(st.Addr, nt) {
						return true
					}
				}
			}
		}
		return false
	}
	for _, fn := range r.P.Funcs {
		for _, ins := range allInstrs(fn) {
			var f *types.Var
			var list ssa.Value
			switch x := ins.(type) {
			case *ssa.UnOp:
				if fa, ok := x.X.(*ssa.FieldAddr); ok && x.Op == token.MUL {
					f, list = fieldOf(fa), x
				}
			case *ssa.Field:
				f, list = fieldOfVal(x), x
			}
			if f == nil || f.Pkg() == nil || !strings.HasPrefix(f.Pkg().Path(), modPath) {
				continue
			}
			sl, ok := f.Type().Underlying().(*types.Slice)
			if !ok {
				continue
			}
			nt, ok := holdsChain(sl.Elem())
			if !ok {
				continue
			}
			chainOf[f] = nt
			reads[f] = append(reads[f], read{fn, ins})
			if listValidated(list, nt, 0) {
				validated[f] = true
			}
		}
	}
	cf := &chainFacts{validators: validators, reads: reads, chainOf: chainOf, validated: validated}
	chainMemo[r.P] = cf
	return cf
}

// jsonDecodedList: v is a list read from a variable that was handed to encoding/json, or a
// parameter for which some direct caller passes such a list.
func (r *Run) jsonDecodedList(v ssa.Value, depth int) bool {
	switch x := v.(type) {
	case *ssa.UnOp:
		if al, ok := x.X.(*ssa.Alloc); ok && x.Op == token.MUL {
			return jsonDecodedInto(al)
		}
	case *ssa.Parameter:
		g := x.Parent()
		if g == nil || depth > 2 {
			return false
		}
		k := -1
		for i, p := range g.Params {
			if p == x {
				k = i
			}
		}
		for _, e := range r.P.CG.In[g] {
			if e.Kind != "static" || k < 0 || k >= len(e.Site.Common().Args) {
				continue
			}
			if r.jsonDecodedList(e.Site.Common().Args[k], depth+1) {
				return true
			}
		}
	}
	return false
}

// jsonDecodedInto: the address of al is handed to encoding/json (Unmarshal / Decoder.Decode).
func jsonDecodedInto(al *ssa.Alloc) bool {
	for _, ref := range *al.Referrers() {
		mi, ok := ref.(*ssa.MakeInterface)
		if !ok {
			continue
		}
		for _, r2 := range *mi.Referrers() {
			if ci, ok := r2.(ssa.CallInstruction); ok {
				switch calleeName(ci.Common()) {
				case "encoding/json.Unmarshal", "(*encoding/json.Decoder).Decode":
					return true
				}
			}
		}
	}
	return false
}

// nilMapWrites (R7.P3m): a map obtained from a call that returns a nil map on some path
// (typically together with an error) is written without a test that excludes that path.
func (r *Run) nilMapWrites(fn *ssa.Function) {
	name := fnName(fn)
	for _, ins := range allInstrs(fn) {
		mu, ok := ins.(*ssa.MapUpdate)
		if !ok {
			continue
		}
		var srcs []ssa.Value
		seen := map[ssa.Value]bool{}
		var collect func(v ssa.Value)
		collect = func(v ssa.Value) {
			if seen[v] {
				return
			}
			seen[v] = true
			if p, ok := v.(*ssa.Phi); ok {
				for _, e := range p.Edges {
					collect(e)
				}
				return
			}
			srcs = append(srcs, v)
		}
		collect(mu.Map)
		for _, v := range srcs {
			ex, ok := v.(*ssa.Extract)
			if !ok {
				continue
			}
			call, ok := ex.Tuple.(*ssa.Call)
			if !ok {
				continue
			}
			// can a callee return a nil map at this index?
			nilRet := false
			for _, e := range r.P.CG.Out[fn] {
				if e.Site != ssa.CallInstruction(call) || e.Kind == "param" || e.Kind == "hoarg" || e.Kind == "extarg" {
					continue
				}
				for _, ret := range returnsOf(e.Callee) {
					vals := retVals(ret)
					if ex.Index < len(vals) && isNilConst(unwrap(vals[ex.Index])) {
						nilRet = true
					}
				}
			}
			if !nilRet {
				continue
			}
			// discharged by a nil test of the map, or by the success side of the call's error test
			okGuard, _ := r.nonNilAt(ex, mu)
			if !okGuard {
				for _, ref := range *call.Referrers() {
					if e2, ok := ref.(*ssa.Extract); ok && isErrorish(e2.Type()) {
						for _, t := range failureTests(e2) {
							if len(t.ok.Preds) == 1 && (t.ok == mu.Block() || t.ok.Dominates(mu.Block())) {
								okGuard = true
							}
						}
					}
				}
			}
			construct := "write into map returned by " + calleeDesc(&call.Call)
			if okGuard {
				r.OK("R7.P3m", name, construct, r.P.pos(mu.Pos()), "the write is behind a nil test of the map or the success side of the call's error test")
			} else {
				r.Bad("R7.P3m", name, construct, r.P.pos(mu.Pos()), calleeDesc(&call.Call)+" returns a nil map on some path (its error path); writing into that map panics with `assignment to entry in nil map`; "+r.ctxNote(fn))
			}
		}
	}
}

var jsonListTypesMemo map[string]bool

// jsonListTypes: named slice-of-pointer types declared in the module that are the type of a
// json-tagged field of some module struct.
func (r *Run) jsonListTypes() map[string]bool {
	if jsonListTypesMemo != nil {
		return jsonListTypesMemo
	}
	out := map[string]bool{}
	for _, p := range r.P.Pkgs {
		sc := p.Types.Scope()
		for _, name := range sc.Names() {
			tn, ok := sc.Lookup(name).(*types.TypeName)
			if !ok {
				continue
			}
			st, ok := tn.Type().Underlying().(*types.Struct)
			if !ok {
				continue
			}
			for i := 0; i < st.NumFields(); i++ {
				tag := st.Tag(i)
				if !strings.Contains(tag, `json:"`) || strings.Contains(tag, `json:"-"`) {
					continue
				}
				ft := st.Field(i).Type()
				n := namedOf(ft)
				if n == "" || !strings.HasPrefix(n, modPath) {
					continue
				}
				if sl, ok := ft.Underlying().(*types.Slice); ok {
					if _, isPtr := sl.Elem().Underlying().(*types.Pointer); isPtr {
						out[n] = true
					}
				}
			}
		}
	}
	jsonListTypesMemo = out
	return out
}

// cmpTable: interface comparisons accepted by a hand argument.
var cmpTable = map[string]tabEntry{}

// ifaceCompareRisk: both operands are interface-typed and neither is known to hold a
// comparable dynamic type (nil, a constant, a conversion from a comparable type, a
// package-level sentinel such as io.EOF).
func ifaceCompareRisk(x *ssa.BinOp) (string, bool) {
	isIface := func(t types.Type) bool {
		if _, isParam := t.(*types.TypeParam); isParam {
			return false // instantiated with the element types of the call sites (strings here)
		}
		_, ok := t.Underlying().(*types.Interface)
		return ok
	}
	if !isIface(x.X.Type()) || !isIface(x.Y.Type()) {
		return "", false
	}
	safe := func(v ssa.Value) bool {
		switch y := v.(type) {
		case *ssa.Const:
			return true
		case *ssa.MakeInterface:
			return types.Comparable(y.X.Type())
		case *ssa.UnOp:
			if _, isGlobal := y.X.(*ssa.Global); isGlobal && y.Op == token.MUL {
				return true
			}
		}
		return false
	}
	if safe(x.X) || safe(x.Y) {
		return "", false
	}
	// one operand is known to hold a comparable dynamic type where the comparison runs: a
	// type switch / comma-ok assertion of that very value to comparable types dominates it
	// (== is then false for any other dynamic type of the other side, and never panics)
	if dynComparableAt(x.X, x.Block()) || dynComparableAt(x.Y, x.Block()) {
		return "", false
	}
	return "neither side is nil, a constant, a conversion from a comparable type or a package-level sentinel", true
}

// foundIndex: ia indexes the list S with the result p of a search function g(…S…) on the side
// where p is non-negative, and every value g returns is a negative constant or an index at
// which g itself indexed its (never reassigned) list parameter — "-1 or a position it just
// visited". With asserted != nil the visited element must also have passed a comma-ok
// assertion to that type on the way to the return, and nothing may touch S between the search
// and the use.
func (r *Run) foundIndex(ia *ssa.IndexAddr, use ssa.Instruction, asserted types.Type) (string, bool) {
	c, ok := viaCell(ia.Index).(*ssa.Call)
	if !ok {
		return "", false
	}
	sc := c.Call.StaticCallee()
	if sc == nil {
		return "", false
	}
	// a search of the standard library over the same byte slice. IndexByte, IndexRune, IndexAny,
	// IndexFunc and their Last… forms return -1 or the position of an element they looked at.
	// Index and LastIndex do so only for a needle that is not empty: bytes.Index(s, empty) is 0
	// (also for an empty s) and bytes.LastIndex(s, empty) is len(s).
	libSearch, libWhy := false, ""
	if sc.Pkg != nil && sc.Pkg.Pkg.Path() == "bytes" && len(c.Call.Args) > 0 && c.Call.Args[0] == ia.X && asserted == nil {
		switch sc.Name() {
		case "IndexByte", "LastIndexByte", "IndexRune", "IndexAny", "LastIndexAny", "IndexFunc", "LastIndexFunc":
			libSearch, libWhy = true, "-1 or the position of an element of it"
		case "Index", "LastIndex":
			if len(c.Call.Args) == 2 {
				if why, ok := nonEmptyBytesAt(c.Call.Args[1], c.Block()); ok {
					libSearch, libWhy = true, "the needle is not empty ("+why+"), so -1 or a position inside it"
				}
			}
		}
	}
	g := r.P.declared(sc)
	var list *ssa.Parameter
	if !libSearch {
		if g == nil || !inModule(g) || g.Blocks == nil || len(g.Params) != len(c.Call.Args) {
			return "", false
		}
		for k, a := range c.Call.Args {
			if a == ia.X {
				list = g.Params[k]
			}
		}
		if list == nil {
			return "", false
		}
	}
	// the use is on the non-negative side of a test of the result
	guarded := false
	for _, ref := range *c.Referrers() {
		bo, ok := ref.(*ssa.BinOp)
		if !ok || bo.Referrers() == nil {
			continue
		}
		var side int // successor on which the result is >= 0
		switch {
		case bo.X == ssa.Value(c) && bo.Op == token.GEQ && isIntConst(bo.Y, 0), bo.X == ssa.Value(c) && bo.Op == token.GTR && isIntConst(bo.Y, -1):
			side = 0
		case bo.X == ssa.Value(c) && bo.Op == token.LSS && isIntConst(bo.Y, 0):
			side = 1
		case libSearch && bo.X == ssa.Value(c) && bo.Op == token.NEQ && isIntConst(bo.Y, -1):
			side = 0
		case libSearch && bo.X == ssa.Value(c) && bo.Op == token.EQL && isIntConst(bo.Y, -1):
			side = 1
		default:
			continue
		}
		for _, r2 := range *bo.Referrers() {
			iff, ok := r2.(*ssa.If)
			if !ok || len(iff.Block().Succs) != 2 || iff.Block().Succs[0] == iff.Block().Succs[1] {
				continue
			}
			sb := iff.Block().Succs[side]
			if len(sb.Preds) == 1 && (sb == use.Block() || sb.Dominates(use.Block())) {
				guarded = true
			}
		}
	}
	if !guarded {
		return "", false
	}
	if libSearch {
		// nothing re-slices the list between the search and the use: the same SSA value is indexed
		return "the index is the non-negative result of bytes." + sc.Name() + " over the same slice: " + libWhy, true
	}
	if asserted != nil {
		for _, ins := range allInstrs(use.Parent()) {
			if ins == use || ins == ssa.Instruction(ia) || !instrDominates(c, ins) || !instrDominates(ins, use) {
				continue
			}
			switch x := ins.(type) {
			case *ssa.Store:
				if a, ok := x.Addr.(*ssa.IndexAddr); ok && a.X == ia.X {
					return "", false
				}
			case ssa.CallInstruction:
				for _, a := range x.Common().Args {
					if a == ia.X {
						return "", false
					}
				}
			}
		}
	}
	// what g returns
	visitedBefore := func(idx ssa.Value, b *ssa.BasicBlock) bool {
		if idx.Referrers() == nil {
			return false
		}
		for _, ref := range *idx.Referrers() {
			a, ok := ref.(*ssa.IndexAddr)
			if !ok || a.Index != idx || a.X != ssa.Value(list) {
				continue
			}
			if asserted == nil {
				if a.Block() == b || a.Block().Dominates(b) {
					return true
				}
				continue
			}
			for _, r2 := range *a.Referrers() {
				ld, ok := r2.(*ssa.UnOp)
				if !ok || ld.Op != token.MUL || ld.Referrers() == nil {
					continue
				}
				for _, r3 := range *ld.Referrers() {
					ta, ok := r3.(*ssa.TypeAssert)
					if !ok || !ta.CommaOk || ta.X != ssa.Value(ld) || !types.Identical(ta.AssertedType, asserted) {
						continue
					}
					for _, r4 := range *ta.Referrers() {
						if okv, isEx := r4.(*ssa.Extract); isEx && okv.Index == 1 {
							for _, sb := range truthSides(okv) {
								if len(sb.Preds) == 1 && (sb == b || sb.Dominates(b)) {
									return true
								}
							}
						}
					}
				}
			}
		}
		return false
	}
	seen := map[ssa.Value]bool{}
	var leafOK func(v ssa.Value, b *ssa.BasicBlock) bool
	leafOK = func(v ssa.Value, b *ssa.BasicBlock) bool {
		if k, ok := v.(*ssa.Const); ok {
			if k.Value == nil {
				return false
			}
			n, exact := constant.Int64Val(constant.ToInt(k.Value))
			return exact && n < 0
		}
		if phi, ok := v.(*ssa.Phi); ok {
			if seen[phi] {
				return true
			}
			seen[phi] = true
			for i, e := range phi.Edges {
				if !leafOK(e, phi.Block().Preds[i]) {
					return false
				}
			}
			return true
		}
		return visitedBefore(v, b)
	}
	rets := returnsOf(g)
	if len(rets) == 0 {
		return "", false
	}
	for _, ret := range rets {
		vals := retVals(ret)
		if len(vals) != 1 || !leafOK(vals[0], ret.Block()) {
			return "", false
		}
	}
	why := "the index is the non-negative result of " + fnName(g) + " over the same list, which returns a negative constant or a position at which it has just indexed that list"
	if asserted != nil {
		why += " and found an element of the asserted type (comma-ok); the list is not touched between the search and the use"
	}
	return why, true
}

// nonEmptyBytesAt: the byte slice v holds at least one byte where block b runs — a conversion
// of a non-empty constant string, a literal with elements, or a value whose length a test
// dominating b found non-zero.
func nonEmptyBytesAt(v ssa.Value, b *ssa.BasicBlock) (string, bool) {
	switch x := v.(type) {
	case *ssa.Convert:
		if k, ok := x.X.(*ssa.Const); ok && k.Value != nil && k.Value.Kind() == constant.String && len(constant.StringVal(k.Value)) > 0 {
			return "a non-empty constant", true
		}
	case *ssa.Slice:
		if x.Low == nil && x.High == nil && x.Max == nil {
			if pt, ok := x.X.Type().Underlying().(*types.Pointer); ok {
				if at, ok := pt.Elem().Underlying().(*types.Array); ok && at.Len() > 0 {
					if _, isAlloc := x.X.(*ssa.Alloc); isAlloc {
						return "a literal with elements", true
					}
				}
			}
		}
	}
	fn := b.Parent()
	if fn == nil {
		return "", false
	}
	for _, ins := range allInstrs(fn) {
		iff, ok := ins.(*ssa.If)
		if !ok || len(iff.Block().Succs) != 2 || iff.Block().Succs[0] == iff.Block().Succs[1] {
			continue
		}
		bo, ok := iff.Cond.(*ssa.BinOp)
		if !ok {
			continue
		}
		subj, nonEmptyWhenTrue, ok := nilTestOf(bo, 0)
		if !ok || subj != v || isNilConst(bo.X) || isNilConst(bo.Y) {
			continue
		}
		side := 1
		if nonEmptyWhenTrue {
			side = 0
		}
		if sb := iff.Block().Succs[side]; len(sb.Preds) == 1 && (sb == b || sb.Dominates(b)) {
			return "its length was tested", true
		}
	}
	return "", false
}

// recordedIndexProver (P1): X[p] where X was made with len(L) slots and p is an element of a
// list of ints into which the function only ever appends the index of a `range L` loop
// (`results := make(T, len(inputs)); for i := range inputs { … idxs = append(idxs, i) }; …
// results[idxs[n]]`): every recorded index is below len(L) = len(X).
func (r *Run) recordedIndexProver(fn *ssa.Function, e ast.Expr) (string, bool) {
	ie, ok := e.(*ast.IndexExpr)
	if !ok {
		return "", false
	}
	lenArg := func(v ssa.Value) ssa.Value {
		c, ok := viaCell(unwrap(v)).(*ssa.Call)
		if !ok {
			return nil
		}
		if b, ok := c.Call.Value.(*ssa.Builtin); ok && b.Name() == "len" {
			return viaCell(unwrap(c.Call.Args[0]))
		}
		return nil
	}
	for _, ins := range allInstrs(fn) {
		ia, ok := ins.(*ssa.IndexAddr)
		if !ok || ia.Pos() != ie.Lbrack {
			continue
		}
		// a helper that is handed both lists (`placeResponses(results, indexes, resps)`): read
		// its parameters as what its one call site passes
		atCaller := func(v ssa.Value) ssa.Value {
			v = viaCell(unwrap(v))
			p, ok := v.(*ssa.Parameter)
			if !ok {
				return v
			}
			pf := p.Parent()
			idx := -1
			for i, q := range pf.Params {
				if q == p {
					idx = i
				}
			}
			var site ssa.CallInstruction
			for _, e := range r.P.CG.In[pf] {
				if e.Kind != "static" || site != nil {
					return v
				}
				site = e.Site
			}
			if site == nil || idx < 0 || idx >= len(site.Common().Args) {
				return v
			}
			return viaCell(unwrap(site.Common().Args[idx]))
		}
		mk, ok := atCaller(ia.X).(*ssa.MakeSlice)
		if !ok {
			return "", false
		}
		L := lenArg(mk.Len)
		if L == nil {
			return "", false
		}
		if _, isParam := L.(*ssa.Parameter); !isParam {
			return "", false // the list whose length was taken must not change: a parameter never reassigned
		}
		// the index: an element of a list of ints
		ld, ok := viaCell(unwrap(ia.Index)).(*ssa.UnOp)
		if !ok || ld.Op != token.MUL {
			return "", false
		}
		src, ok := ld.X.(*ssa.IndexAddr)
		if !ok {
			return "", false
		}
		// every value the list can hold
		seen := map[ssa.Value]bool{}
		var elems []ssa.Value
		okList := true
		var walk func(v ssa.Value)
		walk = func(v ssa.Value) {
			v = unwrap(v)
			if seen[v] || !okList {
				return
			}
			seen[v] = true
			switch x := v.(type) {
			case *ssa.Const:
				if !x.IsNil() {
					okList = false
				}
			case *ssa.Phi:
				for _, ed := range x.Edges {
					walk(ed)
				}
			case *ssa.MakeSlice:
				if k, ok := x.Len.(*ssa.Const); !ok || k.Value == nil || k.Value.ExactString() != "0" {
					okList = false
				}
			case *ssa.Call:
				b, ok := x.Call.Value.(*ssa.Builtin)
				if !ok || b.Name() != "append" || len(x.Call.Args) != 2 {
					okList = false
					return
				}
				walk(x.Call.Args[0])
				// the appended pack: a slice of a fresh array whose elements are stored one by one
				sl, ok := x.Call.Args[1].(*ssa.Slice)
				if !ok {
					okList = false
					return
				}
				arr, ok := sl.X.(*ssa.Alloc)
				if !ok {
					okList = false
					return
				}
				for _, ref := range *arr.Referrers() {
					if a2, ok := ref.(*ssa.IndexAddr); ok {
						for _, r2 := range *a2.Referrers() {
							if st, ok := r2.(*ssa.Store); ok {
								elems = append(elems, st.Val)
							}
						}
					}
				}
			case *ssa.UnOp:
				// a local cell: whatever was stored into it
				if al, ok := x.X.(*ssa.Alloc); ok && x.Op == token.MUL {
					for _, st := range storesTo(al) {
						walk(st.Val)
					}
				} else {
					okList = false
				}
			default:
				okList = false
			}
		}
		walk(atCaller(src.X))
		if !okList || len(elems) == 0 {
			return "", false
		}
		// each recorded value is the index of a loop bounded by len(L)
		for _, el := range elems {
			bounded := false
			if el.Referrers() != nil {
				for _, ref := range *el.Referrers() {
					bo, ok := ref.(*ssa.BinOp)
					if !ok || bo.Op != token.LSS || bo.X != el || lenArg(bo.Y) != L || bo.Referrers() == nil {
						continue
					}
					for _, r2 := range *bo.Referrers() {
						if iff, ok := r2.(*ssa.If); ok {
							body := iff.Block().Succs[0]
							for _, u := range *el.Referrers() {
								if st, ok := u.(*ssa.Store); ok && st.Val == el && len(body.Preds) == 1 && (body == st.Block() || body.Dominates(st.Block())) {
									bounded = true
								}
							}
						}
					}
				}
			}
			if !bounded {
				return "", false
			}
		}
		return "the index is an element of a list that only ever receives the index of a loop over the list whose length the indexed slice was made with", true
	}
	return "", false
}

// searchIndexProver (P1): S[p] with p found by a search over S (foundIndex).
func (r *Run) searchIndexProver(fn *ssa.Function, e ast.Expr) (string, bool) {
	ie, ok := e.(*ast.IndexExpr)
	if !ok {
		return "", false
	}
	for _, ins := range allInstrs(fn) {
		if ia, ok := ins.(*ssa.IndexAddr); ok && ia.Pos() == ie.Lbrack {
			if why, ok := r.foundIndex(ia, ia, nil); ok {
				return why, true
			}
		}
	}
	return "", false
}

// searchedElementAssert (P2): S[p].(T) with p found by a search over S that saw a T there.
func (r *Run) searchedElementAssert(ta *ssa.TypeAssert) (string, bool) {
	ld, ok := ta.X.(*ssa.UnOp)
	if !ok || ld.Op != token.MUL {
		return "", false
	}
	ia, ok := ld.X.(*ssa.IndexAddr)
	if !ok {
		return "", false
	}
	return r.foundIndex(ia, ta, ta.AssertedType)
}

// positionalReducerProver: `acc[value.F]` in the reduce function of an AsyncMapReduce call
// whose payload is lo.Range(n), whose accumulator is made with the same n slots, whose every
// successful worker return hands back a value with F stored from the worker's index, and whose
// reducer hands its accumulator on unchanged. Computed on the values: neither the name of the
// carrying field nor the position of the closures matters. The reducer is a function literal
// (judged at the AsyncMapReduce call of the function it is written in) or a declared function —
// then every mention of it in the module has to be the reducer argument of such a call, and the
// conditions are asked of each of them.
func (r *Run) positionalReducerProver(fn *ssa.Function, e ast.Expr) (string, bool) {
	ie, ok := e.(*ast.IndexExpr)
	if !ok || len(fn.Params) != 2 || fn.Signature.Recv() != nil {
		return "", false
	}
	var ia *ssa.IndexAddr
	for _, ins := range allInstrs(fn) {
		if x, ok := ins.(*ssa.IndexAddr); ok && x.Pos() == ie.Lbrack {
			ia = x
		}
	}
	if ia == nil || ia.X != ssa.Value(fn.Params[0]) {
		return "", false
	}
	ld, ok := ia.Index.(*ssa.UnOp)
	if !ok || ld.Op != token.MUL {
		return "", false
	}
	fa, ok := ld.X.(*ssa.FieldAddr)
	if !ok || fa.X != ssa.Value(fn.Params[1]) || fieldOf(fa) == nil {
		return "", false
	}
	carrier := fieldOf(fa)
	// the reducer hands on the accumulator it was given
	for _, ret := range returnsOf(fn) {
		vals := retVals(ret)
		if len(vals) != 1 || viaCell(unwrap(vals[0])) != ssa.Value(fn.Params[0]) {
			return "", false
		}
	}
	type amrUse struct {
		call *ssa.Call
		mapF *ssa.Function
	}
	var uses []amrUse
	if fn.Parent() != nil {
		call, mapF, redF := r.amrSite(fn.Parent())
		if call == nil || mapF == nil || redF != fn {
			return "", false
		}
		uses = append(uses, amrUse{call, mapF})
	} else {
		// a declared function: whoever mentions it hands it to AsyncMapReduce as the reducer (a
		// direct call, a value kept in a variable or handed elsewhere is a use with an
		// accumulator and a value nothing is known about; so is a caller outside the module)
		if fn.Object() == nil || fn.Object().Exported() {
			return "", false
		}
		for _, site := range r.P.Funcs {
			for _, ins := range allInstrs(site) {
				mentioned := false
				for _, op := range ins.Operands(nil) {
					if f, ok := (*op).(*ssa.Function); ok && r.P.declared(f) == fn {
						mentioned = true
					}
				}
				if !mentioned {
					continue
				}
				c, ok := ins.(*ssa.Call)
				if !ok || len(c.Call.Args) != 4 {
					return "", false
				}
				sc := c.Call.StaticCallee()
				if sc == nil || fnName(origin(sc)) != "common.AsyncMapReduce" {
					return "", false
				}
				for k, a := range c.Call.Args {
					if f, ok := a.(*ssa.Function); ok && r.P.declared(f) == fn && k != 3 {
						return "", false
					}
				}
				ms, _ := r.P.CG.funcValues(c.Call.Args[2], map[ssa.Value]bool{})
				if len(ms) != 1 {
					return "", false
				}
				uses = append(uses, amrUse{c, ms[0]})
			}
		}
		if len(uses) == 0 {
			return "", false
		}
	}
	nRet := 0
	for _, u := range uses {
		n, ok := r.positionalFanOut(u.call, u.mapF, carrier)
		if !ok {
			return "", false
		}
		nRet += n
	}
	where := ""
	if fn.Parent() == nil {
		where = "; " + fn.Name() + " is mentioned only as the reducer of " + strconv.Itoa(len(uses)) + " such AsyncMapReduce call(s)"
	}
	return "positional reducer: the workers run over lo.Range(n), the accumulator is made with the same n slots, every successful worker result carries the worker's index in ." + carrier.Name() + " (" + strconv.Itoa(nRet) + " return(s) checked) and the reducer hands its accumulator on" + where, true
}

// positionalFanOut: the AsyncMapReduce call runs its worker mapF over lo.Range(n) with an
// accumulator of the same n slots, and every successful return of the worker hands back a value
// that carries the worker's index in the field carrier; the number of returns checked.
func (r *Run) positionalFanOut(call *ssa.Call, mapF *ssa.Function, carrier *types.Var) (int, bool) {
	if len(mapF.Params) != 1 || len(call.Call.Args) != 4 {
		return 0, false
	}
	// payload lo.Range(n), accumulator make(T, n): the same n
	rc, ok := unwrap(call.Call.Args[0]).(*ssa.Call)
	if !ok || !strings.HasSuffix(strings.SplitN(calleeName(&rc.Call), "[", 2)[0], "lo.Range") || len(rc.Call.Args) != 1 {
		return 0, false
	}
	mk, ok := unwrap(call.Call.Args[1]).(*ssa.MakeSlice)
	if !ok || !sameCount(rc.Call.Args[0], mk.Len) {
		return 0, false
	}
	// every successful worker return carries the worker's index in the field
	idx := ssa.Value(mapF.Params[0])
	nRet := 0
	for _, wr := range r.workerReturns(mapF, idx, 0) {
		if wr.val == nil {
			return 0, false
		}
		if !isNilConst(unwrap(wr.err)) {
			continue // a failed worker: AsyncMapReduce does not reduce its value
		}
		// (a return of a function the worker forwards the result of is judged there, with the
		// parameter the index is passed for)
		if wr.idx == nil || !r.carriesIndex(unwrap(wr.val), wr.idx, wr.ret, carrier, 0) {
			return 0, false
		}
		nRet++
	}
	return nRet, nRet > 0
}

// pureResultOf: the call goes to a module function that does nothing but compute its single
// result from its parameters and fields (one return, no stores, no calls but len); returns the
// result value inside the callee and the parameter → argument mapping of this call.
func (r *Run) pureResultOf(c *ssa.Call) (ssa.Value, map[*ssa.Parameter]ssa.Value) {
	sc := c.Call.StaticCallee()
	if sc == nil {
		return nil, nil
	}
	d := r.P.declared(sc)
	if d == nil || !inModule(d) || d.Blocks == nil || len(d.Params) != len(c.Call.Args) {
		return nil, nil
	}
	rets := returnsOf(d)
	if len(rets) != 1 || len(rets[0].Results) != 1 {
		return nil, nil
	}
	for _, ins := range allInstrs(d) {
		switch x := ins.(type) {
		case *ssa.UnOp, *ssa.BinOp, *ssa.FieldAddr, *ssa.Field, *ssa.Return, *ssa.Convert, *ssa.ChangeType, *ssa.DebugRef:
		case *ssa.Call:
			if b, ok := x.Call.Value.(*ssa.Builtin); !ok || b.Name() != "len" {
				return nil, nil
			}
		default:
			return nil, nil
		}
	}
	m := map[*ssa.Parameter]ssa.Value{}
	for i, p := range d.Params {
		m[p] = c.Call.Args[i]
	}
	return rets[0].Results[0], m
}

// carriesIndex: at instruction `at`, the struct v points to has field `carrier` set from idx —
// by stores in this function that all write idx, one of which dominates `at`, or because v is
// the result of a module function every return of which hands back such a value built from the
// parameter idx is passed for (a constructor helper).
func (r *Run) carriesIndex(v, idx ssa.Value, at ssa.Instruction, carrier *types.Var, depth int) bool {
	if v.Referrers() == nil || depth > 2 {
		return false
	}
	carried := false
	for _, ref := range *v.Referrers() {
		fb, ok := ref.(*ssa.FieldAddr)
		if !ok || fb.X != v || fieldOf(fb) != carrier || fb.Referrers() == nil {
			continue
		}
		for _, r2 := range *fb.Referrers() {
			st, ok := r2.(*ssa.Store)
			if !ok || st.Addr != ssa.Value(fb) {
				continue
			}
			if unwrap(st.Val) != idx {
				return false
			}
			if instrDominates(st, at) {
				carried = true
			}
		}
	}
	if carried {
		return true
	}
	// the result of a module function — its only result, or one of several (`res, err :=
	// de.executeGroup(index, group)`): judged at every return that hands back a value there
	res := 0
	if ex, ok := v.(*ssa.Extract); ok {
		v, res = ex.Tuple, ex.Index
	}
	c, ok := v.(*ssa.Call)
	if !ok {
		return false
	}
	sc := c.Call.StaticCallee()
	if sc == nil {
		return false
	}
	h := r.P.declared(sc)
	if h == nil || !inModule(h) || h.Blocks == nil || len(h.Params) != len(c.Call.Args) {
		return false
	}
	for k, a := range c.Call.Args {
		if unwrap(a) != idx {
			continue
		}
		rets := returnsOf(h)
		good := len(rets) > 0
		for _, ret := range rets {
			vals := retVals(ret)
			if res >= len(vals) {
				good = false
				continue
			}
			if len(vals) > 1 && isNilConst(unwrap(vals[res])) {
				continue // no value on this return (the failure side of a (value, error) pair)
			}
			if !r.carriesIndex(unwrap(vals[res]), h.Params[k], ret, carrier, depth+1) {
				good = false
			}
		}
		if good {
			return true
		}
	}
	return false
}

// sameCount: two integer values that are the same number — the same SSA value (possibly read
// back from a single-assignment cell), or len() of the same list.
func sameCount(a, b ssa.Value) bool {
	a, b = viaCell(unwrap(a)), viaCell(unwrap(b))
	if a == b {
		return true
	}
	lenArg := func(v ssa.Value) ssa.Value {
		c, ok := v.(*ssa.Call)
		if !ok {
			return nil
		}
		if bi, ok := c.Call.Value.(*ssa.Builtin); !ok || bi.Name() != "len" {
			return nil
		}
		return viaCell(c.Call.Args[0])
	}
	la, lb := lenArg(a), lenArg(b)
	return la != nil && lb != nil && (la == lb || sameValue(la, lb))
}

// processEnding: calls that end the process (or the goroutine) outright.
func processEnding(callee string) (string, bool) {
	switch callee {
	case "os.Exit", "syscall.Exit":
		return callee + " (ends the process)", true
	case "runtime.Goexit":
		return "runtime.Goexit (ends the goroutine without a result)", true
	case "log.Fatal", "log.Fatalf", "log.Fatalln", "(*log.Logger).Fatal", "(*log.Logger).Fatalf", "(*log.Logger).Fatalln":
		return callee + " (logs and calls os.Exit(1))", true
	case "log.Panic", "log.Panicf", "log.Panicln", "(*log.Logger).Panic", "(*log.Logger).Panicf", "(*log.Logger).Panicln":
		return callee + " (logs and panics)", true
	}
	return "", false
}

// ifaceKeyRisk: m is a map whose key type is an interface and the key used at block b is not
// known to hold a hashable dynamic type (a constant, a conversion from a comparable type, a
// package-level sentinel, or a value certified by a dominating type switch).
func ifaceKeyRisk(m, key ssa.Value, b *ssa.BasicBlock) (string, bool) {
	mt, ok := m.Type().Underlying().(*types.Map)
	if !ok {
		return "", false
	}
	if _, isParam := mt.Key().(*types.TypeParam); isParam {
		return "", false
	}
	if _, isIface := mt.Key().Underlying().(*types.Interface); !isIface {
		return "", false
	}
	switch y := key.(type) {
	case *ssa.Const:
		return "", false
	case *ssa.MakeInterface:
		if types.Comparable(y.X.Type()) {
			return "", false
		}
	case *ssa.UnOp:
		if _, isGlobal := y.X.(*ssa.Global); isGlobal && y.Op == token.MUL {
			return "", false
		}
	}
	if dynComparableAt(key, b) {
		return "", false
	}
	return "the key is not a constant, a conversion from a comparable type or a value a dominating type switch has narrowed to comparable types", true
}

// dynComparableAt: every path from the entry of the function to block b takes the success
// edge of a comma-ok type assertion (a clause of a type switch) of the interface value v to a
// comparable, non-interface type: inside b the dynamic type of v is comparable.
func dynComparableAt(v ssa.Value, b *ssa.BasicBlock) bool {
	if ci, ok := v.(*ssa.ChangeInterface); ok {
		v = ci.X
	}
	fn := b.Parent()
	if fn == nil || len(fn.Blocks) == 0 {
		return false
	}
	type edge struct{ from, to *ssa.BasicBlock }
	cert := map[edge]bool{}
	for _, ins := range allInstrs(fn) {
		iff, ok := ins.(*ssa.If)
		if !ok {
			continue
		}
		ex, ok := iff.Cond.(*ssa.Extract)
		if !ok || ex.Index != 1 {
			continue
		}
		ta, ok := ex.Tuple.(*ssa.TypeAssert)
		if !ok || !ta.CommaOk {
			continue
		}
		tx := ta.X
		if ci, ok := tx.(*ssa.ChangeInterface); ok {
			tx = ci.X
		}
		if tx != v || types.IsInterface(ta.AssertedType) || !types.Comparable(ta.AssertedType) {
			continue
		}
		bl := iff.Block()
		if len(bl.Succs) == 2 && bl.Succs[0] != bl.Succs[1] {
			cert[edge{bl, bl.Succs[0]}] = true
		}
	}
	if len(cert) == 0 {
		return false
	}
	// is b reachable from the entry without a certifying edge?
	seen := map[*ssa.BasicBlock]bool{fn.Blocks[0]: true}
	work := []*ssa.BasicBlock{fn.Blocks[0]}
	for len(work) > 0 {
		x := work[len(work)-1]
		work = work[:len(work)-1]
		if x == b {
			return false
		}
		for _, s := range x.Succs {
			if cert[edge{x, s}] || seen[s] {
				continue
			}
			seen[s] = true
			work = append(work, s)
		}
	}
	return true
}

// chunkSliceProver: a slice of the list that is cut into chunks, in the chunk body of
// MultiOpQueryer.Query (the map closure of its AsyncMapReduce call, or the one function that
// closure hands its index to). The bounds are computed, not matched: see rule_chunk.go.
func (r *Run) chunkSliceProver(fn *ssa.Function, e ast.Expr) (string, bool) {
	se, ok := e.(*ast.SliceExpr)
	if !ok {
		return "", false
	}
	var sl *ssa.Slice
	for _, ins := range allInstrs(fn) {
		if s, ok := ins.(*ssa.Slice); ok && s.Pos() == se.Lbrack {
			sl = s
		}
	}
	if sl == nil || sl.Max != nil {
		return "", false
	}
	for _, site := range r.P.Funcs {
		if class, ok := reducerTable[fnName(site)]; !ok || class.kind != "POS-chunks" {
			continue
		}
		call, mapF, _ := r.amrSite(site)
		if call == nil || mapF == nil || len(mapF.Params) != 1 || len(call.Call.Args) != 4 {
			continue
		}
		body, _ := chunkBody(r, mapF, mapF.Params[0])
		if body == nil {
			body = mapF
		}
		if body != fn {
			continue
		}
		if why, ok := r.proveChunkSlice(site, call, mapF, fn, sl); ok {
			return why, true
		}
	}
	return "", false
}
