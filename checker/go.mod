module pebcheck

go 1.23

require (
	github.com/vektah/gqlparser/v2 v2.5.1
	golang.org/x/tools v0.29.0
)

require (
	golang.org/x/mod v0.22.0 // indirect
	golang.org/x/sync v0.10.0 // indirect
)

require github.com/agnivade/levenshtein v1.1.1
