package main

// R4 — CALLERS and GATE (DESIGN §3 R4).
//  R4a who-may-call: frozen caller lists for the calls that matter (network sinks, response
//      writers, routing-table writers, planner/executor entry points, time/rand, go statements)
//  R4b validation gate: every call chain from the handlers to a network sink is dominated
//      by a successful gqlparser.LoadQuery on Gateway.schema and a non-nil operation.

import (
	"fmt"
	"go/constant"
	"go/token"
	"go/types"
	"sort"
	"strings"

	"golang.org/x/tools/go/ssa"
)

// whoMayCall: callee (qualified name as produced by ExtCall.Name / fnName for module
// functions) → allowed callers with the reason the list is what it is.
var whoMayCall = map[string]struct {
	callers []string
	why     string
}{
	"(*net/http.Client).Do": {[]string{"queryer.(*MultiOpQueryer).sendRequest"},
		"single HTTP send point; a retry written in this module would have to appear here (C06, C11, C12). Not covered: net/http itself re-sends the POST body when the service answers 307/308 (no CheckRedirect is set) — a redirect is the service's own instruction, so the claim is about sends the gateway decides on (audit: observed, 3 deliveries for a 307 chain)"},
	"(github.com/gobwas/ws.Dialer).Dial": {[]string{"queryer.(*MultiOpQueryer).Subscribe"},
		"single upstream websocket dial point (C17, C18); ws.Dial and the net dialers are counted as calls of it (callFamily)"},
	"github.com/buildbuildio/pebbles/queryer.Queryer.Query": {[]string{"executor.(*DepthExecutor).executeRequests", "introspection.introspectRemoteSchema"},
		"one batched call per (depth, service group) and one introspection call per service (C06, C12)"},
	"github.com/buildbuildio/pebbles/queryer.Queryer.Subscribe": {[]string{"pebbles.(*Gateway).newSubscriptionEntry"},
		"one upstream subscription per client subscription (C17)"},
	"github.com/buildbuildio/pebbles/planner.Planner.Plan": {[]string{"@queryHandler.map", "pebbles.(*Gateway).newSubscriptionEntry", "planner.(*CachedPlanner).Plan"},
		"planning happens once per operation, after validation; the caching planner delegates"},
	"github.com/buildbuildio/pebbles/executor.Executor.Execute": {[]string{"@queryHandler.map", "@executorFn"},
		"execution happens once per operation / per subscription event"},
	"net/http.ResponseWriter.WriteHeader": {[]string{"pebbles.(Results).Emit", "pebbles.emitError"},
		"status line is written by exactly two helpers (C07)"},
	"merger.(TypeURLMap).SetFromSchema": {[]string{"merger.(ExtendMergerFunc).Merge"},
		"routing table is filled during merge only (C04)"},
	"merger.(TypeURLMap).Set": {[]string{"merger.(TypeURLMap).SetFromSchema"},
		"routing table is filled during merge only (C04)"},
	"merger.(TypeURLMap).SetTypeIsImplementsNode": {[]string{"merger.(TypeURLMap).SetFromSchema"},
		"Node marking happens during merge only (C04)"},
	"introspection.(*IntrospectionResolver).ResolveIntrospectionFields": {[]string{"pebbles.(*Gateway).parseIntrospectionQuery"},
		"introspection is answered at one place, from the selection set of the plan's internal step — the one the planner has sanitised (named fragments expanded at every depth, C16); a second entry point hands the resolver a selection set prepared some other way"},
	"time.Now": {[]string{"planner.(*CachedPlanner).*"},
		"wall-clock time is used by the plan cache's TTL only (C13); the entry stands for every source of run-to-run variation: time.Since/Until and the random-number packages are counted as calls of it (callFamily)"},
}

// goSites: the frozen list of goroutine spawn sites (function containing the go statement →
// how many), each with the reason it is safe; a new spawn site must be reviewed (C08, C11,
// C13, C17, C18, C20).
var goSites = map[string]tabEntry{
	"common.AsyncMapReduce":                  {2, "workers and the single reducer of the fan-out helper (protocol checked by R1)"},
	"queryer.(*MultiOpQueryer).Subscribe":    {2, "upstream closer and upstream reader (R8)"},
	"pebbles.(subscriptionDict).Clean":       {1, "Close() of a stopped subscription runs detached so that the handler loop is not blocked (R8)"},
	"pebbles.(*Gateway).subscriptionHandler": {2, "one heartbeat per connection_init (nothing bounds how many inits a client sends — 20000 inits give 20000 heartbeat goroutines, each a further unlocked writer, see F15 — but all of them are cancelled when the handler returns: none outlives the connection) and one Listen goroutine per start; a start that reuses an id first stops the entry it replaces (repair bf39264, rule R8e), so every Listen stays reachable for stop/terminate/teardown"},
}

// callFamily: other entry points that do what a listed callee does; a call of any of them is
// counted as a call of the listed one (second table audit: a retry through Client.Post and a
// random routing decision through math/rand went past entries that froze one name only).
var callFamily = map[string]string{
	"(*net/http.Client).Post": "(*net/http.Client).Do", "(*net/http.Client).Get": "(*net/http.Client).Do",
	"(*net/http.Client).Head": "(*net/http.Client).Do", "(*net/http.Client).PostForm": "(*net/http.Client).Do",
	"net/http.Post": "(*net/http.Client).Do", "net/http.Get": "(*net/http.Client).Do", "net/http.Head": "(*net/http.Client).Do",
	"net/http.PostForm": "(*net/http.Client).Do", "(*net/http.Transport).RoundTrip": "(*net/http.Client).Do",
	"net/http.RoundTripper.RoundTrip": "(*net/http.Client).Do",
	"github.com/gobwas/ws.Dial":       "(github.com/gobwas/ws.Dialer).Dial", "net.Dial": "(github.com/gobwas/ws.Dialer).Dial",
	"net.DialTimeout": "(github.com/gobwas/ws.Dialer).Dial", "(*net.Dialer).Dial": "(github.com/gobwas/ws.Dialer).Dial",
	"(*net.Dialer).DialContext": "(github.com/gobwas/ws.Dialer).Dial", "crypto/tls.Dial": "(github.com/gobwas/ws.Dialer).Dial",
	"time.Since": "time.Now", "time.Until": "time.Now",
}

// familyOf maps an external callee to the listed callee it stands for. Every function of the
// random-number packages is a source of run-to-run variation like the clock.
func familyOf(callee string) string {
	if c, ok := callFamily[callee]; ok {
		return c
	}
	for _, p := range []string{"math/rand.", "math/rand/v2.", "crypto/rand.", "(*math/rand.Rand).", "(*math/rand/v2.Rand)."} {
		if strings.HasPrefix(callee, p) {
			return "time.Now"
		}
	}
	return callee
}

func ruleCallers(filter func(callee string) bool) ruleFn {
	return func(r *Run) {
		// collect actual callers
		actual := map[string]map[string]ssa.CallInstruction{}
		via := map[ssa.CallInstruction]string{}
		note := func(callee, caller string, site ssa.CallInstruction) {
			if f := familyOf(callee); f != callee {
				via[site] = callee
				if f != "time.Now" {
					// the single send / dial point uses the listed call itself: another entry
					// point is a second way out, whoever makes the call
					caller = caller + " (through " + callee + ")"
				}
				callee = f
			}
			if _, ok := whoMayCall[callee]; !ok {
				return
			}
			if actual[callee] == nil {
				actual[callee] = map[string]ssa.CallInstruction{}
			}
			actual[callee][caller] = site
		}
		// a listed interface method is also called when a concrete implementation of it is
		// called statically (a decorator that embeds the implementation and calls it twice)
		implOf := func(callee *ssa.Function) string {
			if callee == nil || callee.Signature.Recv() == nil {
				return ""
			}
			for key := range whoMayCall {
				i := strings.LastIndex(key, ".")
				if i < 0 || strings.HasPrefix(key, "(") || key[i+1:] != callee.Name() {
					continue
				}
				j := strings.LastIndex(key[:i], ".")
				if j < 0 {
					continue
				}
				pkgPath, ifaceName := key[:j], key[j+1:i]
				for _, p := range r.P.Pkgs {
					if p.PkgPath != pkgPath || p.Types == nil {
						continue
					}
					obj := p.Types.Scope().Lookup(ifaceName)
					if obj == nil {
						continue
					}
					if it, ok := obj.Type().Underlying().(*types.Interface); ok && types.Implements(callee.Signature.Recv().Type(), it) {
						return key
					}
				}
			}
			return ""
		}
		for _, fn := range r.P.Funcs {
			for _, e := range r.P.CG.Ext[fn] {
				note(e.Name, fnName(fn), e.Site)
			}
			for _, e := range r.P.CG.Out[fn] {
				if e.Kind == "static" {
					note(fnName(e.Callee), fnName(fn), e.Site)
					if key := implOf(e.Callee); key != "" && topFn(fn) != topFn(e.Callee) {
						note(key, fnName(fn), e.Site)
					}
				}
			}
		}
		var keys []string
		for k := range whoMayCall {
			keys = append(keys, k)
		}
		sort.Strings(keys)
		for _, callee := range keys {
			if filter != nil && !filter(callee) {
				continue
			}
			spec := whoMayCall[callee]
			allowed := map[string]bool{}
			var prefixes []string
			for _, c := range spec.callers {
				if strings.HasPrefix(c, "@") {
					for _, f := range r.RoleFuncs(c[1:]) {
						allowed[fnName(f)] = true
					}
					continue
				}
				allowed[c] = true
				if strings.HasSuffix(c, "*") {
					prefixes = append(prefixes, strings.TrimSuffix(c, "*"))
				}
			}
			found := 0
			var callers []string
			for c := range actual[callee] {
				callers = append(callers, c)
			}
			sort.Strings(callers)
			for _, c := range callers {
				site := actual[callee][c]
				okc := allowed[c]
				for _, p := range prefixes {
					if strings.HasPrefix(c, p) {
						okc = true
					}
				}
				if !okc {
					// a helper all of whose callers are allowed callers (helper extraction)
					okc = helperOfAllowed(r, c, allowed, prefixes, 0)
				}
				if !okc && callee == "time.Now" && onlyMeasuresDuration(r.P.Fn(c)) {
					found++
					r.OK("R4a", c, "calls "+callee, r.P.pos(site.Pos()), "the clock value is used only to compute an elapsed duration (time.Since / Sub) that is handed on, never compared: observability, not behaviour")
					continue
				}
				if okc {
					found++
					r.OK("R4a", c, "calls "+callee, r.P.pos(site.Pos()), "listed caller: "+spec.why)
				} else {
					what := callee
					if via[site] != "" {
						what = callee + " (here through " + via[site] + ", which does the same)"
					}
					r.Bad("R4a", c, "calls "+callee, r.P.pos(site.Pos()), "new caller of "+what+"; allowed: "+strings.Join(spec.callers, ", ")+" — "+spec.why)
				}
			}
			if found == 0 {
				r.Bad("R4a", "", "no-caller:"+callee, "-", "none of the listed callers calls "+callee+" any more: the rule has lost its anchor")
			}
		}
	}
}

// helperOfAllowed: every module caller of function name is an allowed caller, or again such a helper.
func helperOfAllowed(r *Run, name string, allowed map[string]bool, prefixes []string, depth int) bool {
	fn := r.P.Fn(name)
	if fn == nil || depth > 3 {
		return false
	}
	n := 0
	for _, e := range r.P.CG.In[fn] {
		if e.Kind == "param" {
			continue
		}
		n++
		c := fnName(e.Caller)
		ok := allowed[c]
		for _, p := range prefixes {
			if strings.HasPrefix(c, p) {
				ok = true
			}
		}
		if !ok && !helperOfAllowed(r, c, allowed, prefixes, depth+1) {
			return false
		}
	}
	return n > 0 && !isExported(fn)
}

// ruleGoSites: every go statement sits in a listed function (goSites) and within that
// function's budget. A go statement in an unexported helper that is only ever called — directly
// or through other such helpers — from one listed function counts as a statement of that
// function: moving a `case` body of the handler into a method of the same package starts the
// same goroutines under the same conditions.
func ruleGoSites(r *Run) {
	type site struct {
		g     *ssa.Go
		fn    *ssa.Function
		owner string
		via   string
	}
	// ownerOf: the listed function on whose behalf top runs, "" when there is none or several
	var ownersOf func(top *ssa.Function, depth int, seen map[*ssa.Function]bool) map[string]bool
	ownersOf = func(top *ssa.Function, depth int, seen map[*ssa.Function]bool) map[string]bool {
		out := map[string]bool{}
		if _, listed := goSites[fnName(top)]; listed {
			out[fnName(top)] = true
			return out
		}
		if depth > 3 || seen[top] || isExported(top) {
			out["?"] = true
			return out
		}
		seen[top] = true
		n := 0
		for _, f := range withClosures(top) {
			for _, e := range r.P.CG.In[f] {
				if topFn(e.Caller) == top || e.Kind == "param" {
					continue
				}
				n++
				if e.Kind != "static" || topFn(e.Caller).Pkg != top.Pkg {
					out["?"] = true
					continue
				}
				for o := range ownersOf(topFn(e.Caller), depth+1, seen) {
					out[o] = true
				}
			}
		}
		if n == 0 {
			out["?"] = true
		}
		return out
	}
	var sites []site
	for _, fn := range r.P.Funcs {
		top := topFn(fn)
		for _, ins := range allInstrs(fn) {
			g, ok := ins.(*ssa.Go)
			if !ok {
				continue
			}
			s := site{g: g, fn: fn, owner: fnName(top)}
			if _, listed := goSites[s.owner]; !listed {
				os := ownersOf(top, 0, map[*ssa.Function]bool{})
				if len(os) == 1 && !os["?"] {
					for o := range os {
						s.owner, s.via = o, fnName(top)
					}
				}
			}
			sites = append(sites, s)
		}
	}
	// statements of the listed function itself first, then those of its helpers
	sort.SliceStable(sites, func(i, j int) bool { return sites[i].via == "" && sites[j].via != "" })
	count := map[string]int{}
	for _, s := range sites {
		name := s.owner
		count[name]++
		e, listed := goSites[name]
		what := fmt.Sprintf("go statement %d of %s", count[name], name)
		if listed && count[name] <= e.N {
			reason := e.Reason
			if s.via != "" {
				reason = "in " + s.via + ", a helper called only on behalf of " + name + " — " + reason
			}
			r.Tabled("R4a.go", fnName(s.fn), what, r.P.pos(s.g.Pos()), "goSites", reason)
		} else {
			r.Bad("R4a.go", fnName(s.fn), what, r.P.pos(s.g.Pos()),
				"new goroutine spawn site: concurrency outside AsyncMapReduce and the subscription goroutines is not covered by the ordering/independence arguments (R1, R8, R9b)")
		}
	}
	// anti-vacuity, by role rather than by a total: every listed function still starts at least
	// one goroutine (how many it needs is its own business — a fan-out helper rewritten without a
	// reducer goroutine has one statement less and nothing to review)
	var names []string
	for name := range goSites {
		names = append(names, name)
	}
	sort.Strings(names)
	for _, name := range names {
		r.AtLeast("R4a.go", "go statements of "+name, count[name], 1)
	}
}

// ---- R4b ------------------------------------------------------------------------------

type gateInfo struct {
	r *Run
	// validated[fn] = blocks of fn that are behind the gate
	validated map[*ssa.Function]map[*ssa.BasicBlock]bool
	validator map[*ssa.Function]bool
	primary   int
}

const loadQueryName = "github.com/vektah/gqlparser/v2.LoadQuery"

func isGatewaySchemaLoad(v ssa.Value) bool {
	ld, ok := unwrap(v).(*ssa.UnOp)
	if !ok || ld.Op != token.MUL {
		return false
	}
	fa, ok := ld.X.(*ssa.FieldAddr)
	if !ok {
		return false
	}
	f := fieldOf(fa)
	return f != nil && f.Name() == "schema" && namedOf(fa.X.Type()) == modPath+".Gateway"
}

// dominatedSet returns blocks dominated by b (inclusive) when b has a single predecessor.
func dominatedBy(b *ssa.BasicBlock) map[*ssa.BasicBlock]bool {
	out := map[*ssa.BasicBlock]bool{}
	if len(b.Preds) != 1 {
		return out
	}
	for _, x := range b.Parent().Blocks {
		if b == x || b.Dominates(x) {
			out[x] = true
		}
	}
	return out
}

func intersect(a, b map[*ssa.BasicBlock]bool) map[*ssa.BasicBlock]bool {
	out := map[*ssa.BasicBlock]bool{}
	for k := range a {
		if b[k] {
			out[k] = true
		}
	}
	return out
}

func union(a, b map[*ssa.BasicBlock]bool) map[*ssa.BasicBlock]bool {
	out := map[*ssa.BasicBlock]bool{}
	for k := range a {
		out[k] = true
	}
	for k := range b {
		out[k] = true
	}
	return out
}

// computeGate finds, per function, the blocks that can only be reached after a successful
// validation and operation selection.
func (g *gateInfo) compute(fns map[*ssa.Function]bool) {
	g.validated = map[*ssa.Function]map[*ssa.BasicBlock]bool{}
	g.validator = map[*ssa.Function]bool{}
	for round := 0; round < 5; round++ {
		changed := false
		for fn := range fns {
			val := map[*ssa.BasicBlock]bool{}
			for _, ins := range allInstrs(fn) {
				call, ok := ins.(*ssa.Call)
				if !ok {
					continue
				}
				isPrimary := calleeName(&call.Call) == loadQueryName && len(call.Call.Args) == 2 && isGatewaySchemaLoad(call.Call.Args[0])
				isSecondary := false
				if !isPrimary {
					for _, e := range g.r.P.CG.Out[fn] {
						if e.Site == ssa.CallInstruction(call) && e.Kind == "static" && g.validator[e.Callee] {
							isSecondary = true
						}
					}
				}
				if !isPrimary && !isSecondary {
					continue
				}
				// error result of the call and its success side
				var okBlocks map[*ssa.BasicBlock]bool
				for _, ref := range *call.Referrers() {
					ex, ok := ref.(*ssa.Extract)
					if !ok || !isErrorish(ex.Type()) {
						continue
					}
					for _, t := range failureTests(ex) {
						okBlocks = union(okBlocks, dominatedBy(t.ok))
					}
				}
				if okBlocks == nil {
					continue
				}
				if isPrimary {
					// the operation picked from the document must be non-nil as well
					okBlocks = intersect(okBlocks, g.opSelected(fn))
				}
				val = union(val, okBlocks)
			}
			if len(val) != len(g.validated[fn]) {
				g.validated[fn] = val
				changed = true
			}
			// is fn a validator? every success return (nil error result) lies behind the gate
			if len(val) > 0 {
				isVal := true
				hasErr := false
				for _, ret := range returnsOf(fn) {
					success := true
					for i, res := range retVals(ret) {
						if isErrorish(fn.Signature.Results().At(i).Type()) {
							hasErr = true
							if !isNilConst(unwrap(res)) {
								success = false
							}
						}
					}
					if success && !val[ret.Block()] {
						isVal = false
					}
				}
				if isVal && hasErr && !g.validator[fn] {
					g.validator[fn] = true
					changed = true
				} else if (!isVal || !hasErr) && g.validator[fn] {
					delete(g.validator, fn)
					changed = true
				}
			}
		}
		if !changed {
			break
		}
	}
}

const opDefType = "github.com/vektah/gqlparser/v2/ast.OperationDefinition"

// opSelected returns the blocks of fn in which an operation has been selected and is known
// to be non-nil: behind an explicit nil test, or behind the success side of a selector helper
// (a module function returning (*ast.OperationDefinition, error) whose every success return
// yields a non-nil operation).
func (g *gateInfo) opSelected(fn *ssa.Function) map[*ssa.BasicBlock]bool {
	var out map[*ssa.BasicBlock]bool
	for _, ins := range allInstrs(fn) {
		switch x := ins.(type) {
		case *ssa.If:
			side := nilTestSide(x, func(v ssa.Value) bool { return namedOf(v.Type()) == opDefType })
			if side != nil {
				out = union(out, dominatedBy(side))
			}
		case *ssa.Call:
			sc := x.Call.StaticCallee()
			if sc == nil || !inModule(sc) || !g.isSelector(g.r.P.declared(sc), 0) {
				continue
			}
			for _, ref := range *x.Referrers() {
				if ex, ok := ref.(*ssa.Extract); ok && isErrorish(ex.Type()) {
					for _, t := range failureTests(ex) {
						out = union(out, dominatedBy(t.ok))
					}
				}
			}
		}
	}
	return out
}

// isSelector: fn returns (*OperationDefinition, error) and on every success return the
// operation is an element of the document's operation list or passed a nil test.
func (g *gateInfo) isSelector(fn *ssa.Function, depth int) bool {
	if fn == nil || fn.Blocks == nil || depth > 2 {
		return false
	}
	res := fn.Signature.Results()
	if res.Len() != 2 || namedOf(res.At(0).Type()) != opDefType || !isErrorish(res.At(1).Type()) {
		return false
	}
	for _, ret := range returnsOf(fn) {
		vals := retVals(ret)
		if !isNilConst(unwrap(vals[1])) {
			continue // failure return
		}
		if !g.nonNilOp(vals[0], ret) {
			return false
		}
	}
	return true
}

func (g *gateInfo) nonNilOp(v ssa.Value, at ssa.Instruction) bool {
	v = unwrap(v)
	if ld, ok := v.(*ssa.UnOp); ok && ld.Op == token.MUL {
		if _, ok := ld.X.(*ssa.IndexAddr); ok {
			return true // element of the validated document's operation list (gqlparser never stores nil there)
		}
	}
	// the value itself passed a nil test that dominates the return (`if operation != nil { return operation, nil }`)
	if ok, _ := g.r.nonNilAt(v, at); ok {
		return true
	}
	if p, ok := v.(*ssa.Phi); ok {
		for _, e := range p.Edges {
			if !g.nonNilOp(e, at) {
				return false
			}
		}
		return true
	}
	return false
}

// ruleOperationSelection (R4b.sel): an operation taken from the document by position (not by
// name lookup) may be used only where the request carries no operationName.
func ruleOperationSelection(r *Run) {
	const rule = "R4b.sel"
	n := 0
	for _, fn := range r.P.Funcs {
		if topFn(fn).Pkg == nil || topFn(fn).Pkg.Pkg.Path() != modPath {
			continue
		}
		for _, ins := range allInstrs(fn) {
			ld, ok := ins.(*ssa.UnOp)
			if !ok || ld.Op != token.MUL || namedOf(ld.Type()) != opDefType {
				continue
			}
			ia, ok := ld.X.(*ssa.IndexAddr)
			if !ok {
				continue
			}
			n++
			// find the test of the requested name (a *string): this load must be on its nil side,
			// and every use of the loaded operation as a result too
			guarded := false
			for _, i2 := range allInstrs(fn) {
				iff, ok := i2.(*ssa.If)
				if !ok {
					continue
				}
				bo, ok := iff.Cond.(*ssa.BinOp)
				if !ok || (bo.Op != token.NEQ && bo.Op != token.EQL) {
					continue
				}
				var tested ssa.Value
				if isNilConst(bo.Y) {
					tested = bo.X
				} else if isNilConst(bo.X) {
					tested = bo.Y
				}
				if tested == nil || shortType(tested.Type()) != "*string" {
					continue
				}
				nilSide := iff.Block().Succs[1]
				if bo.Op == token.EQL {
					nilSide = iff.Block().Succs[0]
				}
				// every use of the positional operation must lie on the nil side
				all := len(nilSide.Preds) == 1
				uses := append([]ssa.Instruction{ld}, *ld.Referrers()...)
				for _, u := range uses {
					if p, isPhi := u.(*ssa.Phi); isPhi {
						// the edge carrying ld must come from a block on the nil side
						for i, e := range p.Edges {
							if e == ssa.Value(ld) {
								pb := p.Block().Preds[i]
								if !(nilSide == pb || nilSide.Dominates(pb)) {
									all = false
								}
							}
						}
						continue
					}
					if !(nilSide == u.Block() || nilSide.Dominates(u.Block())) {
						all = false
					}
				}
				if all {
					guarded = true
				}
			}
			// and the document must be known to define no second operation: the load lies on
			// the side of a test of len(<the indexed list>) on which the length is at most one
			// (`== 1`, `case 1:`, the else of `> 1`, …). `len(...) > 0` proves the index only.
			single := false
			for _, i2 := range allInstrs(fn) {
				iff, ok := i2.(*ssa.If)
				if !ok {
					continue
				}
				if side := atMostOneSide(iff, ia.X); side != nil && len(side.Preds) == 1 && (side == ld.Block() || side.Dominates(ld.Block())) {
					single = true
				}
			}
			r.Check(single, rule, fnName(fn), "positional operation is the only one", r.P.pos(ld.Pos()),
				"the operation is taken by position only where the document is known to hold a single operation",
				"an operation is picked from the document by position on a path where the document may define several operations (no test that len(Operations) is 1 guards it): a request that does not say which of them it means is executed — the first one, possibly a mutation — instead of being rejected as ambiguous")
			r.Check(guarded, rule, fnName(fn), "operation taken by position", r.P.pos(ld.Pos()),
				"the document's only operation is used only where the request names no operation",
				"an operation is picked from the document by position on a path where the request carries an operationName: a request naming an operation the document does not define is then executed instead of being answered with a validation error by the gateway alone")
		}
	}
	r.AtLeast(rule, "positional operation selections", n, 1)
}

// atMostOneSide: iff tests len(list) against a constant; the successor on which the length is
// known to be at most one, or nil.
func atMostOneSide(iff *ssa.If, list ssa.Value) *ssa.BasicBlock {
	bo, ok := iff.Cond.(*ssa.BinOp)
	if !ok {
		return nil
	}
	isLen := func(v ssa.Value) bool {
		c, ok := v.(*ssa.Call)
		if !ok {
			return false
		}
		b, ok := c.Call.Value.(*ssa.Builtin)
		return ok && b.Name() == "len" && len(c.Call.Args) == 1 && sameValue(unwrap(c.Call.Args[0]), unwrap(list))
	}
	constOf := func(v ssa.Value) (int64, bool) {
		k, ok := v.(*ssa.Const)
		if !ok || k.Value == nil || k.Value.Kind() != constant.Int {
			return 0, false
		}
		return k.Int64(), true
	}
	op := bo.Op
	var k int64
	if kk, ok := constOf(bo.Y); ok && isLen(bo.X) {
		k = kk
	} else if kk, ok := constOf(bo.X); ok && isLen(bo.Y) {
		k = kk
		// mirror `k op len` into `len op' k`
		switch op {
		case token.LSS:
			op = token.GTR
		case token.GTR:
			op = token.LSS
		case token.LEQ:
			op = token.GEQ
		case token.GEQ:
			op = token.LEQ
		}
	} else {
		return nil
	}
	t, f := iff.Block().Succs[0], iff.Block().Succs[1]
	switch {
	case op == token.EQL && (k == 1 || k == 0):
		return t
	case op == token.NEQ && (k == 1 || k == 0):
		return f
	case op == token.LEQ && k <= 1, op == token.LSS && k <= 2:
		return t
	case op == token.GTR && k <= 1, op == token.GEQ && k <= 2:
		return f
	}
	return nil
}

func ruleGate(r *Run) {
	handler := r.Anchor("R4b", "pebbles.(*Gateway).Handler")
	if handler == nil {
		return
	}
	req := r.P.CG.Reachable([]*ssa.Function{handler}, nil)
	g := &gateInfo{r: r}
	g.compute(req)

	// D: functions from which a network sink is reachable (calls with these names)
	isSink := func(name string) bool {
		switch name {
		case "(*net/http.Client).Do", "(github.com/gobwas/ws.Dialer).Dial",
			"github.com/buildbuildio/pebbles/queryer.Queryer.Query", "github.com/buildbuildio/pebbles/queryer.Queryer.Subscribe":
			return true
		}
		return false
	}
	// an edge that says nothing about this caller: a call of a parameter ("param"), or a
	// function value handed on to a callee that is itself only a parameter of the caller
	// (`go mapOne(v, mapFunc, …)` inside a higher-order helper) — which function that is depends
	// on the caller's caller, whose own call site carries the context-sensitive edge
	insensitive := func(e *Edge) bool {
		if e.Kind == "param" {
			return true
		}
		if e.Kind != "hoarg" {
			return false
		}
		viaParam := false
		for _, a := range e.Site.Common().Args {
			if _, isSig := a.Type().Underlying().(*types.Signature); !isSig {
				continue
			}
			if _, isParam := a.(*ssa.Parameter); isParam {
				viaParam = true
				continue
			}
			fs, _ := r.P.CG.funcValues(a, map[ssa.Value]bool{})
			for _, f := range fs {
				if origin(f) == e.Callee {
					return false
				}
			}
		}
		return viaParam
	}
	D := map[*ssa.Function]bool{}
	for fn := range req {
		for _, e := range r.P.CG.Ext[fn] {
			if isSink(e.Name) {
				D[fn] = true
			}
		}
	}
	for changed := true; changed; {
		changed = false
		for fn := range req {
			if D[fn] {
				continue
			}
			for _, e := range r.P.CG.Out[fn] {
				if !insensitive(e) && D[e.Callee] {
					D[fn] = true
					changed = true
					break
				}
			}
		}
	}
	nGates := 0
	for fn, v := range g.validated {
		if len(v) > 0 {
			nGates++
			r.OK("R4b", fnName(fn), "gate", r.P.pos(fn.Pos()), fmt.Sprintf("validation gate found: %d block(s) are reachable only after LoadQuery(g.schema, …) succeeded and the operation is non-nil", len(v)))
		}
	}
	r.AtLeast("R4b", "validation gates", nGates, 2)

	// exposed sites: sink-reaching call sites that are not behind the gate of their own
	// function. U = functions that have an exposed site whose callee is a sink or in U.
	type siteRec struct {
		fn     *ssa.Function
		site   ssa.CallInstruction
		what   string
		callee *ssa.Function // nil for direct sink calls
	}
	var sites []siteRec
	var fns []*ssa.Function
	for fn := range req {
		fns = append(fns, fn)
	}
	sort.Slice(fns, func(i, j int) bool { return fnName(fns[i]) < fnName(fns[j]) })
	for _, fn := range fns {
		seen := map[ssa.CallInstruction]bool{}
		for _, e := range r.P.CG.Out[fn] {
			if insensitive(e) || !D[e.Callee] {
				continue
			}
			sites = append(sites, siteRec{fn, e.Site, "reaches-sink via " + fnName(e.Callee), e.Callee})
		}
		for _, e := range r.P.CG.Ext[fn] {
			if isSink(e.Name) && !seen[e.Site] {
				seen[e.Site] = true
				sites = append(sites, siteRec{fn, e.Site, "sink " + e.Name, nil})
			}
		}
	}
	U := map[*ssa.Function]bool{}
	for changed := true; changed; {
		changed = false
		for _, s := range sites {
			if U[s.fn] || g.validated[s.fn][s.site.Block()] {
				continue
			}
			if s.callee == nil || U[s.callee] {
				U[s.fn] = true
				changed = true
			}
		}
	}
	// functions reachable from the handler through exposed sites only
	live := map[*ssa.Function]bool{handler: true}
	for changed := true; changed; {
		changed = false
		for _, s := range sites {
			if live[s.fn] && !g.validated[s.fn][s.site.Block()] && s.callee != nil && !live[s.callee] {
				live[s.callee] = true
				changed = true
			}
		}
	}
	n := 0
	for _, s := range sites {
		n++
		name := fnName(s.fn)
		switch {
		case g.validated[s.fn][s.site.Block()]:
			r.OK("R4b", name, s.what, r.P.pos(s.site.Pos()), "dominated by the validation gate in this function")
		case !live[s.fn]:
			r.OK("R4b", name, s.what, r.P.pos(s.site.Pos()), "function is reachable from the handler only through gated call sites")
		case s.callee != nil && !U[s.callee]:
			r.OK("R4b", name, s.what, r.P.pos(s.site.Pos()), "callee reaches the network only behind its own validation gate")
		default:
			if s.callee != nil {
				continue // reported once, at the sink, with the path
			}
			// shortest exposed path from the handler to this function
			prev := map[*ssa.Function]*ssa.Function{handler: nil}
			queue := []*ssa.Function{handler}
			for len(queue) > 0 && prev[s.fn] == nil && s.fn != handler {
				cur := queue[0]
				queue = queue[1:]
				for _, t := range sites {
					if t.fn == cur && t.callee != nil && !g.validated[t.fn][t.site.Block()] {
						if _, seen := prev[t.callee]; !seen {
							prev[t.callee] = cur
							queue = append(queue, t.callee)
						}
					}
				}
			}
			var chain []string
			for f := s.fn; f != nil; f = prev[f] {
				chain = append([]string{fnName(f)}, chain...)
			}
			r.Bad("R4b", name, s.what, r.P.pos(s.site.Pos()), "a downstream request can be reached from the handler along a path on which no call site lies behind `LoadQuery(g.schema, query)` succeeding and `operation != nil`: an invalid, unknown or ambiguous operation could reach a service. Ungated path: "+strings.Join(chain, " → "))
		}
	}
	r.AtLeast("R4b", "downstream-reaching call sites in REQUEST", n, 10)
}

// onlyMeasuresDuration: every time.Now() in fn is used solely as the start of a duration
// measurement — its only uses are time.Since(t) / t2.Sub(t) / stores into a local that is
// read only by those — and no such duration is compared with anything.
func onlyMeasuresDuration(fn *ssa.Function) bool {
	if fn == nil {
		return false
	}
	isDurationCall := func(c *ssa.CallCommon) bool {
		n := calleeName(c)
		return n == "time.Since" || n == "(time.Time).Sub"
	}
	// durationOK: the measured duration (and everything computed from it: arithmetic,
	// conversions, time.Duration methods, results of calls that received it) only flows into
	// calls — a hook, a logger, a formatter — and never into a comparison, a branch, a return
	// value, a channel or a heap object. A whitelist: any use not listed here fails. (Second table
	// audit: `time.Since(t).Milliseconds() > 20` went through a version that only looked at the
	// direct uses of the duration.)
	var durationOK func(v ssa.Value, depth int) bool
	durationOK = func(v ssa.Value, depth int) bool {
		if depth > 8 {
			return false
		}
		if v.Referrers() == nil {
			return true
		}
		argsOK := func(c *ssa.CallCommon, res ssa.Value) bool {
			if sc := c.StaticCallee(); sc != nil && inModule(sc) && sc.Blocks != nil {
				for i, a := range c.Args {
					if a == v && (i >= len(sc.Params) || !durationOK(sc.Params[i], depth+1)) {
						return false
					}
				}
			}
			return res == nil || durationOK(res, depth+1)
		}
		for _, ref := range *v.Referrers() {
			switch x := ref.(type) {
			case *ssa.DebugRef:
			case *ssa.BinOp:
				switch x.Op {
				case token.LSS, token.LEQ, token.GTR, token.GEQ, token.EQL, token.NEQ:
					return false
				}
				if !durationOK(x, depth+1) {
					return false
				}
			case *ssa.Convert:
				if !durationOK(x, depth+1) {
					return false
				}
			case *ssa.ChangeType:
				if !durationOK(x, depth+1) {
					return false
				}
			case *ssa.MakeInterface:
				if !durationOK(x, depth+1) {
					return false
				}
			case *ssa.Phi:
				if !durationOK(x, depth+1) {
					return false
				}
			case *ssa.Extract:
				if !durationOK(x, depth+1) {
					return false
				}
			case *ssa.Slice:
				if !durationOK(x, depth+1) {
					return false
				}
			case *ssa.Call:
				if x.Call.Value == v {
					return false // the value itself is called
				}
				if !argsOK(&x.Call, x) {
					return false
				}
			case *ssa.Defer:
				if !argsOK(&x.Call, nil) {
					return false
				}
			case *ssa.Go:
				if !argsOK(&x.Call, nil) {
					return false
				}
			case *ssa.Store:
				// a spill into a local cell, or into the argument array of a variadic call
				if x.Val != v {
					return false
				}
				var cell *ssa.Alloc
				field := -1
				switch a := x.Addr.(type) {
				case *ssa.Alloc:
					cell = a
				case *ssa.IndexAddr:
					cell, _ = a.X.(*ssa.Alloc)
				case *ssa.FieldAddr:
					// a field of a local record (the argument of a hook)
					cell, _ = a.X.(*ssa.Alloc)
					field = a.Field
				}
				if cell == nil {
					return false
				}
				for _, r2 := range *cell.Referrers() {
					switch y := r2.(type) {
					case *ssa.Store, *ssa.DebugRef, *ssa.IndexAddr:
					case *ssa.FieldAddr:
						if y.Field != field {
							continue
						}
						for _, r3 := range *y.Referrers() {
							switch z := r3.(type) {
							case *ssa.Store, *ssa.DebugRef:
							case *ssa.UnOp:
								if !durationOK(z, depth+1) {
									return false
								}
							default:
								return false
							}
						}
					case *ssa.UnOp:
						if !durationOK(y, depth+1) {
							return false
						}
					case *ssa.Slice:
						if !durationOK(y, depth+1) {
							return false
						}
					case *ssa.MakeClosure:
						// captured by a (deferred) closure: the loads inside it
						if fnc, ok := y.Fn.(*ssa.Function); ok {
							for k, b := range y.Bindings {
								if b == ssa.Value(cell) && k < len(fnc.FreeVars) {
									for _, r3 := range *fnc.FreeVars[k].Referrers() {
										if ld, ok := r3.(*ssa.UnOp); ok {
											if !durationOK(ld, depth+1) {
												return false
											}
										} else if _, ok := r3.(*ssa.DebugRef); !ok {
											return false
										}
									}
								}
							}
						}
					default:
						return false
					}
				}
			default:
				// If, Return, Send, MapUpdate, a store into a heap object, ...
				return false
			}
		}
		return true
	}
	var timeOK func(v ssa.Value, depth int) bool
	timeOK = func(v ssa.Value, depth int) bool {
		if v.Referrers() == nil || depth > 4 {
			return false
		}
		for _, ref := range *v.Referrers() {
			switch x := ref.(type) {
			case *ssa.Call:
				if isDurationCall(&x.Call) {
					if !durationOK(x, 0) {
						return false
					}
					continue
				}
				// handed to a module function: the parameter must be used the same way
				sc := x.Call.StaticCallee()
				if sc == nil || !inModule(sc) || sc.Blocks == nil {
					return false
				}
				for i, a := range x.Call.Args {
					if a == v && (i >= len(sc.Params) || !timeOK(sc.Params[i], depth+1)) {
						return false
					}
				}
			case *ssa.Store:
				// spilled into a local (captured by a deferred closure, or addressable)
				al, ok := x.Addr.(*ssa.Alloc)
				if !ok || x.Val != v {
					return false
				}
				for _, r2 := range *al.Referrers() {
					switch y := r2.(type) {
					case *ssa.Store:
					case *ssa.UnOp:
						if !timeOK(y, depth+1) {
							return false
						}
					case *ssa.DebugRef:
					case *ssa.MakeClosure:
						// captured by a (deferred) literal: what the literal does with it
						fnc, ok := y.Fn.(*ssa.Function)
						if !ok {
							return false
						}
						for k, b := range y.Bindings {
							if b != ssa.Value(al) || k >= len(fnc.FreeVars) {
								continue
							}
							for _, r3 := range *fnc.FreeVars[k].Referrers() {
								switch z := r3.(type) {
								case *ssa.UnOp:
									if !timeOK(z, depth+1) {
										return false
									}
								case *ssa.DebugRef:
								default:
									return false // the literal writes the start time or hands its cell on
								}
							}
						}
					default:
						return false
					}
				}
			case *ssa.Defer, *ssa.Go:
				// `defer logDuration(url, time.Now())`: handed to a module function that uses it the same way
				c := x.(ssa.CallInstruction).Common()
				sc := c.StaticCallee()
				if sc == nil || !inModule(sc) || sc.Blocks == nil {
					return false
				}
				for i, a := range c.Args {
					if a == v && (i >= len(sc.Params) || !timeOK(sc.Params[i], depth+1)) {
						return false
					}
				}
			case *ssa.DebugRef:
			default:
				return false
			}
		}
		return true
	}
	n := 0
	for _, ins := range allInstrs(fn) {
		c, ok := ins.(*ssa.Call)
		if !ok {
			continue
		}
		switch calleeName(&c.Call) {
		case "time.Now":
			n++
			if !timeOK(c, 0) {
				return false
			}
		case "time.Since", "time.Until":
			// a duration measured from a start handed in from elsewhere
			n++
			if !durationOK(c, 0) {
				return false
			}
		default:
			if familyOf(calleeName(&c.Call)) == "time.Now" {
				return false // a random source
			}
		}
	}
	return n > 0
}

// ruleRoutingTableWrites (R4a.route): the routing table (merger.TypeURLMap and the TypeProps it
// points to) is written by its own setter methods only — the ones whoMayCall confines to the
// merge. TypeURLMap is a plain map type, so a direct store needs none of those methods (second
// table audit: a `tp.Fields[field] = url` on the request path raced and changed routing).
func ruleRoutingTableWrites(r *Run) {
	const rule = "R4a.route"
	setters := map[string]bool{}
	for k := range whoMayCall {
		if strings.HasPrefix(k, "merger.(TypeURLMap).Set") {
			setters[k] = true
		}
	}
	isProps := func(t types.Type) bool { return strings.HasSuffix(namedOf(t), "merger.TypeProps") }
	isTable := func(t types.Type) bool { return strings.HasSuffix(namedOf(t), "merger.TypeURLMap") }
	fromProps := func(v ssa.Value) bool {
		ld, ok := unwrap(v).(*ssa.UnOp)
		if !ok || ld.Op != token.MUL {
			return false
		}
		fa, ok := ld.X.(*ssa.FieldAddr)
		return ok && isProps(fa.X.Type())
	}
	n := 0
	for _, fn := range r.P.Funcs {
		for _, ins := range allInstrs(fn) {
			what := ""
			switch x := ins.(type) {
			case *ssa.MapUpdate:
				if isTable(x.Map.Type()) {
					what = "entry of the routing table"
				} else if fromProps(x.Map) {
					what = "route of a field"
				}
			case *ssa.Store:
				if fa, ok := x.Addr.(*ssa.FieldAddr); ok && isProps(fa.X.Type()) {
					if al, fresh := fa.X.(*ssa.Alloc); fresh && al.Parent() == fn {
						continue
					}
					what = "TypeProps." + fieldOf(fa).Name()
				}
			case ssa.CallInstruction:
				if b, ok := x.Common().Value.(*ssa.Builtin); ok && b.Name() == "delete" && len(x.Common().Args) > 0 {
					if isTable(x.Common().Args[0].Type()) || fromProps(x.Common().Args[0]) {
						what = "deletion from the routing table"
					}
				}
			}
			if what == "" {
				continue
			}
			n++
			// a setter, or a helper that only setters call (a shared "entry for this type" helper)
			var within func(f *ssa.Function, depth int) bool
			within = func(f *ssa.Function, depth int) bool {
				if setters[fnName(f)] {
					return true
				}
				if depth > 3 || len(r.P.CG.In[f]) == 0 {
					return false
				}
				for _, e := range r.P.CG.In[f] {
					if e.Kind != "static" || !within(topFn(e.Caller), depth+1) {
						return false
					}
				}
				return true
			}
			r.Check(within(topFn(fn), 0), rule, fnName(fn), "write "+what, r.P.pos(ins.Pos()),
				"inside a setter method of the routing table (callers confined to the merge by R4a)",
				"the routing table is written outside its setter methods: it is shared by all requests and read without a lock, so a write on the request path races with concurrent readers and changes where later requests are sent")
		}
	}
	// and its inner objects do not leave the setters: a function that hands out the Fields map
	// of an entry, or the entry itself, lets its caller write the table without a setter (third
	// audit: `pc.TypeURLMap.Routes(typename)[fieldname] = url` on the request path)
	for _, fn := range r.P.Funcs {
		for _, ret := range returnsOf(fn) {
			for _, res := range ret.Results {
				v := unwrap(res)
				leaks := ""
				if fromProps(v) {
					if _, isMap := v.Type().Underlying().(*types.Map); isMap {
						leaks = "the Fields map of an entry"
					}
				}
				if lk, ok := v.(*ssa.Lookup); ok && isTable(lk.X.Type()) {
					leaks = "an entry (*TypeProps)"
				}
				if ex, ok := v.(*ssa.Extract); ok {
					if lk, ok := ex.Tuple.(*ssa.Lookup); ok && ex.Index == 0 && isTable(lk.X.Type()) {
						leaks = "an entry (*TypeProps)"
					}
				}
				if leaks == "" {
					continue
				}
				n++
				var within func(f *ssa.Function, depth int) bool
				within = func(f *ssa.Function, depth int) bool {
					if setters[fnName(f)] {
						return true
					}
					if depth > 3 || len(r.P.CG.In[f]) == 0 {
						return false
					}
					for _, e := range r.P.CG.In[f] {
						if e.Kind != "static" || !within(topFn(e.Caller), depth+1) {
							return false
						}
					}
					return true
				}
				r.Check(within(topFn(fn), 0), rule, fnName(fn), "hands out "+leaks, r.P.pos(ret.Pos()),
					"only to the setter methods of the routing table",
					"a function hands out "+leaks+" of the routing table: whoever receives it can write the table without going through a setter — on the request path that races with concurrent readers and changes where later requests are sent")
			}
		}
	}
	r.AtLeast(rule, "writes to the routing table", n, 3)
}

// rulePlanHandedToResolver (R4a.plan): the who-may-call entry for ResolveIntrospectionFields
// pins WHO calls the resolver; this rule pins WHAT the caller hands it. The selection set is
// followed backwards — through field and element reads, through parameters to every call site,
// through local variables and captured variables to every assignment, through module functions
// to every return — until it reaches the values it is read from: each of them must be the plan
// the planner returned (result of Planner.Plan, by interface or on an implementation). A plan
// or a step built by hand carries a selection set nobody has sanitised.
// selectsElements: library functions whose result consists of elements of their first argument,
// unchanged (they choose, they do not build).
var selectsElements = map[string]bool{
	"lo.Filter": true, "lo.Reject": true, "lo.Find": true, "lo.FindOrElse": true, "lo.First": true, "lo.Last": true,
	"lo.Uniq": true, "lo.UniqBy": true, "lo.Reverse": true, "lo.Drop": true, "lo.DropRight": true, "lo.Slice": true,
	"lo.Subset": true, "lo.Compact": true, "slices.Clone": true, "slices.Compact": true,
}

func rulePlanHandedToResolver(r *Run) {
	const rule = "R4a.plan"
	var planner *types.Interface
	for _, p := range r.P.Pkgs {
		if p.PkgPath == plannerPkg && p.Types != nil {
			if obj := p.Types.Scope().Lookup("Planner"); obj != nil {
				planner, _ = obj.Type().Underlying().(*types.Interface)
			}
		}
	}
	if planner == nil {
		r.Bad(rule, plannerPkg+".Planner", "anchor", "-", "the interface planner.Planner is not found: the rule cannot be evaluated")
		return
	}
	isPlanCall := func(c *ssa.CallCommon) bool {
		if c.IsInvoke() {
			return c.Method.Name() == "Plan" && types.Identical(c.Value.Type().Underlying(), planner)
		}
		sc := c.StaticCallee()
		return sc != nil && sc.Name() == "Plan" && sc.Signature.Recv() != nil && types.Implements(sc.Signature.Recv().Type(), planner)
	}
	type root struct {
		what string
		pos  token.Pos
		ok   bool
	}
	n := 0
	for _, fn := range r.P.Funcs {
		if fn.Pkg != nil && fn.Pkg.Pkg.Path() == introPkg {
			continue
		}
		for _, ins := range allInstrs(fn) {
			ci, ok := ins.(ssa.CallInstruction)
			if !ok {
				continue
			}
			sc := ci.Common().StaticCallee()
			if sc == nil || fnName(sc) != "introspection.(*IntrospectionResolver).ResolveIntrospectionFields" || len(ci.Common().Args) < 2 {
				continue
			}
			n++
			var roots []root
			seen := map[ssa.Value]bool{}
			var trace func(v ssa.Value, res int, depth int)
			bad := func(what string, pos token.Pos) { roots = append(roots, root{what, pos, false}) }
			trace = func(v ssa.Value, res int, depth int) {
				v = unwrap(v)
				if seen[v] {
					return
				}
				seen[v] = true
				if depth > 40 {
					bad("a value too far from the call to be followed", v.Pos())
					return
				}
				switch x := v.(type) {
				case *ssa.UnOp:
					if x.Op != token.MUL {
						bad("the result of an operation", x.Pos())
						return
					}
					switch a := x.X.(type) {
					case *ssa.FieldAddr:
						trace(a.X, 0, depth+1)
					case *ssa.IndexAddr:
						trace(a.X, 0, depth+1)
					case *ssa.Alloc:
						// a local variable: every value assigned to it
						sts := storesTo(a)
						if len(sts) == 0 {
							bad("a variable that is never assigned", a.Pos())
						}
						for _, st := range sts {
							trace(st.Val, 0, depth+1)
						}
					case *ssa.FreeVar:
						// a captured variable: every value assigned to the variable it captures
						cl := x.Parent()
						found := false
						if cl.Parent() != nil {
							for _, pi := range allInstrs(cl.Parent()) {
								mc, ok := pi.(*ssa.MakeClosure)
								if !ok || mc.Fn != cl {
									continue
								}
								for i, fv := range cl.FreeVars {
									if fv == a && i < len(mc.Bindings) {
										found = true
										if al, ok := mc.Bindings[i].(*ssa.Alloc); ok {
											for _, st := range storesTo(al) {
												trace(st.Val, 0, depth+1)
											}
										} else {
											bad("a captured variable of unknown origin", a.Pos())
										}
									}
								}
							}
						}
						if !found {
							bad("a captured variable of unknown origin", a.Pos())
						}
					default:
						bad("a value read from memory of unknown origin", x.Pos())
					}
				case *ssa.Field:
					trace(x.X, 0, depth+1)
				case *ssa.Index:
					trace(x.X, 0, depth+1)
				case *ssa.Slice:
					trace(x.X, 0, depth+1)
				case *ssa.Phi:
					for _, e := range x.Edges {
						trace(e, res, depth+1)
					}
				case *ssa.Extract:
					trace(x.Tuple, x.Index, depth+1)
				case *ssa.FreeVar:
					bad("the address of a captured variable", x.Pos())
				case *ssa.Parameter:
					pf := x.Parent()
					idx := -1
					for i, p := range pf.Params {
						if p == x {
							idx = i
						}
					}
					k := 0
					for _, e := range r.P.CG.In[pf] {
						args := e.Site.Common().Args
						if e.Kind != "static" || idx < 0 || idx >= len(args) {
							k = -1 << 20
							continue
						}
						k++
						trace(args[idx], 0, depth+1)
					}
					if k <= 0 || isExported(pf) && pf.Parent() == nil {
						bad("the parameter "+x.Name()+" of "+fnName(pf)+", whose callers are not all known", x.Pos())
					}
				case *ssa.Call:
					if isPlanCall(&x.Call) {
						if res == 0 {
							roots = append(roots, root{"the plan returned by the planner", x.Pos(), true})
						} else {
							bad("a result of the planner other than the plan", x.Pos())
						}
						return
					}
					if sc := x.Call.StaticCallee(); sc != nil && sc.Blocks != nil && inModule(sc) {
						rets := returnsOf(sc)
						if len(rets) == 0 {
							bad("the result of "+fnName(sc)+", which never returns", x.Pos())
						}
						for _, ret := range rets {
							if res < len(ret.Results) {
								trace(ret.Results[res], 0, depth+1)
							}
						}
						return
					}
					// a library selector hands back elements of the list it is given (`lo.Filter(
					// plan.RootSteps, …)`, `lo.Find`, `lo.Reject`, a re-slice helper): what it returns
					// comes from where its list comes from
					if cn := strings.SplitN(calleeName(&x.Call), "[", 2)[0]; selectsElements[cn[strings.LastIndex(cn, "/")+1:]] && len(x.Call.Args) > 0 {
						trace(x.Call.Args[0], 0, depth+1)
						return
					}
					bad("the result of "+calleeName(&x.Call), x.Pos())
				case *ssa.Alloc:
					bad("a "+shortType(derefType(x.Type()))+" built in "+fnName(x.Parent()), x.Pos())
				case *ssa.Const:
					// the nil list / nil plan selects nothing
					if !x.IsNil() {
						bad("a constant", x.Pos())
					}
				default:
					bad("a "+shortType(v.Type())+" made in "+fnName(fn)+" by something other than the planner", v.Pos())
				}
			}
			trace(ci.Common().Args[1], 0, 0)
			var wrong []string
			good := 0
			for _, rt := range roots {
				if rt.ok {
					good++
				} else {
					wrong = append(wrong, rt.what+" ("+r.P.pos(rt.pos)+")")
				}
			}
			sort.Strings(wrong)
			switch {
			case len(wrong) > 0:
				r.Bad(rule, fnName(fn), "selection set handed to ResolveIntrospectionFields", r.P.pos(ins.Pos()),
					"the selection set the resolver is given is read from "+strings.Join(wrong, "; ")+": not from the plan the planner returned, so nothing has expanded its fragments or dropped what the planner drops (C16)")
			case good == 0:
				r.Bad(rule, fnName(fn), "selection set handed to ResolveIntrospectionFields", r.P.pos(ins.Pos()),
					"the selection set the resolver is given cannot be followed back to a call of Planner.Plan")
			default:
				r.OK(rule, fnName(fn), "selection set handed to ResolveIntrospectionFields", r.P.pos(ins.Pos()),
					fmt.Sprintf("every value the selection set is read from is the plan returned by Planner.Plan (%d call(s)), followed through fields, elements, parameters and variables", good))
			}
		}
	}
	r.AtLeast(rule, "calls of ResolveIntrospectionFields outside its package", n, 1)
}
