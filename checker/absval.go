package main

// A small path-wise abstract evaluator for the introspection rules (rule_spec.go).
//
// The rules about the introspection resolver and the reader of a service's answer are about
// *what is answered / consumed under which kind*. Counting case labels and recognising one
// spelling of a kind test makes them blind (a value that is null where a list is required) and
// over-strict (a predicate, a helper or a hoisted condition instead of the inline test). The
// evaluator runs a function path by path under assumptions — the kind of the subject type, the
// name of the selected field, an argument that is absent — and evaluates conditions, helper
// predicates, tables and helper results under them.

import (
	"fmt"
	"go/ast"
	"go/constant"
	"go/token"
	"go/types"
	"sort"
	"strings"

	"golang.org/x/tools/go/packages"
	"golang.org/x/tools/go/ssa"
)

type avKind int

const (
	avUnknown avKind = iota
	avNil            // nil pointer/slice/map/interface — JSON null when answered
	avNonNil         // a value that is certainly not null
	avConst          // a known string or bool
	avSubject        // (a pointer to) the type definition whose kind is assumed
)

type aval struct {
	k avKind
	c constant.Value
}

func (a aval) String() string {
	switch a.k {
	case avNil:
		return "nil"
	case avNonNil:
		return "nonnil"
	case avConst:
		return "const:" + a.c.ExactString()
	case avSubject:
		return "subject"
	}
	return "?"
}

// definitely null / definitely not null when put into the answer
func (a aval) isNull() bool    { return a.k == avNil }
func (a aval) isNotNull() bool { return a.k == avNonNil || a.k == avConst || a.k == avSubject }

type absCtx struct {
	P         *Prog
	kind      string                 // kind assumed for the subject ("" = none)
	isSubject func(v ssa.Value) bool // which values of the root function are the subject
	selName   string                 // name assumed for the selected field (ast.Field.Name)
	argAbsent string                 // Arguments.ForName(<this>) answers nil
	opaque    map[*ssa.Function]bool // functions not evaluated (the resolvers themselves)
	budget    int                    // block visits left
	overflow  bool
	memo      map[string][]aval
}

type frame struct {
	c      *absCtx
	fn     *ssa.Function
	root   bool
	params map[*ssa.Parameter]aval
	depth  int
}

type pathState struct {
	env    map[ssa.Value]aval
	tup    map[ssa.Value][]aval
	visits map[*ssa.BasicBlock]int
	user   interface{} // copied by the client's fork function
}

func (st *pathState) fork(forkUser func(interface{}) interface{}) *pathState {
	n := &pathState{env: make(map[ssa.Value]aval, len(st.env)), tup: make(map[ssa.Value][]aval, len(st.tup)), visits: make(map[*ssa.BasicBlock]int, len(st.visits))}
	for k, v := range st.env {
		n.env[k] = v
	}
	for k, v := range st.tup {
		n.tup[k] = v
	}
	for k, v := range st.visits {
		n.visits[k] = v
	}
	if forkUser != nil {
		n.user = forkUser(st.user)
	}
	return n
}

func isNillable(t types.Type) bool {
	switch t.Underlying().(type) {
	case *types.Pointer, *types.Slice, *types.Map, *types.Interface, *types.Signature, *types.Chan:
		return true
	}
	return false
}

func isGqlField(t types.Type) bool {
	return strings.HasSuffix(namedOf(t), "gqlparser/v2/ast.Field")
}

func (fr *frame) eval(v ssa.Value, st *pathState) aval {
	if v == nil {
		return aval{}
	}
	if a, ok := st.env[v]; ok {
		return a
	}
	if fr.root && fr.c.isSubject != nil && fr.c.isSubject(v) {
		return aval{k: avSubject}
	}
	switch x := v.(type) {
	case *ssa.Const:
		if x.Value == nil {
			if isNillable(x.Type()) {
				return aval{k: avNil}
			}
			return aval{}
		}
		if x.Value.Kind() == constant.String || x.Value.Kind() == constant.Bool {
			return aval{k: avConst, c: x.Value}
		}
		return aval{k: avNonNil}
	case *ssa.Parameter:
		if a, ok := fr.params[x]; ok {
			return a
		}
	case *ssa.UnOp:
		switch x.Op {
		case token.NOT:
			a := fr.eval(x.X, st)
			if a.k == avConst && a.c.Kind() == constant.Bool {
				return aval{k: avConst, c: constant.MakeBool(!constant.BoolVal(a.c))}
			}
		case token.MUL:
			if fa, ok := x.X.(*ssa.FieldAddr); ok {
				return fr.evalFieldLoad(fieldOf(fa), fa.X, st)
			}
		}
	case *ssa.Field:
		return fr.evalFieldLoad(fieldOfVal(x), x.X, st)
	case *ssa.BinOp:
		if x.Op == token.EQL || x.Op == token.NEQ {
			a, b := fr.eval(x.X, st), fr.eval(x.Y, st)
			res, known := false, false
			switch {
			case a.k == avConst && b.k == avConst:
				res, known = constant.Compare(a.c, token.EQL, b.c), true
			case a.k == avNil && b.k == avNil:
				res, known = true, true
			case a.k == avNil && b.isNotNull(), b.k == avNil && a.isNotNull():
				res, known = false, true
			}
			if known {
				if x.Op == token.NEQ {
					res = !res
				}
				return aval{k: avConst, c: constant.MakeBool(res)}
			}
		}
	case *ssa.MakeInterface:
		a := fr.eval(x.X, st)
		if a.k != avUnknown {
			return a
		}
		switch x.X.Type().Underlying().(type) {
		case *types.Basic, *types.Struct, *types.Array:
			return aval{k: avNonNil}
		}
	case *ssa.ChangeType:
		return fr.eval(x.X, st)
	case *ssa.ChangeInterface:
		return fr.eval(x.X, st)
	case *ssa.Convert:
		return fr.eval(x.X, st)
	case *ssa.Alloc, *ssa.MakeMap, *ssa.MakeSlice, *ssa.MakeClosure, *ssa.FieldAddr, *ssa.IndexAddr, *ssa.MakeChan, *ssa.Function, *ssa.Global:
		return aval{k: avNonNil}
	case *ssa.Slice:
		if _, isPtr := x.X.Type().Underlying().(*types.Pointer); isPtr {
			return aval{k: avNonNil} // a slice of an array: the literal []T{…}
		}
		return fr.eval(x.X, st)
	case *ssa.Lookup:
		if !x.CommaOk {
			if set, ok := fr.c.globalBoolTable(x.X); ok {
				if k := fr.eval(x.Index, st); k.k == avConst && k.c.Kind() == constant.String {
					return aval{k: avConst, c: constant.MakeBool(set[constant.StringVal(k.c)])}
				}
			}
		}
	case *ssa.Extract:
		if t, ok := st.tup[x.Tuple]; ok && x.Index < len(t) {
			return t[x.Index]
		}
	}
	return aval{}
}

func (fr *frame) evalFieldLoad(f *types.Var, base ssa.Value, st *pathState) aval {
	if f == nil {
		return aval{}
	}
	switch f.Name() {
	case "Kind":
		if fr.c.kind != "" && fr.eval(base, st).k == avSubject {
			return aval{k: avConst, c: constant.MakeString(fr.c.kind)}
		}
	case "Name":
		if fr.c.selName != "" && isGqlField(base.Type()) {
			return aval{k: avConst, c: constant.MakeString(fr.c.selName)}
		}
	}
	return aval{}
}

// globalBoolTable: the keys with value true of a package-level map[string]bool (or the keys of
// a map[string]struct{}) initialised by a literal and never written elsewhere.
func (c *absCtx) globalBoolTable(v ssa.Value) (map[string]bool, bool) {
	ld, ok := v.(*ssa.UnOp)
	if !ok || ld.Op != token.MUL {
		return nil, false
	}
	g, ok := ld.X.(*ssa.Global)
	if !ok || g.Pkg == nil {
		return nil, false
	}
	mt, ok := g.Type().(*types.Pointer).Elem().Underlying().(*types.Map)
	if !ok {
		return nil, false
	}
	if b, ok := mt.Key().Underlying().(*types.Basic); !ok || b.Info()&types.IsString == 0 {
		return nil, false
	}
	init := g.Pkg.Func("init")
	if init == nil {
		return nil, false
	}
	var mk ssa.Value
	for _, ins := range allInstrs(init) {
		if s, ok := ins.(*ssa.Store); ok && s.Addr == ssa.Value(g) {
			if mk != nil {
				return nil, false
			}
			mk = s.Val
		}
	}
	if _, ok := mk.(*ssa.MakeMap); !ok {
		return nil, false
	}
	set := map[string]bool{}
	for _, ref := range *mk.Referrers() {
		switch x := ref.(type) {
		case *ssa.MapUpdate:
			k, ok := unwrap(x.Key).(*ssa.Const)
			if !ok || k.Value == nil || k.Value.Kind() != constant.String {
				return nil, false
			}
			val := true
			if vc, ok := x.Value.(*ssa.Const); ok && vc.Value != nil && vc.Value.Kind() == constant.Bool {
				val = constant.BoolVal(vc.Value)
			}
			set[constant.StringVal(k.Value)] = val
		case *ssa.Store:
		default:
			return nil, false
		}
	}
	// written anywhere else in the module: not a table
	for _, fn := range c.P.Funcs {
		if fn == init {
			continue
		}
		for _, ins := range allInstrs(fn) {
			switch x := ins.(type) {
			case *ssa.Store:
				if x.Addr == ssa.Value(g) {
					return nil, false
				}
			case *ssa.MapUpdate:
				if l, ok := x.Map.(*ssa.UnOp); ok && l.X == ssa.Value(g) {
					return nil, false
				}
			}
		}
	}
	return set, true
}

// walker enumerates the paths of a function.
type walker struct {
	fr       *frame
	forkUser func(interface{}) interface{}
	// enter is called before a block is executed; stop ends the path there
	enter func(b, pred *ssa.BasicBlock, st *pathState) (stop bool)
	// force picks the successor of a block regardless of its condition (-1: evaluate)
	force func(b *ssa.BasicBlock, st *pathState) int
	instr func(ins ssa.Instruction, st *pathState)
	ret   func(r *ssa.Return, st *pathState)
	// allowed prunes successors
	allowed func(b *ssa.BasicBlock, st *pathState) bool
}

func (w *walker) run(b, pred *ssa.BasicBlock, st *pathState) {
	c := w.fr.c
	for {
		if c.overflow {
			return
		}
		c.budget--
		if c.budget < 0 {
			c.overflow = true
			return
		}
		if st.visits[b] >= 2 {
			return // the path went round a loop once already
		}
		st.visits[b]++
		if w.enter != nil && w.enter(b, pred, st) {
			return
		}
		// phis are evaluated together, from the edge that was taken
		if pred != nil {
			idx := -1
			for i, p := range b.Preds {
				if p == pred {
					idx = i
					break
				}
			}
			var vals []aval
			var phis []*ssa.Phi
			for _, ins := range b.Instrs {
				phi, ok := ins.(*ssa.Phi)
				if !ok {
					break
				}
				phis = append(phis, phi)
				if idx >= 0 {
					vals = append(vals, w.fr.eval(phi.Edges[idx], st))
				} else {
					vals = append(vals, aval{})
				}
			}
			for i, phi := range phis {
				st.env[phi] = vals[i]
			}
		}
		for _, ins := range b.Instrs {
			switch x := ins.(type) {
			case *ssa.Phi:
				continue
			case *ssa.Call:
				res := w.fr.execCall(x, st)
				if len(res) == 1 {
					st.env[x] = res[0]
				} else if len(res) > 1 {
					st.tup[x] = res
				}
			case *ssa.Return:
				if w.ret != nil {
					w.ret(x, st)
				}
				return
			case *ssa.Panic:
				return
			}
			if w.instr != nil {
				w.instr(ins, st)
			}
		}
		var next []*ssa.BasicBlock
		switch last := b.Instrs[len(b.Instrs)-1].(type) {
		case *ssa.If:
			pick := -1
			if w.force != nil {
				pick = w.force(b, st)
			}
			if pick < 0 {
				if a := w.fr.eval(last.Cond, st); a.k == avConst && a.c.Kind() == constant.Bool {
					if constant.BoolVal(a.c) {
						pick = 0
					} else {
						pick = 1
					}
				}
			}
			if pick >= 0 {
				next = []*ssa.BasicBlock{b.Succs[pick]}
			} else {
				next = b.Succs
			}
		default:
			next = b.Succs
		}
		var ok []*ssa.BasicBlock
		for _, s := range next {
			if w.allowed == nil || w.allowed(s, st) {
				ok = append(ok, s)
			}
		}
		if len(ok) == 0 {
			return
		}
		for _, s := range ok[1:] {
			w.run(s, b, st.fork(w.forkUser))
		}
		pred, b = b, ok[0]
	}
}

// execCall evaluates the results of a call on the current path.
func (fr *frame) execCall(call *ssa.Call, st *pathState) []aval {
	c := fr.c
	com := call.Common()
	nres := 1
	if t, ok := call.Type().(*types.Tuple); ok {
		nres = t.Len()
	}
	unknown := make([]aval, nres)
	if b, ok := com.Value.(*ssa.Builtin); ok {
		if b.Name() == "append" && len(com.Args) == 2 {
			if fr.eval(com.Args[0], st).isNotNull() {
				return []aval{{k: avNonNil}}
			}
			if sl, ok := com.Args[1].(*ssa.Slice); ok {
				if _, isPtr := sl.X.Type().Underlying().(*types.Pointer); isPtr {
					return []aval{{k: avNonNil}} // at least one element is appended
				}
			}
		}
		return unknown
	}
	name := calleeName(com)
	if c.argAbsent != "" && strings.HasSuffix(name, "ast.ArgumentList).ForName") && len(com.Args) == 2 {
		// (the name may be a constant handed down to a helper: `ir.boolArgument(f, "includeDeprecated")`)
		if k := fr.eval(com.Args[1], st); k.k == avConst && k.c.Kind() == constant.String && constant.StringVal(k.c) == c.argAbsent {
			return []aval{{k: avNil}}
		}
	}
	callee := com.StaticCallee()
	if callee == nil || com.IsInvoke() {
		return unknown
	}
	if callee.Blocks == nil {
		// a predicate of gqlparser over the kind of its receiver (IsAbstractType, IsLeafType, …)
		if c.kind != "" && len(com.Args) >= 1 && fr.eval(com.Args[0], st).k == avSubject && nres == 1 {
			if v, ok := c.P.kindPredicate(callee, c.kind); ok {
				return []aval{{k: avConst, c: constant.MakeBool(v)}}
			}
		}
		return unknown
	}
	if g := c.P.declared(callee); g != nil {
		callee = g
	}
	if c.opaque[callee] || fr.depth >= 4 || len(callee.Blocks) > 60 || !inModule(callee) {
		return unknown
	}
	params := map[*ssa.Parameter]aval{}
	key := fnName(callee) + "|" + c.kind + "|" + c.selName + "|" + c.argAbsent
	interesting := false
	for i, p := range callee.Params {
		if i < len(com.Args) {
			a := fr.eval(com.Args[i], st)
			params[p] = a
			key += "|" + a.String()
			if a.k != avUnknown {
				interesting = true
			}
		}
	}
	if !interesting && nres > 1 {
		return unknown
	}
	if res, ok := c.memo[key]; ok {
		return res
	}
	c.memo[key] = unknown // recursion
	res := c.runFunc(callee, params, fr.depth+1)
	if len(res) != nres {
		res = unknown
	}
	c.memo[key] = res
	return res
}

// runFunc evaluates a function on all its paths and joins what it returns.
func (c *absCtx) runFunc(fn *ssa.Function, params map[*ssa.Parameter]aval, depth int) []aval {
	fr := &frame{c: c, fn: fn, params: params, depth: depth}
	var out []aval
	first := true
	w := &walker{fr: fr}
	w.ret = func(r *ssa.Return, st *pathState) {
		vals := make([]aval, len(r.Results))
		for i, v := range r.Results {
			vals[i] = fr.eval(v, st)
		}
		if first {
			out, first = vals, false
			return
		}
		for i := range out {
			if i >= len(vals) || out[i].k != vals[i].k || (out[i].k == avConst && !constant.Compare(out[i].c, token.EQL, vals[i].c)) {
				// null on one path and not null on another is still "not always the same"
				if i < len(vals) && out[i].isNotNull() && vals[i].isNotNull() {
					out[i] = aval{k: avNonNil}
				} else {
					out[i] = aval{}
				}
			}
		}
	}
	if len(fn.Blocks) == 0 {
		return nil
	}
	w.run(fn.Blocks[0], nil, &pathState{env: map[ssa.Value]aval{}, tup: map[ssa.Value][]aval{}, visits: map[*ssa.BasicBlock]int{}})
	return out
}

// ---- predicates of dependencies (no SSA bodies are built for them) -------------------------

var depPkgCache map[string]*packages.Package

func (P *Prog) depPackage(path string) *packages.Package {
	if depPkgCache == nil {
		depPkgCache = map[string]*packages.Package{}
		packages.Visit(P.Pkgs, nil, func(p *packages.Package) { depPkgCache[p.PkgPath] = p })
	}
	return depPkgCache[path]
}

// kindPredicate evaluates a method of a dependency whose body is `return <boolean expression
// over recv.Kind ==/!= Constant>` for the given kind.
func (P *Prog) kindPredicate(fn *ssa.Function, kind string) (bool, bool) {
	obj, ok := fn.Object().(*types.Func)
	if !ok || obj.Pkg() == nil {
		return false, false
	}
	p := P.depPackage(obj.Pkg().Path())
	if p == nil || p.TypesInfo == nil {
		return false, false
	}
	var decl *ast.FuncDecl
	for _, f := range p.Syntax {
		if f.Pos() <= obj.Pos() && obj.Pos() <= f.End() {
			for _, d := range f.Decls {
				if fd, ok := d.(*ast.FuncDecl); ok && fd.Name.Pos() == obj.Pos() {
					decl = fd
				}
			}
		}
	}
	if decl == nil || decl.Body == nil || decl.Recv == nil || len(decl.Recv.List) != 1 || len(decl.Recv.List[0].Names) != 1 || len(decl.Body.List) != 1 {
		return false, false
	}
	ret, ok := decl.Body.List[0].(*ast.ReturnStmt)
	if !ok || len(ret.Results) != 1 {
		return false, false
	}
	recv := p.TypesInfo.Defs[decl.Recv.List[0].Names[0]]
	var ev func(e ast.Expr) (bool, bool)
	isKind := func(e ast.Expr) bool {
		sel, ok := e.(*ast.SelectorExpr)
		if !ok || sel.Sel.Name != "Kind" {
			return false
		}
		id, ok := sel.X.(*ast.Ident)
		return ok && p.TypesInfo.Uses[id] == recv
	}
	constOf := func(e ast.Expr) (string, bool) {
		if tv, ok := p.TypesInfo.Types[e]; ok && tv.Value != nil && tv.Value.Kind() == constant.String {
			return constant.StringVal(tv.Value), true
		}
		return "", false
	}
	ev = func(e ast.Expr) (bool, bool) {
		switch x := e.(type) {
		case *ast.ParenExpr:
			return ev(x.X)
		case *ast.UnaryExpr:
			if x.Op == token.NOT {
				v, ok := ev(x.X)
				return !v, ok
			}
		case *ast.BinaryExpr:
			switch x.Op {
			case token.LOR, token.LAND:
				a, ok1 := ev(x.X)
				b, ok2 := ev(x.Y)
				if !ok1 || !ok2 {
					return false, false
				}
				if x.Op == token.LOR {
					return a || b, true
				}
				return a && b, true
			case token.EQL, token.NEQ:
				var cs string
				var ok bool
				switch {
				case isKind(x.X):
					cs, ok = constOf(x.Y)
				case isKind(x.Y):
					cs, ok = constOf(x.X)
				}
				if !ok {
					return false, false
				}
				return (cs == kind) == (x.Op == token.EQL), true
			}
		}
		return false, false
	}
	return ev(ret.Results[0])
}

// ---- one round of a resolver's selection loop ----------------------------------------------

type roundEvent struct {
	store *ssa.MapUpdate // an answer stored under the alias of the selected field
	val   aval
	call  *ssa.Function // or: a call
	depr  bool          // the call is (or contains) the test for @deprecated
	nameT bool          // or: a branch on the name of a field definition (`IsBuiltinName(fi.Name)`)
}

type roundOutcome struct {
	events []roundEvent
}

func (o *roundOutcome) final() (aval, *ssa.MapUpdate, bool) {
	for i := len(o.events) - 1; i >= 0; i-- {
		if o.events[i].store != nil {
			return o.events[i].val, o.events[i].store, true
		}
	}
	return aval{}, nil, false
}

// aliasKey: the key is the alias of a selected field (`f.Alias`)
func aliasKey(v ssa.Value) bool {
	ld, ok := unwrap(v).(*ssa.UnOp)
	if !ok || ld.Op != token.MUL {
		return false
	}
	fa, ok := ld.X.(*ssa.FieldAddr)
	return ok && fieldOf(fa) != nil && fieldOf(fa).Name() == "Alias" && isGqlField(fa.X.Type())
}

// resultMaps: the maps a resolver returns
func resultMaps(fn *ssa.Function) map[ssa.Value]bool {
	out := map[ssa.Value]bool{}
	for _, ret := range returnsOf(fn) {
		for _, v := range ret.Results {
			if _, ok := v.Type().Underlying().(*types.Map); ok {
				if _, isC := v.(*ssa.Const); !isC {
					out[v] = true
				}
			}
		}
	}
	return out
}

type roundRunner struct {
	P        *Prog
	fn       *ssa.Function
	loop     map[*ssa.BasicBlock]bool
	header   *ssa.BasicBlock
	toHeader map[*ssa.BasicBlock]bool // blocks from which the header is reachable
	results  map[ssa.Value]bool
	opaque   map[*ssa.Function]bool
	deprFn   map[*ssa.Function]bool // memo: the function tests for @deprecated
}

func newRoundRunner(P *Prog, fn *ssa.Function, caseBlock *ssa.BasicBlock, opaque map[*ssa.Function]bool) *roundRunner {
	loop := innermostLoop(caseBlock)
	if loop == nil {
		return nil
	}
	rr := &roundRunner{P: P, fn: fn, loop: loop, results: resultMaps(fn), opaque: opaque, deprFn: map[*ssa.Function]bool{}}
	for b := range loop {
		for _, p := range b.Preds {
			if !loop[p] {
				rr.header = b
			}
		}
	}
	if rr.header == nil {
		return nil
	}
	rr.toHeader = map[*ssa.BasicBlock]bool{rr.header: true}
	for changed := true; changed; {
		changed = false
		for _, b := range fn.Blocks {
			if rr.toHeader[b] {
				continue
			}
			for _, s := range b.Succs {
				if rr.toHeader[s] {
					rr.toHeader[b] = true
					changed = true
				}
			}
		}
	}
	return rr
}

// testsDeprecated: the call looks the @deprecated directive up (hasDeprecatedDirective, a
// ForName("deprecated"), or a helper of the module that does)
func (rr *roundRunner) testsDeprecated(com *ssa.CallCommon, depth int) bool {
	if strings.HasSuffix(calleeName(com), "introspection.hasDeprecatedDirective") {
		return true
	}
	for _, a := range com.Args {
		if k, ok := a.(*ssa.Const); ok && k.Value != nil && k.Value.Kind() == constant.String && constant.StringVal(k.Value) == "deprecated" {
			return true
		}
	}
	sc := com.StaticCallee()
	if sc == nil || depth > 2 {
		return false
	}
	g := rr.P.declared(sc)
	if g == nil || g.Blocks == nil || !inModule(g) || rr.opaque[g] {
		return false
	}
	if v, ok := rr.deprFn[g]; ok {
		return v
	}
	rr.deprFn[g] = false
	for _, ins := range allInstrs(g) {
		if ci, ok := ins.(ssa.CallInstruction); ok && rr.testsDeprecated(ci.Common(), depth+1) {
			rr.deprFn[g] = true
			return true
		}
	}
	for _, ins := range allInstrs(g) {
		if bo, ok := ins.(*ssa.BinOp); ok {
			for _, op := range []ssa.Value{bo.X, bo.Y} {
				if k, ok := op.(*ssa.Const); ok && k.Value != nil && k.Value.Kind() == constant.String && constant.StringVal(k.Value) == "deprecated" {
					rr.deprFn[g] = true
					return true
				}
			}
		}
	}
	return false
}

// run: one round of the selection loop for the selected field `name`, the subject having
// `kind`; every path through the round gives one outcome.
func (rr *roundRunner) run(name, kind, argAbsent string) (outs []*roundOutcome, overflow bool) {
	c := &absCtx{P: rr.P, kind: kind, selName: name, argAbsent: argAbsent, opaque: rr.opaque, budget: 400000, memo: map[string][]aval{}}
	// the subject: a type definition obtained before the loop over the selection
	c.isSubject = func(v ssa.Value) bool {
		if !strings.HasSuffix(namedOf(v.Type()), "gqlparser/v2/ast.Definition") {
			return false
		}
		if _, isPtr := v.Type().Underlying().(*types.Pointer); !isPtr {
			return false
		}
		switch x := v.(type) {
		case *ssa.Parameter:
			return true
		case ssa.Instruction:
			return !rr.loop[x.Block()]
		}
		return false
	}
	fr := &frame{c: c, fn: rr.fn, root: true}
	type ust struct {
		inRound bool
		out     *roundOutcome
	}
	w := &walker{fr: fr}
	w.forkUser = func(u interface{}) interface{} {
		o := u.(*ust)
		n := &ust{inRound: o.inRound}
		if o.out != nil {
			n.out = &roundOutcome{events: append([]roundEvent(nil), o.out.events...)}
		}
		return n
	}
	w.enter = func(b, pred *ssa.BasicBlock, st *pathState) bool {
		u := st.user.(*ust)
		if b == rr.header {
			if u.inRound {
				outs = append(outs, u.out)
				return true
			}
			u.inRound = true
			u.out = &roundOutcome{}
		}
		return false
	}
	w.force = func(b *ssa.BasicBlock, st *pathState) int {
		if b == rr.header {
			for i, s := range b.Succs {
				if rr.loop[s] {
					return i
				}
			}
		}
		return -1
	}
	w.allowed = func(b *ssa.BasicBlock, st *pathState) bool {
		u := st.user.(*ust)
		if u.inRound {
			return rr.loop[b]
		}
		return rr.toHeader[b]
	}
	w.instr = func(ins ssa.Instruction, st *pathState) {
		u := st.user.(*ust)
		if !u.inRound {
			return
		}
		switch x := ins.(type) {
		case *ssa.If:
			if condOnDefinitionName(x.Cond) {
				u.out.events = append(u.out.events, roundEvent{nameT: true})
			}
		case *ssa.MapUpdate:
			if rr.results[x.Map] && aliasKey(x.Key) {
				u.out.events = append(u.out.events, roundEvent{store: x, val: fr.eval(x.Value, st)})
			}
		case *ssa.Call:
			ev := roundEvent{depr: rr.testsDeprecated(x.Common(), 0)}
			if sc := x.Common().StaticCallee(); sc != nil {
				ev.call = sc
				if g := rr.P.declared(sc); g != nil {
					ev.call = g
				}
			}
			if ev.call != nil || ev.depr {
				u.out.events = append(u.out.events, ev)
			}
		}
	}
	w.run(rr.fn.Blocks[0], nil, &pathState{env: map[ssa.Value]aval{}, tup: map[ssa.Value][]aval{}, visits: map[*ssa.BasicBlock]int{}, user: &ust{}})
	return outs, c.overflow
}

func kindList(ks map[string]bool) string {
	var s []string
	for k := range ks {
		s = append(s, k)
	}
	sort.Strings(s)
	return fmt.Sprint(s)
}

// condOnDefinitionName: the condition is computed from the Name of a field definition of the
// schema (not of the selected field)
func condOnDefinitionName(cond ssa.Value) bool {
	seen := map[ssa.Value]bool{}
	var f func(v ssa.Value, d int) bool
	f = func(v ssa.Value, d int) bool {
		if v == nil || seen[v] || d > 6 {
			return false
		}
		seen[v] = true
		if ld, ok := v.(*ssa.UnOp); ok && ld.Op == token.MUL {
			if fa, ok := ld.X.(*ssa.FieldAddr); ok && fieldOf(fa) != nil && fieldOf(fa).Name() == "Name" && strings.HasSuffix(namedOf(fa.X.Type()), "gqlparser/v2/ast.FieldDefinition") {
				return true
			}
		}
		ins, ok := v.(ssa.Instruction)
		if !ok {
			return false
		}
		for _, op := range operandsOf(ins) {
			if f(op, d+1) {
				return true
			}
		}
		return false
	}
	return f(cond, 0)
}
