package main

import (
	"go/constant"
	"go/token"
	"go/types"
	"strconv"
	"strings"

	"golang.org/x/tools/go/ssa"
)

// Deciding conditions. Several clauses of the properties have the shape "X is done for EVERY
// item, except for the confirmed exemptions": two declarations of one type are compared unless
// the type is built in / Node / a scalar; the owner of a field is looked up in the routing table
// unless the field is built in or the type is a value type; a lookup of an entity is
// de-duplicated whenever it is a child step with the id as its only variable. A plausible
// "fast path" that adds one more exemption (`if isSameDeclaration(a, b) { continue }`,
// `if fieldname == "id" { return fallback }`) breaks the clause for the inputs it did not think
// of, compiles, and passes the tests.
//
// The rule takes the place where X is done (the target call) and classifies every branch of
// the enclosing function that decides whether the target is reached: a confirmed exemption
// (table, one reason each), a structural test (nil, presence of an entry, kind of definition
// against a typed constant, the same predicate on both sides), or something new. A predicate of
// the module is looked into. The same machinery is R13d.exempt's, which starts from the route
// write; this file holds the instances that start from a call.

type decideSpec struct {
	rule    string
	anchor  string
	target  func(r *Run, ci ssa.CallInstruction) bool
	calls   map[string]string // accepted predicates (suffix of the callee's name) → reason
	refuted map[string]string // predicates whose use as an exemption is known to be wrong → why
	strs    map[string]string // accepted string constants a value may be compared with → reason
	fields  map[string]string // a field compared with the same field of another value → reason
	lenOf   func(t types.Type) bool
	what    string // "whether the two declarations of a shared type are compared"
	effect  string // consequence of a new condition
	minimum int
}

func ruleDeciding(spec decideSpec) ruleFn {
	return func(r *Run) {
		fn := r.Anchor(spec.rule, spec.anchor)
		if fn == nil {
			return
		}
		var targets []ssa.Instruction
		for _, ins := range allInstrs(fn) {
			if ci, ok := ins.(ssa.CallInstruction); ok && spec.target(r, ci) {
				targets = append(targets, ins)
			}
		}
		if len(targets) == 0 {
			r.Bad(spec.rule, fnName(fn), "target", r.P.pos(fn.Pos()), "the call that the rule starts from is no longer made in "+fnName(fn)+": the rule cannot be evaluated")
			return
		}
		n := 0
		seen := map[ssa.Value]bool{}
		keys := map[string]int{}
		report := func(in *ssa.Function, what string, pos token.Pos, reason string, ok bool) {
			n++
			key := "condition " + what
			keys[key]++
			if keys[key] > 1 {
				key += "#" + strconv.Itoa(keys[key])
			}
			r.Check(ok, spec.rule, fnName(in), key, r.P.pos(pos),
				"confirmed: "+reason,
				spec.what+" depends on a condition that is not one of the confirmed ones ("+what+"): "+spec.effect)
		}
		resultIdx := -1 // set while the call behind an Extract is classified: which result counts
		var classify func(in *ssa.Function, v ssa.Value, depth int)
		classify = func(in *ssa.Function, v ssa.Value, depth int) {
			if seen[v] || depth > 6 {
				return
			}
			seen[v] = true
			switch c := v.(type) {
			case *ssa.UnOp:
				if c.Op == token.NOT {
					classify(in, c.X, depth+1)
					return
				}
			case *ssa.Phi:
				for _, e := range c.Edges {
					if _, isConst := e.(*ssa.Const); !isConst {
						classify(in, e, depth+1)
					}
				}
				return
			case *ssa.Extract:
				switch t := c.Tuple.(type) {
				case *ssa.Next:
					return // loop over a map
				case *ssa.Lookup:
					report(in, "presence of an entry in "+types.TypeString(t.X.Type(), func(p *types.Package) string { return p.Name() }), c.Pos(), "is there an entry for this key", true)
					return
				case *ssa.TypeAssert:
					report(in, "dynamic type "+types.TypeString(t.AssertedType, func(p *types.Package) string { return p.Name() }), c.Pos(), "", false)
					return
				case *ssa.Call:
					resultIdx = c.Index
					delete(seen, ssa.Value(t)) // each result of the call is a condition of its own
					classify(in, t, depth+1)
					resultIdx = -1
					return
				}
			case *ssa.Lookup:
				// membership in a set of kinds (`kindsWithMembers[def.Kind]`): the key is of a named
				// enumeration type, the test is on the kind of definition like a typed constant
				if mt, ok := c.X.Type().Underlying().(*types.Map); ok && !c.CommaOk {
					if nt, ok := mt.Key().(*types.Named); ok {
						if _, basic := nt.Underlying().(*types.Basic); basic {
							if bt, ok := mt.Elem().Underlying().(*types.Basic); ok && bt.Kind() == types.Bool {
								return
							}
						}
					}
				}
			case *ssa.Call:
				if b, ok := c.Call.Value.(*ssa.Builtin); ok && b.Name() == "len" {
					return
				}
				name := shortCallee(&c.Call)
				for k, why := range spec.refuted {
					if strings.HasSuffix(name, k) && resultIdx <= 0 {
						n++
						r.Bad(spec.rule, fnName(in), "condition "+k, r.P.pos(c.Pos()), spec.what+" depends on "+k+": "+why)
						return
					}
				}
				for k, reason := range spec.calls {
					if strings.HasSuffix(name, k) {
						report(in, k, c.Pos(), reason, true)
						return
					}
				}
				if sc := c.Call.StaticCallee(); sc != nil && inModule(sc) && sc.Blocks != nil && depth < 3 {
					any := false
					want := resultIdx
					resultIdx = -1
					for _, ins := range allInstrs(sc) {
						switch x := ins.(type) {
						case *ssa.If:
							any = true
							classify(sc, x.Cond, depth+1)
						case *ssa.Return:
							for ri, res := range x.Results {
								if want >= 0 && ri != want {
									continue // the caller looks at one result only
								}
								if _, isConst := res.(*ssa.Const); !isConst {
									any = true
									classify(sc, res, depth+1)
								}
							}
						}
					}
					if any {
						return
					}
				}
				report(in, calleeDesc(&c.Call), c.Pos(), "", false)
				return
			case *ssa.BinOp:
				if isNilConst(c.X) || isNilConst(c.Y) {
					return
				}
				for _, side := range []ssa.Value{c.X, c.Y} {
					k, isConst := side.(*ssa.Const)
					if !isConst || k.Value == nil {
						continue
					}
					if k.Value.Kind() == constant.String {
						if _, plain := k.Type().(*types.Basic); !plain {
							return // a typed constant such as ast.Union: the kind of definition
						}
						reason, known := spec.strs[constant.StringVal(k.Value)]
						report(in, "on the text "+k.Value.ExactString(), c.Pos(), reason, known)
						return
					}
					// a number: a length or a count
					other := c.X
					if other == side {
						other = c.Y
					}
					if call, ok := unwrap(other).(*ssa.Call); ok {
						if b, ok := call.Call.Value.(*ssa.Builtin); ok && b.Name() == "len" {
							if spec.lenOf == nil || spec.lenOf(call.Call.Args[0].Type()) {
								return
							}
							report(in, "on the length of a "+types.TypeString(call.Call.Args[0].Type(), func(p *types.Package) string { return p.Name() }), c.Pos(), "", false)
							return
						}
					}
					if spec.lenOf == nil {
						return
					}
					report(in, "on a number", c.Pos(), "", false)
					return
				}
				// the same field of two values, the same predicate on two values
				fx, fy := loadedField(c.X), loadedField(c.Y)
				if fx != "" && fx == fy {
					reason, known := spec.fields[fx]
					report(in, "field "+fx+" of both compared", c.Pos(), reason, known)
					return
				}
				cx, okx := unwrap(c.X).(*ssa.Call)
				cy, oky := unwrap(c.Y).(*ssa.Call)
				if okx && oky && cx.Call.StaticCallee() != nil && cx.Call.StaticCallee() == cy.Call.StaticCallee() {
					name := fnName(cx.Call.StaticCallee())
					for k, reason := range spec.calls {
						if strings.HasSuffix(name, k) {
							report(in, k+" of both compared", c.Pos(), reason, true)
							return
						}
					}
					report(in, name+" of both compared", c.Pos(), "", false)
					return
				}
				if bt, ok := c.X.Type().Underlying().(*types.Basic); ok && bt.Info()&types.IsInteger != 0 && spec.lenOf == nil {
					return
				}
			}
			if ins, ok := v.(ssa.Instruction); ok {
				report(in, "of an unrecognised form ("+v.String()+")", ins.Pos(), "", false)
			} else {
				report(in, "of an unrecognised form ("+v.Name()+")", fn.Pos(), "", false)
			}
		}
		for _, iff := range decidingBranches(fn, targets) {
			classify(fn, iff.Cond, 0)
		}
		r.AtLeast(spec.rule, "conditions deciding "+spec.what, n, spec.minimum)
	}
}

// loadedField: v is `*(&x.F)` or `x.F`: the name of F.
func loadedField(v ssa.Value) string {
	switch x := unwrap(v).(type) {
	case *ssa.UnOp:
		if x.Op == token.MUL {
			if fa, ok := x.X.(*ssa.FieldAddr); ok && fieldOf(fa) != nil {
				return fieldOf(fa).Name()
			}
		}
	case *ssa.Field:
		if f := fieldOfVal(x); f != nil {
			return f.Name()
		}
	}
	return ""
}

// decidingBranches: the branches of fn that decide whether one of the target instructions is
// reached within the current round of the loop they stand in: from one side a target can be
// reached and from the other not, or it can be avoided from one side and not from the other.
func decidingBranches(fn *ssa.Function, targets []ssa.Instruction) []*ssa.If {
	isTarget := map[*ssa.BasicBlock]bool{}
	for _, t := range targets {
		isTarget[t.Block()] = true
	}
	var out []*ssa.If
	for _, b := range fn.Blocks {
		iff, ok := b.Instrs[len(b.Instrs)-1].(*ssa.If)
		if !ok {
			continue
		}
		// a branch that comes after every target on its paths decides nothing about them
		loop := innermostLoop(b)
		var header *ssa.BasicBlock
		for lb := range loop {
			for _, p := range lb.Preds {
				if !loop[p] {
					header = lb
				}
			}
		}
		reach := func(from *ssa.BasicBlock) bool {
			seen := map[*ssa.BasicBlock]bool{}
			var walk func(b *ssa.BasicBlock) bool
			walk = func(b *ssa.BasicBlock) bool {
				if isTarget[b] {
					return true
				}
				if seen[b] || (header != nil && b == header) {
					return false
				}
				seen[b] = true
				for _, s := range b.Succs {
					if walk(s) {
						return true
					}
				}
				return false
			}
			return walk(from)
		}
		avoid := func(from *ssa.BasicBlock) bool {
			seen := map[*ssa.BasicBlock]bool{}
			var walk func(b *ssa.BasicBlock) bool
			walk = func(b *ssa.BasicBlock) bool {
				if isTarget[b] || seen[b] {
					return false
				}
				if (header != nil && b == header) || len(b.Succs) == 0 {
					return true
				}
				seen[b] = true
				for _, s := range b.Succs {
					if walk(s) {
						return true
					}
				}
				return false
			}
			return walk(from)
		}
		s0, s1 := b.Succs[0], b.Succs[1]
		if reach(s0) == reach(s1) && avoid(s0) == avoid(s1) {
			continue
		}
		out = append(out, iff)
	}
	return out
}

func callTo(suffixes ...string) func(r *Run, ci ssa.CallInstruction) bool {
	return func(r *Run, ci ssa.CallInstruction) bool {
		n := shortCallee(ci.Common())
		for _, s := range suffixes {
			if strings.HasSuffix(n, s) {
				return true
			}
		}
		return false
	}
}

// R13o.exempt — mergeTypes: which pairs of declarations are merged field by field.
var ruleMergeExemptions = ruleDeciding(decideSpec{
	rule:   "R13o.exempt",
	anchor: "merger.mergeTypes",
	target: callTo("merger.mergeCustomObjects", "merger.mergeRootObjects"),
	calls: map[string]string{
		"common.IsBuiltinName":             "built-in names are the gateway's own",
		"common.IsRootObjectName":          "root types are merged by mergeRootObjects (both calls are targets)",
		"common.IsNodeInterfaceName":       "the Node interface is the same everywhere by construction (R13d.sig)",
		"merger.isImplementsNodeInterface": "a type is a Node type in all services or in none: the difference is an error",
	},
	strs: map[string]string{
		"Node": "the Node interface is the same everywhere by construction (R13d.sig)",
	},
	fields: map[string]string{
		"Kind": "declarations of different kinds are refused",
	},
	what:    "whether the two declarations of a shared type are compared field by field",
	effect:  "a pair of declarations for which it decides against the comparison is accepted unseen — overlapping fields of a Node type, conflicting field types — and which service a field is routed to then depends on the order in which the services are listed",
	minimum: 3,
})

// R13d.lookup — PlanningContext.GetURL: when the routing table is consulted. The test on
// GetTypeIsImplementsNode (fields of a type that is known but not a Node type stay with the
// enclosing step's service, whatever the table says) is NOT a confirmed exemption: the merge
// accepts a plain type that two services declare with disjoint fields, and a field of the
// second declaration selected under the first service's object is then sent to a service that
// does not declare it (fifth audit, known finding F52).
var ruleRouteLookupExemptions = ruleDeciding(decideSpec{
	rule:   "R13d.lookup",
	anchor: "planner.(*PlanningContext).GetURL",
	target: callTo("merger.(TypeURLMap).Get"),
	calls: map[string]string{
		"common.IsBuiltinName":                        "introspection names are answered by the gateway itself",
		"common.IsRootObjectName":                     "fields of root types are always looked up",
	},
	refuted: map[string]string{
		"merger.(TypeURLMap).GetTypeIsImplementsNode": "every field of a type that is known but not a Node type is left with the enclosing step's service without a look at the routing table; the merge accepts a plain type that two services declare with disjoint fields, so a field of the other declaration is sent to a service that does not declare it and never reaches its owner",
	},
	strs: map[string]string{
		"%#!": "the internal pseudo-service is never a fallback for a real field",
	},
	what:    "whether the owner of a field is looked up in the routing table",
	effect:  "a field for which it decides against the lookup is left with the enclosing step's service, whether or not that service declares it — a root field called id, for instance, is sent to the internal pseudo-service and never reaches the service that owns it",
	minimum: 3,
})

// R12d.cond — setIMap: which requests of a batch are de-duplicated.
var ruleDedupConditions = ruleDeciding(decideSpec{
	rule:   "R12d.cond",
	anchor: "executor.(*DepthExecutor).setIMap",
	target: func(r *Run, ci ssa.CallInstruction) bool {
		c := ci.Common()
		if !strings.HasSuffix(shortCallee(c), "indexMap).Set") || len(c.Args) == 0 {
			return false
		}
		// the de-duplicating Set: its key is made of the id and the query, not of the position
		// (the other Set of the function is keyed by strconv.Itoa(index))
		if k, ok := unwrap(c.Args[len(c.Args)-1]).(*ssa.Call); ok && strings.HasSuffix(calleeName(&k.Call), "strconv.Itoa") {
			return false
		}
		return true
	},
	calls: map[string]string{
		"common.IsRootObjectName": "child steps (lookups by id) are de-duplicated, root steps are sent as they are",
	},
	lenOf: func(t types.Type) bool {
		_, isMap := t.Underlying().(*types.Map)
		return isMap // the variables of the request: the id and nothing else
	},
	what:    "whether a lookup is de-duplicated within its batch",
	effect:  "lookups for which it decides against de-duplication are sent once per place that refers to the entity: the size of a batch follows the result instead of the set of distinct entities (C12), and no test of the planner's real steps notices",
	minimum: 2,
})

// shortCallee: the callee's name in the short form used by the tables (pkg.(Recv).Name for
// functions of the module), without type arguments.
func shortCallee(c *ssa.CallCommon) string {
	if sc := c.StaticCallee(); sc != nil && inModule(sc) {
		return strings.SplitN(fnName(sc), "[", 2)[0]
	}
	return strings.SplitN(calleeName(c), "[", 2)[0]
}
