package main

import (
	"go/constant"
	"go/token"
	"go/types"
	"sort"
	"strconv"
	"strings"

	"golang.org/x/tools/go/ssa"
)

// Deciding conditions. Several clauses of the properties have the shape "X is done for EVERY
// item, except for the confirmed exemptions": two declarations of one type are compared unless
// the type is built in / Node / a scalar; the owner of a field is looked up in the routing table
// unless the field is built in or the type is a value type; a lookup of an entity is
// de-duplicated whenever it is a child step with the id as its only variable. A plausible
// "fast path" that adds one more exemption (`if isSameDeclaration(a, b) { continue }`,
// `if fieldname == "id" { return fallback }`) breaks the clause for the inputs it did not think
// of, compiles, and passes the tests.
//
// The rule takes the place where X is done (the target call — in the anchor function or in a
// function of the module it calls: the branches of the anchor on the way to that call and those
// of the helper on the way to the target both count; when one call serves both cases and an
// operand decides which, the places where the operand takes the deciding value — in the function
// that makes the call, or at the exits of the function of the module whose result the operand
// is) and classifies
// every branch that decides whether the target is reached:
//
//   - a confirmed exemption (tables, one reason each: predicates, texts, kinds of definition). A
//     test on the kind of definition is resolved to the kinds it exempts — the side of the branch
//     that misses the target, the universe of the constants of the type, the content of a table
//     of kinds — and each exempted kind has to be a confirmed one. An entry may demand a call
//     on the exempted side (the comparison that stands in for the one skipped) — made there, or
//     by a function of the module that makes it on every path and whose error the exempted side
//     returns;
//   - a structural test: presence of an entry of a map (comma-ok, or the nil-ness of what was
//     looked up), the test of a counting loop, the same field or predicate on both sides. A
//     comparison with nil is judged by what is nil: an entry looked up, the error of a call (the
//     call's own conditions), or a field or parameter of the input — a condition like any other;
//   - a refusal: the side that misses the target returns an error on every path. What such a
//     condition singles out is not accepted unseen;
//   - or something new.
//
// A predicate of the module is looked into. What the loops around the target range over is
// followed to its origin: the function's own input, or a list the function built (the branches
// that decide what is put on it then decide as well), or the result of a call — whose
// conditions, or those of the function literal it is handed, choose the items and are
// classified like the rest. The same machinery is R13d.exempt's, which starts from the route
// write; this file holds the instances that start from a call.

type decideSpec struct {
	rule    string
	anchor  string
	target  func(r *Run, ci ssa.CallInstruction) bool
	choice  func(ci ssa.CallInstruction) ssa.Value // when set: the operand of the target call that makes it the thing decided (the key of a Set)
	plain   func(v ssa.Value) bool                 // … and the alternatives of that operand which do not (the positional key)
	calls   map[string]string                      // accepted predicates (suffix of the callee's name) → reason
	refuted map[string]string                      // predicates whose use as an exemption is known to be wrong → why
	strs    map[string]string                      // accepted string constants a value may be compared with → reason
	kinds   map[string]string                      // kinds of definition (values of a typed constant) that may be exempted → reason
	fields  map[string]string                      // a field compared with the same field of another value → reason
	passes  map[string]string                      // key of an exemption above → a call (suffix) that every path of the exempted side makes before the next item (itself or through a function of the module, see makesCall)
	lenOf   func(t types.Type) bool
	what    string // "whether the two declarations of a shared type are compared"
	effect  string // consequence of a new condition
	minimum int
}

// decider: one evaluation of a decideSpec.
type decider struct {
	r       *Run
	spec    decideSpec
	n       int
	seen    map[ssa.Value]bool
	keys    map[string]int
	visited map[*ssa.Function]bool
	has     map[*ssa.Function]int
	// the branch whose condition is being classified
	cur       *ssa.If
	exempt    int  // index of the successor on which the target is not reached (-1: none)
	refusing  bool // that side ends in the return of an error on every path
	resultIdx int  // set while the call behind an Extract is classified: which result counts
}

func ruleDeciding(spec decideSpec) ruleFn {
	return func(r *Run) {
		fn := r.Anchor(spec.rule, spec.anchor)
		if fn == nil {
			return
		}
		d := &decider{r: r, spec: spec, seen: map[ssa.Value]bool{}, keys: map[string]int{}, visited: map[*ssa.Function]bool{}, has: map[*ssa.Function]int{}, exempt: -1, resultIdx: -1}
		if !d.holdsTarget(fn, 0) {
			r.Bad(spec.rule, fnName(fn), "target", r.P.pos(fn.Pos()), "the call that the rule starts from is no longer made in "+fnName(fn)+" or in a function of the module it calls: the rule cannot be evaluated")
			return
		}
		d.decideIn(fn, 0)
		r.AtLeast(spec.rule, "conditions deciding "+spec.what, d.n, spec.minimum)
	}
}

// choicePoints: the places of one function where the choice operand of a target call takes a
// value that makes the call the thing decided.
type choicePoints struct {
	blocks []*ssa.BasicBlock
	ifs    []*ssa.If
}

// targetPoints: where the target call ci counts as reached. Without a choice operand: the
// call's block. With one (`iMap.Set(i, n, key)`: the key makes the call the de-duplicating
// one): the places where that operand takes a value that is not plain — the call's block for a
// direct value, the incoming edge for an alternative of a phi (an edge out of a two-way branch
// is represented by that branch). An operand that is the result of a function of the module
// (`iMap.Set(i, n, requestDedupKey(i, req, vars))`) takes its value where that function
// returns: the places are those of the function's exits (and of the alternatives of what it
// returns) that are not plain, in that function — its branches then decide — and the place
// where the caller takes the result.
func (d *decider) targetPoints(ci ssa.CallInstruction) map[*ssa.Function]*choicePoints {
	if !d.spec.target(d.r, ci) {
		return nil
	}
	out := map[*ssa.Function]*choicePoints{}
	at := func(b *ssa.BasicBlock) *choicePoints {
		if out[b.Parent()] == nil {
			out[b.Parent()] = &choicePoints{}
		}
		return out[b.Parent()]
	}
	if d.spec.choice == nil {
		at(ci.Block()).blocks = []*ssa.BasicBlock{ci.Block()}
		return out
	}
	seen := map[ssa.Value]bool{}
	var expand func(v ssa.Value, at *ssa.BasicBlock, to *ssa.BasicBlock, depth int) bool
	expand = func(v ssa.Value, from *ssa.BasicBlock, to *ssa.BasicBlock, depth int) bool {
		if phi, ok := v.(*ssa.Phi); ok {
			if seen[v] {
				return false
			}
			seen[v] = true
			any := false
			for i, e := range phi.Edges {
				if expand(e, phi.Block().Preds[i], phi.Block(), depth) {
					any = true
				}
			}
			return any
		}
		if d.spec.plain != nil && d.spec.plain(v) {
			return false
		}
		// the result of a function of the module: the value is chosen at its exits
		var call *ssa.Call
		idx := 0
		switch x := v.(type) {
		case *ssa.Call:
			call = x
		case *ssa.Extract:
			call, _ = x.Tuple.(*ssa.Call)
			idx = x.Index
		}
		if call != nil && depth < 2 {
			if g := call.Call.StaticCallee(); g != nil && inModule(g) && g.Blocks != nil && !seen[call] {
				seen[call] = true
				inner, resolved := false, true
				for _, ret := range returnsOf(g) {
					rv := retVals(ret)
					if idx >= len(rv) {
						resolved = false
						continue
					}
					if expand(rv[idx], ret.Block(), nil, depth+1) {
						inner = true
					}
				}
				if resolved && !inner {
					return false // every exit hands back a plain value
				}
				// otherwise the caller takes a deciding value here, like a value made on the spot
			}
		}
		p := at(from)
		p.blocks = append(p.blocks, from)
		if to != nil && len(from.Succs) == 2 {
			if iff, ok := from.Instrs[len(from.Instrs)-1].(*ssa.If); ok {
				p.ifs = append(p.ifs, iff)
			}
		}
		return true
	}
	expand(d.spec.choice(ci), ci.Block(), nil, 0)
	return out
}

// holdsTarget: fn makes the target call itself or through functions of the module it calls.
func (d *decider) holdsTarget(fn *ssa.Function, depth int) bool {
	if fn == nil || fn.Blocks == nil || depth > 3 {
		return false
	}
	switch d.has[fn] {
	case 1:
		return true
	case 2, 3:
		return false
	}
	d.has[fn] = 3
	res := false
	for _, ins := range allInstrs(fn) {
		ci, ok := ins.(ssa.CallInstruction)
		if !ok {
			continue
		}
		if len(d.targetPoints(ci)) > 0 {
			res = true
			break
		}
		if sc := ci.Common().StaticCallee(); sc != nil && inModule(sc) && !d.spec.target(d.r, ci) && d.holdsTarget(sc, depth+1) {
			res = true
			break
		}
	}
	if res {
		d.has[fn] = 1
	} else {
		d.has[fn] = 2
	}
	return res
}

// decideIn classifies the branches of fn that decide whether the target is reached: those on
// the way to the target call (or to the call of a helper that makes it), and, in such a helper,
// those on the way from its entry to the target.
func (d *decider) decideIn(fn *ssa.Function, depth int) {
	d.decideFrom(fn, depth, nil)
}

// decideFrom: decideIn with places of fn that count as reached targets from the start (the
// exits of a helper that returns the choice operand of a target call of its caller).
func (d *decider) decideFrom(fn *ssa.Function, depth int, given *choicePoints) {
	if d.visited[fn] {
		return
	}
	d.visited[fn] = true
	targets := map[*ssa.BasicBlock]bool{}
	var extra []*ssa.If
	if given != nil {
		for _, b := range given.blocks {
			targets[b] = true
		}
		extra = append(extra, given.ifs...)
	}
	for _, ins := range allInstrs(fn) {
		ci, ok := ins.(ssa.CallInstruction)
		if !ok {
			continue
		}
		if d.spec.target(d.r, ci) {
			pts := d.targetPoints(ci)
			var others []*ssa.Function
			for f, p := range pts {
				if f != fn {
					others = append(others, f)
					continue
				}
				for _, b := range p.blocks {
					targets[b] = true
				}
				extra = append(extra, p.ifs...)
			}
			sort.Slice(others, func(i, j int) bool { return fnName(others[i]) < fnName(others[j]) })
			for _, f := range others {
				d.decideFrom(f, depth+1, pts[f])
			}
			continue
		}
		if sc := ci.Common().StaticCallee(); sc != nil && inModule(sc) && d.holdsTarget(sc, depth+1) {
			targets[ci.Block()] = true
			d.decideIn(sc, depth+1)
		}
	}
	// the items: what the loops around the target range over is the function's own input — a
	// list that was filtered on the way is an exemption taken before the loop
	for _, b := range fn.Blocks {
		if targets[b] {
			d.sources(fn, b, targets)
		}
	}
	isExtra := map[*ssa.If]bool{}
	for _, iff := range extra {
		isExtra[iff] = true
	}
	for _, br := range decidingBranches(fn, targets) {
		delete(isExtra, br.iff)
		d.cur, d.exempt = br.iff, br.exempt
		d.refusing = br.exempt >= 0 && refuses(br.iff.Block().Succs[br.exempt], targets)
		d.classify(fn, br.iff.Cond, 1, 0)
	}
	for _, iff := range extra {
		if !isExtra[iff] {
			continue
		}
		delete(isExtra, iff)
		d.cur, d.exempt, d.refusing = iff, -1, false
		d.classify(fn, iff.Cond, 1, 0)
	}
	d.cur, d.exempt, d.refusing = nil, -1, false
}

// sources: the collections the loops around block b range over, followed to where they come from.
func (d *decider) sources(fn *ssa.Function, b *ssa.BasicBlock, targets map[*ssa.BasicBlock]bool) {
	seen := map[ssa.Value]bool{}
	var judge func(v ssa.Value, depth int)
	judge = func(v ssa.Value, depth int) {
		v = viaCell(unwrap(v))
		if v == nil || seen[v] || depth > 12 {
			return
		}
		seen[v] = true
		switch x := v.(type) {
		case *ssa.Parameter, *ssa.FreeVar, *ssa.Global, *ssa.Const, *ssa.MakeMap, *ssa.MakeSlice, *ssa.Alloc:
			return
		case *ssa.UnOp:
			judge(x.X, depth+1)
		case *ssa.FieldAddr:
			judge(x.X, depth+1)
		case *ssa.Field:
			judge(x.X, depth+1)
		case *ssa.IndexAddr:
			judge(x.X, depth+1)
		case *ssa.Index:
			judge(x.X, depth+1)
		case *ssa.Lookup:
			judge(x.X, depth+1)
		case *ssa.Extract:
			judge(x.Tuple, depth+1)
		case *ssa.Next:
			if rg, ok := x.Iter.(*ssa.Range); ok {
				judge(rg.X, depth+1)
			}
		case *ssa.Phi:
			for _, e := range x.Edges {
				judge(e, depth+1)
			}
		case *ssa.Slice:
			if x.Low != nil || x.High != nil {
				d.cur, d.exempt, d.refusing = nil, -1, false
				d.report(fn, "a part of the list the loop ranges over", x.Pos(), "", false)
				return
			}
			judge(x.X, depth+1)
		case *ssa.Call:
			if bi, ok := x.Call.Value.(*ssa.Builtin); ok {
				if bi.Name() == "append" {
					// a list built by the function itself: what decides whether an item is put on it
					// decides whether the target is reached for it
					if !targets[x.Block()] {
						targets[x.Block()] = true
						d.sources(fn, x.Block(), targets)
					}
					judge(x.Call.Args[0], depth+1)
				}
				return
			}
			d.cur, d.exempt, d.refusing = nil, -1, false
			sc := x.Call.StaticCallee()
			if sc != nil && inModule(sc) && sc.Blocks != nil {
				// a function of the module: what it (and the function literals in it) branch on
				// chooses the items; one without branches cannot choose
				for _, f := range withClosures(sc) {
					d.conditionsOf(f, -1, 0, 0)
				}
				for _, a := range x.Call.Args {
					if isCollection(a.Type()) {
						judge(a, depth+1)
					}
				}
				return
			}
			// a library function: the functions it is handed choose the items; without any, it
			// may re-order or project collections but is not given anything to choose by
			plainArgs := true
			for _, a := range x.Call.Args {
				var f *ssa.Function
				switch y := a.(type) {
				case *ssa.MakeClosure:
					f, _ = y.Fn.(*ssa.Function)
				case *ssa.Function:
					f = y
				}
				if f != nil {
					if f.Blocks == nil {
						plainArgs = false
						continue
					}
					d.conditionsOf(f, -1, 0, 0)
					continue
				}
				if _, isSig := a.Type().Underlying().(*types.Signature); isSig {
					plainArgs = false
					continue
				}
				if isCollection(a.Type()) {
					judge(a, depth+1)
				} else {
					plainArgs = false
				}
			}
			if !plainArgs {
				d.report(fn, "the items chosen by "+calleeDesc(&x.Call), x.Pos(), "", false)
			}
		}
	}
	for _, h := range fn.Blocks {
		if l := naturalLoop(h); len(l) == 0 || !l[b] {
			continue
		}
		for _, ins := range h.Instrs {
			if nx, ok := ins.(*ssa.Next); ok {
				judge(nx, 0)
			}
		}
		if iff, ok := h.Instrs[len(h.Instrs)-1].(*ssa.If); ok {
			if bo, ok := iff.Cond.(*ssa.BinOp); ok && bo.Op == token.LSS {
				if call, ok := bo.Y.(*ssa.Call); ok {
					if bi, ok := call.Call.Value.(*ssa.Builtin); ok && bi.Name() == "len" {
						judge(call.Call.Args[0], 0)
					}
				}
			}
		}
	}
}

func isCollection(t types.Type) bool {
	switch t.Underlying().(type) {
	case *types.Slice, *types.Map, *types.Array:
		return true
	}
	return false
}

// conditionsOf: the conditions under which a function of the module answers — every branch
// of its body and every boolean it returns that is not a constant (want: the one result the
// caller looks at, or -1).
func (d *decider) conditionsOf(sc *ssa.Function, want int, sense int, depth int) bool {
	any := false
	for _, ins := range allInstrs(sc) {
		switch x := ins.(type) {
		case *ssa.If:
			any = true
			s := 0
			if want >= 0 {
				s = sense * answerSense(x, want)
			}
			d.classify(sc, x.Cond, s, depth+1)
		case *ssa.Return:
			for ri, res := range x.Results {
				if want >= 0 && ri != want {
					continue // the caller looks at one result only
				}
				if _, isConst := res.(*ssa.Const); isConst {
					continue
				}
				if bt, ok := res.Type().Underlying().(*types.Basic); !ok || bt.Kind() != types.Bool {
					continue
				}
				any = true
				s := 0
				if want >= 0 {
					s = sense
				}
				d.classify(sc, res, s, depth+1)
			}
		}
	}
	return any
}

// answerSense: +1 when the true side of the branch answers the constant true in result idx
// right away, -1 when it answers false, 0 when that cannot be told.
func answerSense(iff *ssa.If, idx int) int {
	side := func(b *ssa.BasicBlock) int {
		ret, ok := b.Instrs[len(b.Instrs)-1].(*ssa.Return)
		if !ok || idx >= len(ret.Results) {
			return 0
		}
		answer := func(v ssa.Value) int {
			if k, ok := v.(*ssa.Const); ok && k.Value != nil && k.Value.Kind() == constant.Bool {
				if constant.BoolVal(k.Value) {
					return 1
				}
				return -1
			}
			return 0
		}
		if len(b.Instrs) == 1 {
			return answer(ret.Results[idx])
		}
		// `return a && b`: the block that returns joins the alternatives in a phi; the edge from
		// this branch carries the constant the short-circuit answers with
		if phi, ok := ret.Results[idx].(*ssa.Phi); ok && phi.Block() == b {
			onlyPhisAndReturn := true
			for _, ins := range b.Instrs[:len(b.Instrs)-1] {
				if _, isPhi := ins.(*ssa.Phi); !isPhi {
					onlyPhisAndReturn = false
				}
			}
			if onlyPhisAndReturn {
				for i, p := range b.Preds {
					if p == iff.Block() {
						return answer(phi.Edges[i])
					}
				}
			}
		}
		return 0
	}
	if s := side(iff.Block().Succs[0]); s != 0 {
		return s
	}
	return -side(iff.Block().Succs[1])
}

func (d *decider) report(in *ssa.Function, what string, pos token.Pos, reason string, ok bool) {
	d.n++
	key := "condition " + what
	d.keys[key]++
	if d.keys[key] > 1 {
		key += "#" + strconv.Itoa(d.keys[key])
	}
	if !ok && d.refusing {
		ok, reason = true, "on the side that does not reach it every path returns an error: what the condition singles out is refused, not accepted unseen"
	} else {
		reason = "confirmed: " + reason
	}
	d.r.Check(ok, d.spec.rule, fnName(in), key, d.r.P.pos(pos),
		reason,
		d.spec.what+" depends on a condition that is not one of the confirmed ones ("+what+"): "+d.spec.effect)
}

// exemption: a confirmed entry of a table is used; when the entry names a call that has to be
// made on the exempted side (the comparison that justifies the skip), that is checked here.
func (d *decider) exemption(in *ssa.Function, key, what string, pos token.Pos, reason string) {
	need := d.spec.passes[key]
	if need == "" {
		d.report(in, what, pos, reason, true)
		return
	}
	ok := false
	if d.cur != nil && d.exempt >= 0 && d.cur.Parent() == in {
		ok, _ = mustPass(d.cur.Block().Succs[d.exempt], 0, func(ins ssa.Instruction) bool {
			ci, isCall := ins.(ssa.CallInstruction)
			return isCall && makesCall(ci, need, 0)
		})
	}
	if ok {
		d.report(in, what, pos, reason, true)
		return
	}
	d.n++
	d.r.Bad(d.spec.rule, fnName(in), "condition "+what, d.r.P.pos(pos), d.spec.what+" is decided by "+what+", an exemption that is confirmed only where every path of the exempted side calls "+need+" before the next item (the comparison that stands in for the one skipped) — itself, or through a function of the module that calls it on every path and whose error is returned; here a path does not: "+d.spec.effect)
}

// makesCall: the call ci is a call of need (suffix of the callee's short name), or of a function
// of the module that itself makes such a call on every path from its entry and whose verdict the caller
// acts on: the function answers with an error as its last result, and where that error is not nil
// every path of the caller returns an error (a comparison whose outcome is dropped at the call
// does not stand in for anything).
func makesCall(ci ssa.CallInstruction, need string, depth int) bool {
	if strings.HasSuffix(shortCallee(ci.Common()), need) {
		return true
	}
	// one level: the function called from the exempted side makes the call itself (R13o judges
	// the member comparisons of mergeTypes and of the functions it calls, not those further down)
	sc := ci.Common().StaticCallee()
	if sc == nil || !inModule(sc) || sc.Blocks == nil || depth > 0 {
		return false
	}
	if _, isGo := ci.(*ssa.Go); isGo {
		return false
	}
	if _, isDefer := ci.(*ssa.Defer); isDefer {
		return false
	}
	if through, _ := mustPass(sc.Blocks[0], 0, func(ins ssa.Instruction) bool {
		c2, isCall := ins.(ssa.CallInstruction)
		return isCall && makesCall(c2, need, depth+1)
	}); !through {
		return false
	}
	return errorRefused(ci)
}

// errorRefused: the function called at ci answers with an error as its last result, the caller
// tests that error against nil, and on the side where it is not nil every path of the caller
// returns an error that is not nil.
func errorRefused(ci ssa.CallInstruction) bool {
	call, ok := ci.(*ssa.Call)
	if !ok {
		return false
	}
	res := call.Call.Signature().Results()
	if res.Len() == 0 || !isErrorish(res.At(res.Len()-1).Type()) {
		return false
	}
	var errv ssa.Value = call
	if res.Len() > 1 {
		errv = nil
		for _, ref := range *call.Referrers() {
			if ex, ok := ref.(*ssa.Extract); ok && ex.Index == res.Len()-1 {
				errv = ex
			}
		}
	}
	if errv == nil || errv.Referrers() == nil {
		return false
	}
	for _, ref := range *errv.Referrers() {
		bo, ok := ref.(*ssa.BinOp)
		if !ok || (bo.Op != token.NEQ && bo.Op != token.EQL) || !(isNilConst(bo.X) || isNilConst(bo.Y)) || bo.Referrers() == nil {
			continue
		}
		for _, r2 := range *bo.Referrers() {
			iff, ok := r2.(*ssa.If)
			if !ok {
				continue
			}
			side := iff.Block().Succs[0]
			if bo.Op == token.EQL {
				side = iff.Block().Succs[1]
			}
			// the test comes right after the call: nothing between the two can leave the pair
			// accepted before the error is looked at
			if iff.Block() != call.Block() || len(side.Preds) != 1 {
				continue
			}
			if refuses(side, nil) {
				return true
			}
		}
	}
	return false
}

// kindUniverse: the values of the constants of the named type t that its package declares.
func kindUniverse(t types.Type) []string {
	nt, ok := t.(*types.Named)
	if !ok || nt.Obj().Pkg() == nil {
		return nil
	}
	var out []string
	sc := nt.Obj().Pkg().Scope()
	for _, name := range sc.Names() {
		if k, ok := sc.Lookup(name).(*types.Const); ok && types.Identical(k.Type(), t) && k.Val().Kind() == constant.String {
			out = append(out, constant.StringVal(k.Val()))
		}
	}
	sort.Strings(out)
	return out
}

// kindTest: the kinds for which the test v is true, exempted or not according to the side of
// the branch. sense: +1 v true means the branch condition is true, -1 the opposite.
func (d *decider) kindTest(in *ssa.Function, t types.Type, trueFor map[string]bool, sense int, pos token.Pos) {
	uni := kindUniverse(t)
	if sense == 0 || d.exempt < 0 || d.cur == nil || len(uni) == 0 {
		names := []string{}
		for k := range trueFor {
			names = append(names, k)
		}
		sort.Strings(names)
		d.report(in, "a test on the kind of definition ("+strings.Join(names, ", ")+") of which the rule cannot tell which kinds it exempts", pos, "", false)
		return
	}
	trueSide := 0
	if sense < 0 {
		trueSide = 1
	}
	for _, k := range uni {
		if trueFor[k] != (trueSide == d.exempt) {
			continue
		}
		if reason, known := d.spec.kinds[k]; known {
			d.exemption(in, k, "kind "+k, pos, reason)
		} else {
			d.report(in, "kind "+k, pos, "", false)
		}
	}
}

// constKeysTrue: the constant keys that the map value m (a package-level table or a literal)
// is given the value true for; ok is false when m is not such a table.
func constKeysTrue(r *Run, m ssa.Value) (map[string]bool, bool) {
	m = unwrap(m)
	var mk *ssa.MakeMap
	switch x := m.(type) {
	case *ssa.MakeMap:
		mk = x
	case *ssa.UnOp:
		g, ok := x.X.(*ssa.Global)
		if !ok || x.Op != token.MUL {
			return nil, false
		}
		for _, fn := range r.P.Funcs {
			for _, ins := range allInstrs(fn) {
				st, ok := ins.(*ssa.Store)
				if !ok || st.Addr != ssa.Value(g) {
					continue
				}
				if mk != nil {
					return nil, false
				}
				mk, _ = unwrap(st.Val).(*ssa.MakeMap)
				if mk == nil {
					return nil, false
				}
			}
		}
	}
	if mk == nil || mk.Referrers() == nil {
		return nil, false
	}
	out := map[string]bool{}
	for _, ref := range *mk.Referrers() {
		switch x := ref.(type) {
		case *ssa.MapUpdate:
			k, ok1 := x.Key.(*ssa.Const)
			v, ok2 := x.Value.(*ssa.Const)
			if !ok1 || !ok2 || k.Value == nil || v.Value == nil || k.Value.Kind() != constant.String || v.Value.Kind() != constant.Bool {
				return nil, false
			}
			if constant.BoolVal(v.Value) {
				out[constant.StringVal(k.Value)] = true
			}
		case *ssa.Store, *ssa.Lookup, *ssa.DebugRef:
		default:
			if _, isCall := ref.(ssa.CallInstruction); isCall {
				continue // len(), a read-only helper
			}
			return nil, false
		}
	}
	// written anywhere else?
	for _, fn := range r.P.Funcs {
		for _, ins := range allInstrs(fn) {
			if mu, ok := ins.(*ssa.MapUpdate); ok && mu.Map != ssa.Value(mk) {
				if ld, ok := unwrap(mu.Map).(*ssa.UnOp); ok {
					if lm, ok := m.(*ssa.UnOp); ok && ld.X == lm.X {
						return nil, false
					}
				}
			}
		}
	}
	return out, true
}

func (d *decider) classify(in *ssa.Function, v ssa.Value, sense int, depth int) {
	spec, r := d.spec, d.r
	if d.seen[v] || depth > 6 {
		return
	}
	d.seen[v] = true
	short := func(p *types.Package) string { return p.Name() }
	switch c := v.(type) {
	case *ssa.UnOp:
		if c.Op == token.NOT {
			d.classify(in, c.X, -sense, depth+1)
			return
		}
	case *ssa.Phi:
		for _, e := range c.Edges {
			if _, isConst := e.(*ssa.Const); !isConst {
				d.classify(in, e, sense, depth+1)
			}
		}
		return
	case *ssa.Extract:
		switch t := c.Tuple.(type) {
		case *ssa.Next:
			return // loop over a map
		case *ssa.Lookup:
			d.report(in, "presence of an entry in "+types.TypeString(t.X.Type(), short), c.Pos(), "is there an entry for this key", true)
			return
		case *ssa.TypeAssert:
			d.report(in, "dynamic type "+types.TypeString(t.AssertedType, short), c.Pos(), "", false)
			return
		case *ssa.Call:
			d.resultIdx = c.Index
			delete(d.seen, ssa.Value(t)) // each result of the call is a condition of its own
			d.classify(in, t, sense, depth+1)
			d.resultIdx = -1
			return
		}
	case *ssa.Lookup:
		// membership in a set of kinds (`kindsWithMembers[def.Kind]`): the key is of a named
		// enumeration type; the kinds it exempts are those of the table (or the others)
		if mt, ok := c.X.Type().Underlying().(*types.Map); ok && !c.CommaOk {
			if nt, ok := mt.Key().(*types.Named); ok {
				if _, basic := nt.Underlying().(*types.Basic); basic {
					if bt, ok := mt.Elem().Underlying().(*types.Basic); ok && bt.Kind() == types.Bool {
						if keys, ok := constKeysTrue(r, c.X); ok {
							d.kindTest(in, nt, keys, sense, c.Pos())
						} else {
							d.report(in, "membership in a set of kinds whose content the rule cannot read", c.Pos(), "", false)
						}
						return
					}
				}
			}
		}
	case *ssa.Call:
		if b, ok := c.Call.Value.(*ssa.Builtin); ok && b.Name() == "len" {
			return
		}
		name := shortCallee(&c.Call)
		for k, why := range spec.refuted {
			if strings.HasSuffix(name, k) && d.resultIdx <= 0 {
				d.n++
				r.Bad(spec.rule, fnName(in), "condition "+k, r.P.pos(c.Pos()), spec.what+" depends on "+k+": "+why)
				return
			}
		}
		for k, reason := range spec.calls {
			if strings.HasSuffix(name, k) {
				d.exemption(in, k, k, c.Pos(), reason)
				return
			}
		}
		if sc := c.Call.StaticCallee(); sc != nil && inModule(sc) && sc.Blocks != nil && depth < 3 {
			want := d.resultIdx
			d.resultIdx = -1
			if want < 0 && sc.Signature.Results().Len() == 1 {
				want = 0
			}
			if d.conditionsOf(sc, want, sense, depth) {
				return
			}
		}
		d.report(in, calleeDesc(&c.Call), c.Pos(), "", false)
		return
	case *ssa.BinOp:
		if isNilConst(c.X) || isNilConst(c.Y) {
			o := c.X
			if isNilConst(o) {
				o = c.Y
			}
			d.classifyNil(in, c, o, depth)
			return
		}
		if c.Op == token.LSS && len(naturalLoop(c.Block())) > 0 {
			// the test of a counting loop (`for i, x := range list`): the index is a phi of the
			// loop's header; the loop ends when the list does
			isIndex := false
			for _, op := range operandsOf(c) {
				if step, ok := op.(*ssa.BinOp); ok && step.Op == token.ADD {
					if phi, ok := step.X.(*ssa.Phi); ok && phi.Block() == c.Block() {
						isIndex = true
					}
				}
				if phi, ok := op.(*ssa.Phi); ok && phi.Block() == c.Block() {
					isIndex = true
				}
			}
			if isIndex {
				return
			}
		}
		for _, side := range []ssa.Value{c.X, c.Y} {
			k, isConst := side.(*ssa.Const)
			if !isConst || k.Value == nil {
				continue
			}
			if k.Value.Kind() == constant.String {
				if _, plain := k.Type().(*types.Basic); !plain && (c.Op == token.EQL || c.Op == token.NEQ) {
					// a typed constant such as ast.Union: the kind of definition
					s := sense
					if c.Op == token.NEQ {
						s = -s
					}
					d.kindTest(in, k.Type(), map[string]bool{constant.StringVal(k.Value): true}, s, c.Pos())
					return
				}
				if reason, known := spec.strs[constant.StringVal(k.Value)]; known {
					d.exemption(in, constant.StringVal(k.Value), "on the text "+k.Value.ExactString(), c.Pos(), reason)
				} else {
					d.report(in, "on the text "+k.Value.ExactString(), c.Pos(), "", false)
				}
				return
			}
			// a number: a length or a count
			other := c.X
			if other == side {
				other = c.Y
			}
			if call, ok := unwrap(other).(*ssa.Call); ok {
				if b, ok := call.Call.Value.(*ssa.Builtin); ok && b.Name() == "len" {
					if spec.lenOf == nil || spec.lenOf(call.Call.Args[0].Type()) {
						return
					}
					d.report(in, "on the length of a "+types.TypeString(call.Call.Args[0].Type(), short), c.Pos(), "", false)
					return
				}
			}
			if spec.lenOf == nil {
				return
			}
			d.report(in, "on a number", c.Pos(), "", false)
			return
		}
		// the same field of two values, the same predicate on two values
		fx, fy := loadedField(c.X), loadedField(c.Y)
		if fx != "" && fx == fy {
			reason, known := spec.fields[fx]
			d.report(in, "field "+fx+" of both compared", c.Pos(), reason, known)
			return
		}
		cx, okx := unwrap(c.X).(*ssa.Call)
		cy, oky := unwrap(c.Y).(*ssa.Call)
		if okx && oky && cx.Call.StaticCallee() != nil && cx.Call.StaticCallee() == cy.Call.StaticCallee() {
			name := fnName(cx.Call.StaticCallee())
			for k, reason := range spec.calls {
				if strings.HasSuffix(name, k) {
					d.report(in, k+" of both compared", c.Pos(), reason, true)
					return
				}
			}
			d.report(in, name+" of both compared", c.Pos(), "", false)
			return
		}
		if bt, ok := c.X.Type().Underlying().(*types.Basic); ok && bt.Info()&types.IsInteger != 0 {
			if spec.lenOf == nil {
				return
			}
			d.report(in, "a comparison of two numbers (lengths, counts)", c.Pos(), "", false)
			return
		}
	}
	if ins, ok := v.(ssa.Instruction); ok {
		d.report(in, "of an unrecognised form ("+v.String()+")", ins.Pos(), "", false)
	} else {
		d.report(in, "of an unrecognised form ("+v.Name()+")", in.Pos(), "", false)
	}
}

// loadedField: v is `*(&x.F)` or `x.F`: the name of F.
func loadedField(v ssa.Value) string {
	switch x := unwrap(v).(type) {
	case *ssa.UnOp:
		if x.Op == token.MUL {
			if fa, ok := x.X.(*ssa.FieldAddr); ok && fieldOf(fa) != nil {
				return fieldOf(fa).Name()
			}
		}
	case *ssa.Field:
		if f := fieldOfVal(x); f != nil {
			return f.Name()
		}
	}
	return ""
}

// classifyNil: a comparison with nil. What is nil decides what the test means: the entry of a
// map that was looked up (presence), the error of a call (the call failed: its own conditions),
// or a field or parameter of the input (a condition on the data like any other).
func (d *decider) classifyNil(in *ssa.Function, c *ssa.BinOp, o ssa.Value, depth int) {
	short := func(p *types.Package) string { return p.Name() }
	seen := map[ssa.Value]bool{}
	var walk func(o ssa.Value)
	walk = func(o ssa.Value) {
		o = viaCell(unwrap(o))
		if seen[o] {
			return
		}
		seen[o] = true
		switch x := o.(type) {
		case *ssa.Const:
			return
		case *ssa.Lookup:
			d.report(in, "presence of an entry in "+types.TypeString(x.X.Type(), short), c.Pos(), "is there an entry for this key", true)
		case *ssa.Phi:
			for _, e := range x.Edges {
				walk(e)
			}
		case *ssa.Extract:
			switch t := x.Tuple.(type) {
			case *ssa.Lookup:
				d.report(in, "presence of an entry in "+types.TypeString(t.X.Type(), short), c.Pos(), "is there an entry for this key", true)
			case *ssa.Call:
				d.resultIdx = x.Index
				delete(d.seen, ssa.Value(t))
				d.classify(in, t, 0, depth+1)
				d.resultIdx = -1
			default:
				d.report(in, "whether "+x.Name()+" is nil", c.Pos(), "", false)
			}
		case *ssa.Call:
			delete(d.seen, ssa.Value(x))
			d.classify(in, x, 0, depth+1)
		case *ssa.Parameter:
			d.report(in, "whether the parameter "+x.Name()+" is nil", c.Pos(), "", false)
		default:
			if f := loadedField(o); f != "" {
				d.report(in, "whether the field "+f+" is nil", c.Pos(), "", false)
				return
			}
			d.report(in, "whether "+o.Name()+" is nil", c.Pos(), "", false)
		}
	}
	walk(o)
}

type decidingBranch struct {
	iff    *ssa.If
	exempt int // the successor from which the target is not reached (or can be avoided while it cannot from the other)
}

// decidingBranches: the branches of fn that decide whether one of the target blocks is reached
// within the current round of the loop they stand in: from one side a target can be reached and
// from the other not, or it can be avoided from one side and not from the other.
func decidingBranches(fn *ssa.Function, isTarget map[*ssa.BasicBlock]bool) []decidingBranch {
	var out []decidingBranch
	for _, b := range fn.Blocks {
		iff, ok := b.Instrs[len(b.Instrs)-1].(*ssa.If)
		if !ok {
			continue
		}
		// a branch that comes after every target on its paths decides nothing about them
		loop := innermostLoop(b)
		var header *ssa.BasicBlock
		for lb := range loop {
			for _, p := range lb.Preds {
				if !loop[p] {
					header = lb
				}
			}
		}
		reach := func(from *ssa.BasicBlock) bool {
			seen := map[*ssa.BasicBlock]bool{}
			var walk func(b *ssa.BasicBlock) bool
			walk = func(b *ssa.BasicBlock) bool {
				if isTarget[b] {
					return true
				}
				if seen[b] || (header != nil && b == header) {
					return false
				}
				seen[b] = true
				for _, s := range b.Succs {
					if walk(s) {
						return true
					}
				}
				return false
			}
			return walk(from)
		}
		avoid := func(from *ssa.BasicBlock) bool {
			seen := map[*ssa.BasicBlock]bool{}
			var walk func(b *ssa.BasicBlock) bool
			walk = func(b *ssa.BasicBlock) bool {
				if isTarget[b] || seen[b] {
					return false
				}
				if (header != nil && b == header) || len(b.Succs) == 0 {
					return true
				}
				seen[b] = true
				for _, s := range b.Succs {
					if walk(s) {
						return true
					}
				}
				return false
			}
			return walk(from)
		}
		s0, s1 := b.Succs[0], b.Succs[1]
		r0, r1, a0, a1 := reach(s0), reach(s1), avoid(s0), avoid(s1)
		if r0 == r1 && a0 == a1 {
			continue
		}
		br := decidingBranch{iff, -1}
		switch {
		case r0 != r1 && !r0:
			br.exempt = 0
		case r0 != r1 && !r1:
			br.exempt = 1
		case a0:
			br.exempt = 0
		default:
			br.exempt = 1
		}
		out = append(out, br)
	}
	return out
}

// refuses: every path from block b ends in the return of an error that is not nil, and none
// reaches a target.
func refuses(b *ssa.BasicBlock, isTarget map[*ssa.BasicBlock]bool) bool {
	fn := b.Parent()
	res := fn.Signature.Results()
	if res.Len() == 0 || !isErrorish(res.At(res.Len()-1).Type()) {
		return false
	}
	seen := map[*ssa.BasicBlock]bool{}
	var walk func(b *ssa.BasicBlock) bool
	walk = func(b *ssa.BasicBlock) bool {
		if isTarget[b] {
			return false
		}
		if seen[b] {
			return true
		}
		seen[b] = true
		if ret, ok := b.Instrs[len(b.Instrs)-1].(*ssa.Return); ok {
			vals := retVals(ret)
			return len(vals) > 0 && notNilAt(vals[len(vals)-1], b)
		}
		for _, s := range b.Succs {
			if !walk(s) {
				return false
			}
		}
		return true
	}
	return walk(b)
}

// notNilAt: the error value v is known not to be nil in block b: it is made there (errors.New,
// fmt.Errorf, a value put into the interface), or b lies on the not-nil side of a test of v.
func notNilAt(v ssa.Value, b *ssa.BasicBlock) bool {
	switch x := v.(type) {
	case *ssa.MakeInterface:
		return true
	case *ssa.Const:
		return false
	case *ssa.Call:
		switch calleeName(&x.Call) {
		case "fmt.Errorf", "errors.New":
			return true
		}
	}
	for _, blk := range b.Parent().Blocks {
		iff, ok := blk.Instrs[len(blk.Instrs)-1].(*ssa.If)
		if !ok {
			continue
		}
		bo, ok := iff.Cond.(*ssa.BinOp)
		if !ok || (bo.Op != token.NEQ && bo.Op != token.EQL) {
			continue
		}
		if !(bo.X == v && isNilConst(bo.Y)) && !(bo.Y == v && isNilConst(bo.X)) {
			continue
		}
		side := blk.Succs[0]
		if bo.Op == token.EQL {
			side = blk.Succs[1]
		}
		if len(side.Preds) == 1 && (side == b || side.Dominates(b)) {
			return true
		}
	}
	return false
}

func callTo(suffixes ...string) func(r *Run, ci ssa.CallInstruction) bool {
	return func(r *Run, ci ssa.CallInstruction) bool {
		n := shortCallee(ci.Common())
		for _, s := range suffixes {
			if strings.HasSuffix(n, s) {
				return true
			}
		}
		return false
	}
}

// R13o.exempt — mergeTypes: which pairs of declarations are merged field by field.
//
// The two Node entries: the reason they were confirmed under ("the Node interface is the same
// everywhere by construction") was false — nothing made it so, and two services could declare
// different Node interfaces (fifth audit). Since repair f3eef47 mergeTypes compares the fields
// of the two Node declarations (lo.Difference over their signatures) and refuses a difference
// before it skips the pair; the entry now demands that comparison on the skipping side. The
// same holds for unions (member lists compared before the skip).
var ruleMergeExemptions = ruleDeciding(decideSpec{
	rule:   "R13o.exempt",
	anchor: "merger.mergeTypes",
	target: callTo("merger.mergeCustomObjects", "merger.mergeRootObjects"),
	calls: map[string]string{
		"common.IsBuiltinName":             "built-in names are the gateway's own",
		"common.IsRootObjectName":          "root types are merged by mergeRootObjects (both calls are targets)",
		"common.IsNodeInterfaceName":       "the two declarations of the Node interface are compared field by field just before the skip and a difference is refused (repair f3eef47; the comparison itself is R13o's members-compared obligation)",
		"merger.isImplementsNodeInterface": "a type is a Node type in all services or in none: the difference is an error",
	},
	strs: map[string]string{
		"Node": "the two declarations of the Node interface are compared field by field just before the skip and a difference is refused (repair f3eef47; the comparison itself is R13o's members-compared obligation)",
	},
	kinds: map[string]string{
		"SCALAR": "a scalar has no fields or members to compare: the later declaration takes the place of the earlier",
		"UNION":  "the member lists of the two declarations are compared before the skip and a difference is refused (R13o's members-compared obligation)",
	},
	passes: map[string]string{
		"Node":                       "lo.Difference",
		"common.IsNodeInterfaceName": "lo.Difference",
		"UNION":                      "lo.Difference",
	},
	fields: map[string]string{
		"Kind": "declarations of different kinds are refused",
	},
	lenOf:   func(t types.Type) bool { return false }, // no pair is exempted for the size of anything
	what:    "whether the two declarations of a shared type are compared field by field",
	effect:  "a pair of declarations for which it decides against the comparison is accepted unseen — overlapping fields of a Node type, conflicting field types — and which service a field is routed to then depends on the order in which the services are listed",
	minimum: 3,
})

// R13d.lookup — PlanningContext.GetURL: when the routing table is consulted. The test on
// GetTypeIsImplementsNode (fields of a type that is known but not a Node type stay with the
// enclosing step's service, whatever the table says) is NOT a confirmed exemption: the merge
// accepts a plain type that two services declare with disjoint fields, and a field of the
// second declaration selected under the first service's object is then sent to a service that
// does not declare it (fifth audit, known finding F52).
var ruleRouteLookupExemptions = ruleDeciding(decideSpec{
	rule:   "R13d.lookup",
	anchor: "planner.(*PlanningContext).GetURL",
	target: callTo("merger.(TypeURLMap).Get"),
	calls: map[string]string{
		"common.IsBuiltinName":    "introspection names are answered by the gateway itself",
		"common.IsRootObjectName": "fields of root types are always looked up",
	},
	refuted: map[string]string{
		"merger.(TypeURLMap).GetTypeIsImplementsNode": "every field of a type that is known but not a Node type is left with the enclosing step's service without a look at the routing table; the merge accepts a plain type that two services declare with disjoint fields, so a field of the other declaration is sent to a service that does not declare it and never reaches its owner",
	},
	strs: map[string]string{
		"%#!": "the internal pseudo-service is never a fallback for a real field",
	},
	what:    "whether the owner of a field is looked up in the routing table",
	effect:  "a field for which it decides against the lookup is left with the enclosing step's service, whether or not that service declares it — a root field called id, for instance, is sent to the internal pseudo-service and never reaches the service that owns it",
	minimum: 3,
})

// R13d.routed — TypeURLMap.SetFromSchema: which fields of which definitions get a route. The
// branch conditions on the way to the route write are R13d.exempt's; this instance adds what
// that rule does not follow: the lists the loops range over (a helper that hands back "the
// routable fields" of a definition decides as much as a `continue` in the loop does).
var ruleRoutedFields = ruleDeciding(decideSpec{
	rule:   "R13d.routed",
	anchor: "merger.(TypeURLMap).SetFromSchema",
	target: callTo("merger.(TypeURLMap).Set"),
	calls: map[string]string{
		"common.IsBuiltinName":     "introspection names are answered by the gateway itself",
		"common.IsQueryObjectName": "scope of the node-lookup exemption (R13d.scope)",
		"merger.isNodeField":       "the relay lookup `node` of Query is planned by the gateway itself (R13d.sig, R13d.scope)",
	},
	kinds: map[string]string{
		"SCALAR":       "only object types have fields that are routed",
		"ENUM":         "only object types have fields that are routed",
		"INPUT_OBJECT": "only object types have fields that are routed",
		"UNION":        "only object types have fields that are routed (members are object types with routes of their own)",
		"INTERFACE":    "only object types have fields that are routed (implementations are object types with routes of their own)",
	},
	what:    "whether a field of a definition is given a route",
	effect:  "a field for which it decides against the route stays in the gateway's schema without one — every `id: ID!`, for instance, root fields called id included, when the list of a type's fields is filtered by the relay-id predicate before the routing loop sees it",
	minimum: 3,
})

// R12d.cond — setIMap: which requests of a batch are de-duplicated.
var ruleDedupConditions = ruleDeciding(decideSpec{
	rule:   "R12d.cond",
	anchor: "executor.(*DepthExecutor).setIMap",
	target: func(r *Run, ci ssa.CallInstruction) bool {
		c := ci.Common()
		return strings.HasSuffix(shortCallee(c), "indexMap).Set") && len(c.Args) > 0
	},
	// the de-duplicating Set: its key is made of the id and the query, not of the position (the
	// other key of the function is strconv.Itoa(index))
	choice: func(ci ssa.CallInstruction) ssa.Value {
		a := ci.Common().Args
		return a[len(a)-1]
	},
	plain: func(v ssa.Value) bool {
		k, ok := unwrap(v).(*ssa.Call)
		return ok && strings.HasSuffix(calleeName(&k.Call), "strconv.Itoa")
	},
	calls: map[string]string{
		"common.IsRootObjectName": "child steps (lookups by id) are de-duplicated, root steps are sent as they are",
	},
	lenOf: func(t types.Type) bool {
		_, isMap := t.Underlying().(*types.Map)
		return isMap // the variables of the request: the id and nothing else
	},
	what:    "whether a lookup is de-duplicated within its batch",
	effect:  "lookups for which it decides against de-duplication are sent once per place that refers to the entity: the size of a batch follows the result instead of the set of distinct entities (C12), and no test of the planner's real steps notices",
	minimum: 2,
})

// shortCallee: the callee's name in the short form used by the tables (pkg.(Recv).Name for
// functions of the module), without type arguments.
func shortCallee(c *ssa.CallCommon) string {
	if sc := c.StaticCallee(); sc != nil && inModule(sc) {
		return strings.SplitN(fnName(sc), "[", 2)[0]
	}
	return strings.SplitN(calleeName(c), "[", 2)[0]
}
