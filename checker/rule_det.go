package main

// R9 — DET: order independence (DESIGN §3 R9).
//  R9a every `range` over a map is order-insensitive by a recognised pattern (K keyed write,
//      SET idempotent insert, AS append-then-total-sort, RO no effects) or by a frozen table
//      entry with its reason
//  R9b every AsyncMapReduce reducer is positional, append-then-sort by carried index, or a
//      tabled multiset consumer
//  R9c multi-way selects and wall-clock/random sources

import (
	"fmt"
	"go/token"
	"go/types"
	"sort"
	"strings"

	"golang.org/x/tools/go/ssa"
)

type mapLoop struct {
	fn     *ssa.Function
	rng    *ssa.Range
	next   *ssa.Next
	key    ssa.Value
	val    ssa.Value
	blocks map[*ssa.BasicBlock]bool // loop blocks (header included)
	kinds  []string                 // normalised kinds of the order-sensitive effects found (for tabled loops)
	hdr    *ssa.BasicBlock          // header block (slice loops)
	idxPhi *ssa.Phi                 // induction variable (slice loops)
	kindFn map[string]*ssa.Function // module callee behind a "call:…" kind
}

func mapLoops(fn *ssa.Function) []*mapLoop {
	var out []*mapLoop
	for _, ins := range allInstrs(fn) {
		rg, ok := ins.(*ssa.Range)
		if !ok {
			continue
		}
		if _, isMap := rg.X.Type().Underlying().(*types.Map); !isMap {
			continue
		}
		for _, ref := range *rg.Referrers() {
			nx, ok := ref.(*ssa.Next)
			if !ok {
				continue
			}
			l := &mapLoop{fn: fn, rng: rg, next: nx, blocks: naturalLoop(nx.Block())}
			for _, r2 := range *nx.Referrers() {
				if ex, ok := r2.(*ssa.Extract); ok {
					if ex.Index == 1 {
						l.key = ex
					} else if ex.Index == 2 {
						l.val = ex
					}
				}
			}
			out = append(out, l)
		}
	}
	return out
}

func (l *mapLoop) isNormalExit(b *ssa.BasicBlock) bool {
	if l.next != nil {
		return b == l.next.Block()
	}
	return b == l.hdr
}

func isSortCall(c *ssa.CallCommon) (kind string, ok bool) {
	switch calleeName(c) {
	case "sort.Strings", "sort.Ints", "sort.Float64s", "slices.Sort":
		return "total", true
	case "sort.Slice", "sort.SliceStable", "slices.SortFunc", "slices.SortStableFunc":
		return "less", true
	case "sort.Sort", "sort.Stable":
		return "iface", true
	}
	return "", false
}

// sortKeys: what makes two execution requests different requests. A comparator that ignores one
// of them leaves requests that differ only there in their arrival order (second table audit:
// two inline-fragment steps of one service at one object tied until the query was compared).
var sortKeys = []struct{ fields, why string }{
	{"ExecutionRequest.InsertionPoint", "the realized insertion point of the request (the object the answer is merged at, and the id which is sent) — not the step's declared point, which all list elements of a step share"},
	{"QueryPlanStep.URL", "the service"},
	{"QueryPlanStep.QueryString|QueryPlanStep.QueryStringHash", "what is asked (two steps of one service at one object, e.g. inline fragments of an abstract type, differ in nothing else)"},
}

func (r *Run) missingSortKeys(v ssa.Value) []string {
	fs, unk := r.P.CG.funcValues(v, map[ssa.Value]bool{})
	if unk != "" || len(fs) != 1 {
		return nil
	}
	read := map[string]bool{}
	seen := map[*ssa.Function]bool{}
	var walk func(fn *ssa.Function, depth int)
	walk = func(fn *ssa.Function, depth int) {
		if fn == nil || seen[fn] || depth > 3 || len(fn.Blocks) == 0 {
			return
		}
		seen[fn] = true
		for _, ins := range allInstrs(fn) {
			switch x := ins.(type) {
			case *ssa.FieldAddr:
				if f := fieldOf(x); f != nil {
					n := namedOf(x.X.Type())
					read[n[strings.LastIndex(n, ".")+1:]+"."+f.Name()] = true
				}
			case *ssa.Field:
				if st, ok := x.X.Type().Underlying().(*types.Struct); ok {
					n := namedOf(x.X.Type())
					read[n[strings.LastIndex(n, ".")+1:]+"."+st.Field(x.Field).Name()] = true
				}
			case ssa.CallInstruction:
				if callee := x.Common().StaticCallee(); callee != nil && inModule(callee) {
					walk(callee, depth+1)
				}
			}
		}
		for _, an := range fn.AnonFuncs {
			walk(an, depth+1)
		}
	}
	walk(fs[0], 0)
	var missing []string
	for _, k := range sortKeys {
		ok := false
		for _, f := range strings.Split(k.fields, "|") {
			ok = ok || read[f]
		}
		if !ok {
			missing = append(missing, k.why)
		}
	}
	return missing
}

// totalLess: the comparator never gives up — every return is the result of a comparison
// (or of a call), not a constant.
func (r *Run) totalLess(v ssa.Value) (bool, string) {
	fs, unk := r.P.CG.funcValues(v, map[ssa.Value]bool{})
	if unk != "" || len(fs) != 1 {
		return false, "comparator is not a literal of this module"
	}
	for _, ret := range returnsOf(fs[0]) {
		if reachedOnlyOnEquality(ret.Block()) {
			continue // `return false` after every key compared equal: what a strict order must answer
		}
		for _, res := range retVals(ret) {
			if c, ok := res.(*ssa.Const); ok {
				return false, fmt.Sprintf("comparator %s returns the constant %s on some path without comparing its elements (at %s): elements it cannot compare keep their map-iteration order", fnName(fs[0]), c.Value, r.P.pos(retPos(ret)))
			}
			if p, ok := res.(*ssa.Phi); ok {
				for _, e := range p.Edges {
					if c, ok := e.(*ssa.Const); ok {
						return false, fmt.Sprintf("comparator %s yields the constant %s on some path without comparing its elements (at %s): elements it cannot compare keep their map-iteration order", fnName(fs[0]), c.Value, r.P.pos(retPos(ret)))
					}
				}
			}
		}
	}
	return true, ""
}

// classify returns the class of a map loop and an argument, or "" when no pattern applies.
func (r *Run) classifyMapLoop(l *mapLoop) (class, arg string) {
	fn := l.fn
	inLoop := func(i ssa.Instruction) bool { return l.blocks[i.Block()] }
	var appendsTo []ssa.Value // accumulators (phi or cell) appended to inside the loop
	effects := 0
	var why []string
	l.kinds = nil
	bad := func(s string) { why = append(why, s) }
	kind := func(k string) { l.kinds = append(l.kinds, k) }
	keyDep := func(v ssa.Value) bool { return l.key != nil && dependsOnThroughMem(v, l.key) }
	for b := range l.blocks {
		for _, ins := range b.Instrs {
			switch x := ins.(type) {
			case *ssa.MapUpdate:
				effects++
				if keyDep(x.Key) {
					continue // K
				}
				if c, ok := unwrap(x.Value).(*ssa.Const); ok && c != nil {
					continue // SET: idempotent insert of a constant
				}
				if _, ok := unwrap(x.Value).(*ssa.Alloc); ok && isEmptyStruct(x.Value.Type()) {
					continue
				}
				if isEmptyStruct(x.Value.Type()) {
					continue
				}
				kind("mapwrite-unkeyed")
				bad("map write at " + r.P.pos(x.Pos()) + " whose key does not derive from the loop key (last writer wins)")
			case *ssa.Store:
				// stores into fresh allocations made inside the loop are construction
				root := x.Addr
				for {
					if fa, ok := root.(*ssa.FieldAddr); ok {
						root = fa.X
						continue
					}
					if ia, ok := root.(*ssa.IndexAddr); ok {
						root = ia.X
						continue
					}
					break
				}
				if al, ok := root.(*ssa.Alloc); ok && l.blocks[al.Block()] {
					continue
				}
				if al, ok := root.(*ssa.Alloc); ok && !al.Heap {
					// non-escaping local cell: treat like a lifted variable
					if c, isCall := x.Val.(*ssa.Call); isCall {
						if bi, isB := c.Call.Value.(*ssa.Builtin); isB && bi.Name() == "append" {
							appendsTo = append(appendsTo, al)
							effects++
							continue
						}
					}
				}
				if al, ok := root.(*ssa.Alloc); ok {
					if c, isCall := x.Val.(*ssa.Call); isCall {
						if bi, isB := c.Call.Value.(*ssa.Builtin); isB && bi.Name() == "append" {
							appendsTo = append(appendsTo, al)
							effects++
							continue
						}
					}
				}
				effects++
				kind("store")
				bad("store at " + r.P.pos(x.Pos()) + " to memory that outlives the iteration")
			case *ssa.Send:
				effects++
				kind("send")
				bad("channel send at " + r.P.pos(x.Pos()))
			case *ssa.Go:
				effects++
				kind("go")
				bad("goroutine spawned at " + r.P.pos(x.Pos()))
			case *ssa.Return:
				effects++
				kind("return")
				bad("return inside the loop at " + r.P.pos(retPos(x)) + " (which iteration exits first depends on map order)")
			case *ssa.Call:
				if bi, ok := x.Call.Value.(*ssa.Builtin); ok {
					switch bi.Name() {
					case "append":
						// accumulates into a lifted variable: find the header phi it feeds
						for _, ref := range *x.Referrers() {
							if p, ok := ref.(*ssa.Phi); ok && l.blocks[p.Block()] {
								appendsTo = append(appendsTo, p)
								effects++
							}
						}
					case "delete":
						effects++
						if !keyDep(x.Call.Args[1]) {
							kind("delete-unkeyed")
							bad("delete at " + r.P.pos(x.Pos()) + " with a key not derived from the loop key")
						}
					}
					continue
				}
				if isPureCall(&x.Call) || r.pureCallee(x) {
					continue
				}
				if r.entryLocalCall(x, l) {
					effects++
					continue // effects confined to the objects of this entry (class K by extension)
				}
				effects++
				if sc := x.Call.StaticCallee(); sc != nil && origin(sc) == origin(l.fn) {
					// the loop's own function, called for the children of the element (recursion
					// over a tree): the effects are those of this loop again, under whatever
					// name the function goes by
					kind(selfRecursionKind)
					bad("call of " + calleeDesc(&x.Call) + " at " + r.P.pos(x.Pos()) + " (the function calls itself) whose effects are not summarised")
					continue
				}
				kind("call:" + calleeDesc(&x.Call))
				if sc := x.Call.StaticCallee(); sc != nil && inModule(sc) && sc.Blocks != nil {
					if l.kindFn == nil {
						l.kindFn = map[string]*ssa.Function{}
					}
					l.kindFn["call:"+calleeDesc(&x.Call)] = sc
				}
				bad("call of " + calleeDesc(&x.Call) + " at " + r.P.pos(x.Pos()) + " whose effects are not summarised")
			}
		}
	}
	// exits other than the iterator running out: break / return / goto out of the loop
	for b := range l.blocks {
		for _, s := range b.Succs {
			if !l.blocks[s] && !l.isNormalExit(b) {
				effects++
				kind("early-exit")
				bad("early exit from the loop at " + r.P.pos(firstPos(s)) + " (which iteration exits first depends on map order)")
			}
		}
	}
	// loop-carried scalars other than appended slices: phis in loop blocks
	for b := range l.blocks {
		for _, ins := range b.Instrs {
			p, ok := ins.(*ssa.Phi)
			if !ok {
				continue
			}
			if l.idxPhi != nil && p == l.idxPhi {
				continue
			}
			isAcc := false
			for _, a := range appendsTo {
				if a == ssa.Value(p) {
					isAcc = true
				}
			}
			if isAcc {
				continue
			}
			// does the phi carry a value around the loop? Only a phi at the head of a loop
			// (this one or a nested one) does; a phi elsewhere joins the branches of one
			// iteration (`if a { x, err = f() } else { x, err = g() }`) — what it joins is
			// looked at where it comes from (a header phi it merges is examined itself)
			if len(naturalLoop(p.Block())) == 0 {
				continue
			}
			carried := false
			for i, e := range p.Edges {
				if l.blocks[p.Block().Preds[i]] && e != ssa.Value(p) {
					carried = true
				}
			}
			if !carried {
				continue
			}
			// is it used after the loop or inside? if unused outside, ignore
			usedOutside := false
			for _, ref := range *p.Referrers() {
				if !inLoop(ref) {
					usedOutside = true
				}
				if ph, ok := ref.(*ssa.Phi); ok && !l.blocks[ph.Block()] {
					usedOutside = true
				}
			}
			if !usedOutside && !phiFeedsOutside(p, l.blocks) {
				continue
			}
			effects++
			if commutativeAccumulator(p, l.blocks) {
				continue
			}
			kind("carried:" + shortType(p.Type()))
			bad("loop-carried value " + p.Name() + " (" + shortType(p.Type()) + ") updated in a way not recognised as commutative")
		}
	}
	if len(why) > 0 {
		return "", strings.Join(why, "; ")
	}
	if len(appendsTo) > 0 {
		// AS: every accumulator must be sorted after the loop before any other use
		for _, acc := range appendsTo {
			ok, msg := r.sortedAfter(acc, l)
			if !ok {
				kind("append-unsorted")
				return "", msg
			}
		}
		return "AS", "elements are appended in map order and then sorted by a total order before any other use"
	}
	if effects == 0 {
		return "RO", "the loop body has no effect that outlives an iteration"
	}
	_ = fn
	return "K", "every effect is a map write/delete keyed by the loop key, an idempotent set insert, or a commutative accumulation"
}

func phiFeedsOutside(p *ssa.Phi, blocks map[*ssa.BasicBlock]bool) bool {
	seen := map[ssa.Value]bool{}
	var f func(v ssa.Value) bool
	f = func(v ssa.Value) bool {
		if seen[v] {
			return false
		}
		seen[v] = true
		refs := v.Referrers()
		if refs == nil {
			return false
		}
		for _, ref := range *refs {
			if !blocks[ref.Block()] {
				return true
			}
			if val, ok := ref.(ssa.Value); ok {
				if f(val) {
					return true
				}
			}
		}
		return false
	}
	return f(p)
}

func isEmptyStruct(t types.Type) bool {
	st, ok := t.Underlying().(*types.Struct)
	return ok && st.NumFields() == 0
}

// commutativeAccumulator: p = phi[init, f(p, x)] with f in {||, &&, +, max via conditional, or constant set}.
func commutativeAccumulator(p *ssa.Phi, blocks map[*ssa.BasicBlock]bool) bool {
	for i, e := range p.Edges {
		if !blocks[p.Block().Preds[i]] {
			continue
		}
		if commutativeUpdate(e, p, blocks, 0) {
			continue
		}
		if !dependsOn(e, p) && guardedByCompareWith(p.Block().Preds[i], e, p) {
			continue // max/min written as `if x > acc { acc = x }`
		}
		return false
	}
	return true
}

// guardedByCompareWith: walking up single-predecessor chains from b, is there an If that
// compares v with acc (max/min), or whose condition is acc itself (|| / && short circuit)?
func guardedByCompareWith(b *ssa.BasicBlock, v ssa.Value, acc ssa.Value) bool {
	for i := 0; i < 4 && b != nil; i++ {
		if iff, ok := b.Instrs[len(b.Instrs)-1].(*ssa.If); ok {
			if iff.Cond == acc {
				return true
			}
			if bo, ok := iff.Cond.(*ssa.BinOp); ok {
				switch bo.Op {
				case token.GTR, token.LSS, token.GEQ, token.LEQ:
					if (bo.X == v && bo.Y == acc) || (bo.Y == v && bo.X == acc) {
						return true
					}
				}
			}
		}
		if len(b.Preds) == 1 {
			b = b.Preds[0]
		} else {
			b = nil
		}
	}
	return false
}

func commutativeUpdate(e ssa.Value, acc *ssa.Phi, blocks map[*ssa.BasicBlock]bool, depth int) bool {
	if depth > 4 {
		return false
	}
	if e == ssa.Value(acc) {
		return true
	}
	switch x := e.(type) {
	case *ssa.Const:
		return true // acc = true / acc = constant: idempotent
	case *ssa.BinOp:
		switch x.Op {
		case token.ADD, token.OR, token.AND, token.LOR, token.LAND, token.MUL:
			return (x.X == ssa.Value(acc) && !dependsOn(x.Y, acc)) || (x.Y == ssa.Value(acc) && !dependsOn(x.X, acc))
		}
	case *ssa.Phi:
		// conditional update: acc = cond ? new : acc   (max/min/flag)
		for _, e2 := range x.Edges {
			if e2 == ssa.Value(acc) {
				continue
			}
			if c, ok := e2.(*ssa.Const); ok && c != nil {
				continue
			}
			// max/min: the new value is compared with acc in the controlling If;
			// short-circuit ||/&&: the controlling If tests acc itself
			if isMaxMinUpdate(x, e2, acc) {
				continue
			}
			if !dependsOn(e2, acc) {
				ctl := false
				for _, pb := range x.Block().Preds {
					if guardedByCompareWith(pb, e2, acc) {
						ctl = true
					}
				}
				if ctl {
					continue
				}
			}
			if !commutativeUpdate(e2, acc, blocks, depth+1) {
				return false
			}
		}
		return true
	}
	return false
}

// isMaxMinUpdate: phi(acc, v) controlled by `v > acc` / `v < acc`.
func isMaxMinUpdate(p *ssa.Phi, v ssa.Value, acc *ssa.Phi) bool {
	for _, pred := range p.Block().Preds {
		b := pred
		for i := 0; i < 3 && b != nil; i++ {
			if iff, ok := b.Instrs[len(b.Instrs)-1].(*ssa.If); ok {
				if bo, ok := iff.Cond.(*ssa.BinOp); ok {
					switch bo.Op {
					case token.GTR, token.LSS, token.GEQ, token.LEQ:
						if (bo.X == v && bo.Y == ssa.Value(acc)) || (bo.Y == v && bo.X == ssa.Value(acc)) {
							return true
						}
					}
				}
			}
			if len(b.Preds) == 1 {
				b = b.Preds[0]
			} else {
				b = nil
			}
		}
	}
	return false
}

var pureFuncs = map[string]bool{
	"fmt.Sprintf": true, "fmt.Errorf": true, "errors.New": true, "strings.Join": true, "strings.Split": true,
	"strings.HasPrefix": true, "strings.Contains": true, "strings.Compare": true, "strconv.Itoa": true,
	"(time.Time).Before": true, "(time.Time).After": true,
}

func isPureCall(c *ssa.CallCommon) bool { return isPureCallD(c, map[*ssa.Function]bool{}) }

func isPureCallD(c *ssa.CallCommon, seen map[*ssa.Function]bool) bool {
	n := calleeName(c)
	if pureFuncs[n] {
		return true
	}
	// lo helpers that only read their arguments — and whose callbacks do nothing else either
	// (second table audit: the callback was not looked at)
	if strings.HasPrefix(n, "github.com/samber/lo.") {
		switch strings.TrimPrefix(strings.SplitN(n, "[", 2)[0], "github.com/samber/lo.") {
		case "Contains", "ContainsBy", "Uniq", "UniqBy", "Map", "Filter", "Difference":
			for _, a := range c.Args {
				if _, isSig := a.Type().Underlying().(*types.Signature); !isSig {
					continue
				}
				var f *ssa.Function
				switch x := a.(type) {
				case *ssa.MakeClosure:
					f, _ = x.Fn.(*ssa.Function)
				case *ssa.Function:
					f = x
				}
				if f == nil || !effectFree(f, seen) {
					return false
				}
			}
			return true
		}
	}
	sc := c.StaticCallee()
	// read-only methods of gqlparser lists are summarised by name; a function of this module
	// with such a name is looked into
	if strings.HasSuffix(n, ").ForName") || strings.HasSuffix(n, ".Name") || strings.HasSuffix(n, ").String") {
		if sc != nil && inModule(sc) {
			return effectFree(sc, seen)
		}
		return true
	}
	if strings.HasPrefix(n, modPath+"/common.Is") {
		return sc != nil && effectFree(sc, seen)
	}
	switch n {
	case modPath + "/merger.isNodeField", modPath + "/merger.isIDField", modPath + "/merger.isImplementsNodeInterface":
		return sc != nil && effectFree(sc, seen)
	}
	return false
}

// effectFree: the function writes only to memory it allocated itself, starts nothing, sends
// nothing, and calls only pure functions.
func effectFree(f *ssa.Function, seen map[*ssa.Function]bool) bool {
	if f == nil || f.Blocks == nil {
		return false
	}
	if seen[f] {
		return true
	}
	seen[f] = true
	localRoot := func(v ssa.Value) bool {
		for {
			switch x := v.(type) {
			case *ssa.FieldAddr:
				v = x.X
				continue
			case *ssa.IndexAddr:
				v = x.X
				continue
			case *ssa.Alloc:
				return x.Parent() == f
			case *ssa.MakeMap, *ssa.MakeSlice:
				return true
			}
			return false
		}
	}
	for _, ins := range allInstrs(f) {
		switch x := ins.(type) {
		case *ssa.Store:
			if !localRoot(x.Addr) {
				return false
			}
		case *ssa.MapUpdate:
			if !localRoot(x.Map) {
				return false
			}
		case *ssa.Send, *ssa.Go, *ssa.Defer, *ssa.Select, *ssa.Panic:
			return false
		case *ssa.Call:
			if b, ok := x.Call.Value.(*ssa.Builtin); ok {
				switch b.Name() {
				case "len", "cap", "append", "copy", "min", "max":
					continue
				}
				return false
			}
			if !isPureCallD(&x.Call, seen) {
				return false
			}
		}
	}
	return true
}

// sortedAfter: after the loop, the accumulator is passed to a total sort before any other use.
func (r *Run) sortedAfter(acc ssa.Value, l *mapLoop) (bool, string) {
	fn := l.fn
	var sorts []ssa.CallInstruction
	var otherUses []ssa.Instruction
	var consider func(v ssa.Value, ins ssa.Instruction)
	consider = func(v ssa.Value, ins ssa.Instruction) {
		if l.blocks[ins.Block()] {
			return
		}
		// sort.Slice takes the slice as `any`: look through the conversion
		if mi, ok := ins.(*ssa.MakeInterface); ok {
			for _, ref := range *mi.Referrers() {
				consider(mi, ref)
			}
			return
		}
		if ci, ok := ins.(ssa.CallInstruction); ok {
			if kind, isSort := isSortCall(ci.Common()); isSort && len(ci.Common().Args) > 0 && (unwrap(ci.Common().Args[0]) == v || ci.Common().Args[0] == v) {
				if kind == "less" {
					if ok, why := r.totalLess(ci.Common().Args[1]); !ok {
						otherUses = append(otherUses, ins)
						r.Notes = append(r.Notes, why)
						return
					}
				}
				sorts = append(sorts, ci)
				return
			}
		}
		if _, ok := ins.(*ssa.DebugRef); ok {
			return
		}
		otherUses = append(otherUses, ins)
	}
	switch a := acc.(type) {
	case *ssa.Phi:
		for _, ref := range *a.Referrers() {
			consider(a, ref)
		}
	case *ssa.Alloc:
		for _, ins := range allInstrs(fn) {
			if ld, ok := ins.(*ssa.UnOp); ok && ld.Op == token.MUL && ld.X == ssa.Value(a) && !l.blocks[ld.Block()] {
				for _, ref := range *ld.Referrers() {
					consider(ld, ref)
				}
			}
		}
	}
	if len(sorts) == 0 {
		return false, "the loop appends to " + describeAcc(acc) + " in map-iteration order and no total sort of it follows (sort.Strings / sort.Slice with a comparator that always compares)"
	}
	for _, u := range otherUses {
		dom := false
		for _, s := range sorts {
			if instrDominates(s, u) {
				dom = true
			}
		}
		// a phi takes the value at the end of the predecessor it comes from: the value is used
		// "there", and that place may lie behind the sort although the join itself does not
		if phi, isPhi := u.(*ssa.Phi); isPhi && !dom {
			all := true
			for i, e := range phi.Edges {
				if e != acc && unwrap(e) != acc {
					if ld, ok := e.(*ssa.UnOp); !ok || ld.X != acc {
						continue
					}
				}
				p := phi.Block().Preds[i]
				after := false
				for _, s := range sorts {
					if s.Block() == p || s.Block().Dominates(p) {
						after = true
					}
				}
				if !after {
					all = false
				}
			}
			dom = all
		}
		if bo, isCmp := u.(*ssa.BinOp); isCmp && !dom && (isNilConst(bo.X) || isNilConst(bo.Y)) {
			dom = true // `names == nil`: whether it has been built yet, not what is in it
		}
		if !dom {
			return false, "the slice built in map-iteration order is used at " + r.P.pos(u.Pos()) + " before it is sorted"
		}
	}
	return true, ""
}

func describeAcc(v ssa.Value) string {
	if al, ok := v.(*ssa.Alloc); ok && al.Comment != "" {
		return al.Comment
	}
	return "a " + shortType(v.Type())
}

func rangeKeyDesc(l *mapLoop) string {
	return "range " + describeMapExpr(l.rng.X)
}

func describeMapExpr(v ssa.Value) string {
	switch x := v.(type) {
	case *ssa.UnOp:
		if x.Op == token.MUL {
			if fa, ok := x.X.(*ssa.FieldAddr); ok {
				if f := fieldOf(fa); f != nil {
					return "." + f.Name() + " " + shortType(v.Type())
				}
			}
		}
	case *ssa.Parameter:
		return "param " + shortType(v.Type())
	case *ssa.Call:
		return "result of " + calleeDesc(&x.Call) + " " + shortType(v.Type())
	}
	return shortType(v.Type())
}

func ruleMapRanges(sc scope, min int) ruleFn {
	return func(r *Run) {
		const rule = "R9a"
		set := r.scopeFuncs(panicScope{label: sc.label, roots: sc.roots})
		var fns []*ssa.Function
		for _, fn := range r.P.Funcs {
			if fn.Synthetic == "" {
				fns = append(fns, fn)
			}
		}
		sort.Slice(fns, func(i, j int) bool { return fnName(fns[i]) < fnName(fns[j]) })
		n := 0
		defer func() { r.silent = false }()
		for _, fn := range fns {
			// out-of-scope functions are walked silently: see Run.add
			r.silent = !set[fn]
			for _, l := range mapLoops(fn) {
				if set[fn] {
					n++
				}
				name := fnName(fn)
				construct := rangeKeyDesc(l)
				site := r.P.pos(l.rng.Pos())
				if class, arg := r.classifyMapLoop(l); class != "" {
					r.OK(rule, name, construct, site, "class "+class+": "+arg)
					continue
				} else if reason, ok := useTable(r, detTable, name+"/"+construct); ok && kindsAllowed(r.expandHelperKinds(l, normKinds(detKinds)[pkgKey(name+"/"+construct)]), normKinds(detKinds)[pkgKey(name+"/"+construct)]) {
					r.Tabled(rule, name, construct, site, "det", reason)
				} else if _, tabled := normTable(&detTable)[pkgKey(name+"/"+construct)]; tabled && !kindsAllowed(r.expandHelperKinds(l, normKinds(detKinds)[pkgKey(name+"/"+construct)]), normKinds(detKinds)[pkgKey(name+"/"+construct)]) {
					r.Bad(rule, name, construct, site, "this loop is tabled as order-insensitive for the effects "+strings.Join(normKinds(detKinds)[pkgKey(name+"/"+construct)], ", ")+", but it now also has: "+strings.Join(extraKinds(l.kinds, normKinds(detKinds)[pkgKey(name+"/"+construct)]), ", ")+" — "+arg)
				} else {
					r.Bad(rule, name, construct, site, "iteration over a map whose effects depend on the iteration order: "+arg)
				}
			}
		}
		// a map iteration hidden in a library call: lo.Keys / lo.Values / lo.Entries … hand back
		// the keys in iteration order. The result has to be sorted before anything else uses it.
		for _, fn := range fns {
			r.silent = !set[fn]
			for _, ins := range allInstrs(fn) {
				c, ok := ins.(*ssa.Call)
				if !ok {
					continue
				}
				name := strings.SplitN(calleeName(&c.Call), "[", 2)[0]
				hidden := false
				for _, m := range []string{"lo.Keys", "lo.Values", "lo.Entries", "lo.ToPairs", "lo.MapToSlice", "lo.UniqKeys", "lo.UniqValues", "maps.Keys", "maps.Values"} {
					if strings.HasSuffix(name, "/"+m) || name == m || strings.HasSuffix(name, "."+m) {
						hidden = true
					}
				}
				if !hidden {
					continue
				}
				// uses of the result, through a local variable if it is kept in one
				var uses []ssa.Instruction
				var collect func(v ssa.Value, depth int)
				collect = func(v ssa.Value, depth int) {
					if v.Referrers() == nil || depth > 3 {
						return
					}
					for _, ref := range *v.Referrers() {
						switch y := ref.(type) {
						case *ssa.DebugRef:
						case *ssa.Store:
							if al, ok := y.Addr.(*ssa.Alloc); ok && y.Val == v {
								for _, r2 := range *al.Referrers() {
									if ld, ok := r2.(*ssa.UnOp); ok {
										collect(ld, depth+1)
									}
								}
								continue
							}
							uses = append(uses, ref)
						case *ssa.MakeInterface:
							collect(y, depth+1)
						default:
							uses = append(uses, ref)
						}
					}
				}
				collect(c, 0)
				var sorted ssa.Instruction
				for _, u := range uses {
					if ci, ok := u.(ssa.CallInstruction); ok {
						if kind, isSort := isSortCall(ci.Common()); isSort {
							if kind == "less" {
								if ok, _ := r.totalLess(ci.Common().Args[1]); !ok {
									continue
								}
							}
							if sorted == nil || instrDominates(u, sorted) {
								sorted = u
							}
						}
					}
				}
				good := sorted != nil
				for _, u := range uses {
					if u == sorted {
						continue
					}
					if cl, ok := u.(*ssa.Call); ok {
						if b, ok := cl.Call.Value.(*ssa.Builtin); ok && b.Name() == "len" {
							continue
						}
					}
					if sorted == nil || !instrDominates(sorted, u) {
						good = false
					}
				}
				if set[fn] {
					n++
				}
				r.Check(good, rule, fnName(fn), "result of "+calleeDesc(&c.Call), r.P.pos(c.Pos()),
					"sorted by a total order before anything else uses it",
					calleeDesc(&c.Call)+" hands back the entries of a map in Go's map iteration order, and the result is used without being sorted first: what is built from it differs from run to run")
			}
		}
		r.silent = false
		r.AtLeast(rule, "map ranges in scope "+sc.label, n, min)
	}
}

// ---- R9b: reducers -------------------------------------------------------------------

func ruleReducers(r *Run) {
	const rule = "R9b"
	n := 0
	for _, fn := range r.P.Funcs {
		call, mapF, redF := r.amrSite(fn)
		if call == nil {
			continue
		}
		n++
		name := fnName(fn)
		site := r.P.pos(call.Pos())
		if redF == nil || mapF == nil {
			r.Bad(rule, name, "AsyncMapReduce reducer", site, "map/reduce functions are not literals of this module: arrival-order dependence cannot be decided")
			continue
		}
		class, ok := reducerTable[name]
		if !ok {
			r.Bad(rule, name, "AsyncMapReduce reducer", site, "new AsyncMapReduce call site: results arrive in completion order; its reducer has not been classified (positional / append-then-sort / multiset consumer)")
			continue
		}
		switch class.kind {
		case "POS-queryHandler":
			r.OK(rule, name, "AsyncMapReduce reducer", site, "positional: decided by R13h/R9b.pos (ruleResultIndex)")
		case "POS-chunks":
			r.checkChunkReducer(fn, call, mapF, redF)
		case "AS-index":
			r.checkAppendSortReducer(fn, call, mapF, redF)
		case "POS-index":
			r.checkPositionalReducer(fn, call, mapF, redF)
		case "multiset":
			// the reducer must be a pure concatenation (append of value's parts to acc's parts)
			okShape := true
			for _, ins := range allInstrs(redF) {
				switch x := ins.(type) {
				case *ssa.Call:
					if b, isB := x.Call.Value.(*ssa.Builtin); isB && b.Name() == "append" {
						continue
					}
					okShape = false
				case *ssa.MapUpdate, *ssa.Send, *ssa.Go:
					okShape = false
				}
			}
			if okShape {
				r.Tabled(rule, name, "AsyncMapReduce reducer", site, "reducers", class.why)
			} else {
				r.Bad(rule, name, "AsyncMapReduce reducer", site, "the reducer tabled as a plain concatenation now does something else")
			}
		}
	}
	r.AtLeast(rule, "AsyncMapReduce call sites", n, 6)
}

type reducerClass struct{ kind, why string }

// checkPositionalReducer: the fan-out runs over lo.Range(len(G)), the accumulator is made with
// len(G) slots, every successful worker returns a value that carries its own index in a field,
// and the reducer stores at acc[value.<field>] and nowhere else: results are placed by
// position, independent of completion order.
func (r *Run) checkPositionalReducer(fn *ssa.Function, call *ssa.Call, mapF, redF *ssa.Function) {
	const rule = "R9b"
	name := fnName(fn)
	site := r.P.pos(call.Pos())
	fail := func(why string) {
		r.Bad(rule, name, "AsyncMapReduce reducer", site, "the reducer classified as positional is not: "+why+" — results would be placed by arrival order")
	}
	var groups ssa.Value
	if rc, ok := unwrap(call.Call.Args[0]).(*ssa.Call); ok && strings.HasSuffix(calleeName(&rc.Call), "lo.Range") && len(rc.Call.Args) == 1 {
		if lc, ok := rc.Call.Args[0].(*ssa.Call); ok {
			if b, ok := lc.Call.Value.(*ssa.Builtin); ok && b.Name() == "len" {
				groups = viaCell(lc.Call.Args[0])
			}
		}
	}
	if groups == nil {
		fail("the payload is not lo.Range(len(<list>))")
		return
	}
	mk, ok := unwrap(call.Call.Args[1]).(*ssa.MakeSlice)
	okLen := false
	if ok {
		if lc, ok := mk.Len.(*ssa.Call); ok {
			if b, ok := lc.Call.Value.(*ssa.Builtin); ok && b.Name() == "len" && viaCell(lc.Call.Args[0]) == groups {
				okLen = true
			}
		}
	}
	if !okLen {
		fail("the accumulator is not made with one slot per element of the same list")
		return
	}
	if len(mapF.Params) != 1 || len(redF.Params) != 2 {
		fail("unexpected worker/reducer signature")
		return
	}
	// the field that carries the index: the one the reducer places its value by (acc[value.F])
	var carrier *types.Var
	for _, ins := range allInstrs(redF) {
		st, ok := ins.(*ssa.Store)
		if !ok || carrier != nil {
			continue
		}
		if ia, ok := st.Addr.(*ssa.IndexAddr); ok && ia.X == ssa.Value(redF.Params[0]) {
			if ld, ok := ia.Index.(*ssa.UnOp); ok && ld.Op == token.MUL {
				if fa, ok := ld.X.(*ssa.FieldAddr); ok && fa.X == ssa.Value(redF.Params[1]) {
					carrier = fieldOf(fa)
				}
			}
		}
	}
	if carrier == nil {
		fail("the reducer does not index its accumulator by a field of the worker's result")
		return
	}
	// every successful return of the worker yields a struct whose carrier field was stored from
	// the worker's index — in the worker itself, in a constructor it calls with the index, or in
	// the function whose whole result the worker returns (judged there, with the parameter the
	// index is passed for)
	nRet := 0
	for _, wr := range r.workerReturns(mapF, mapF.Params[0], 0) {
		if wr.val == nil {
			fail("a return of the worker has an unexpected shape (at " + r.P.pos(retPos(wr.ret)) + ")")
			return
		}
		if !isNilConst(unwrap(wr.err)) {
			continue
		}
		if wr.idx == nil || !r.carriesIndex(unwrap(wr.val), wr.idx, wr.ret, carrier, 0) {
			fail("the worker's result does not carry the worker's index: a successful return does not have ." + carrier.Name() + " set from it (at " + r.P.pos(retPos(wr.ret)) + ")")
			return
		}
		nRet++
	}
	if nRet == 0 {
		fail("the worker's result does not carry the worker's index: no successful return was found")
		return
	}
	// reducer: one store, at acc[value.carrier]; returns acc
	stores := 0
	for _, ins := range allInstrs(redF) {
		switch x := ins.(type) {
		case *ssa.Store:
			ia, ok := x.Addr.(*ssa.IndexAddr)
			if !ok || ia.X != ssa.Value(redF.Params[0]) {
				fail("the reducer writes somewhere else than into its accumulator")
				return
			}
			ld, ok := ia.Index.(*ssa.UnOp)
			okIdx := false
			if ok && ld.Op == token.MUL {
				if fa, ok := ld.X.(*ssa.FieldAddr); ok && fieldOf(fa) == carrier && fa.X == ssa.Value(redF.Params[1]) {
					okIdx = true
				}
			}
			if !okIdx {
				fail("the reducer does not index its accumulator by the carried index")
				return
			}
			stores++
		case *ssa.Call:
			if b, ok := x.Call.Value.(*ssa.Builtin); ok && b.Name() == "append" {
				fail("the reducer appends")
				return
			}
			if _, ok := x.Call.Value.(*ssa.Builtin); !ok && !isPureCall(&x.Call) {
				// third audit: a method that appends to a captured response went unnoticed
				fail("the reducer also calls " + calleeDesc(&x.Call) + ": whatever that does happens in arrival order")
				return
			}
		case *ssa.MapUpdate, *ssa.Send, *ssa.Go, *ssa.Defer:
			fail("the reducer does more than place its value")
			return
		}
	}
	if stores != 1 {
		fail("the reducer does not store exactly once")
		return
	}
	r.OK(rule, name, "AsyncMapReduce reducer", site, "positional: one worker per index of the list, each result carries its index in ."+carrier.Name()+", the accumulator has one slot per index and the reducer stores at acc[value."+carrier.Name()+"] only")
	// the entry sort that makes the order of the incoming requests irrelevant: asked of the
	// function that receives the execution requests themselves (the lists derived from them
	// position by position inherit their order)
	for _, p := range fn.Params {
		if strings.HasSuffix(p.Type().String(), "[]*"+modPath+"/executor.ExecutionRequest") {
			r.checkSortedEntry(fn, p)
		}
	}
}

// checkSortedEntry (R9b.sorted-entry): DepthExecutor.Execute sorts the request list it was
// given with a comparator that always compares, before anything else looks at the list.
func (r *Run) checkSortedEntry(fn *ssa.Function, list *ssa.Parameter) {
	const rule = "R9b.sorted-entry"
	var sortCall ssa.CallInstruction
	why := "the request list is not sorted on entry"
	for _, ins := range allInstrs(fn) {
		ci, ok := ins.(ssa.CallInstruction)
		if !ok {
			continue
		}
		kind, isSort := isSortCall(ci.Common())
		if !isSort || len(ci.Common().Args) == 0 {
			continue
		}
		arg0 := unwrap(ci.Common().Args[0])
		var less ssa.Value
		if kind == "iface" {
			// sort.Sort / sort.Stable(byKey(list)): the argument is the list converted to a
			// named slice type whose Less method is the comparator
			mi, ok := ci.Common().Args[0].(*ssa.MakeInterface)
			if !ok {
				continue
			}
			arg0 = unwrap(mi.X)
			if ct, ok := arg0.(*ssa.ChangeType); ok {
				arg0 = unwrap(ct.X)
			}
			if m := r.P.SSA.LookupMethod(mi.X.Type(), nil, "Less"); m != nil {
				less = m
			} else if nt, ok := mi.X.Type().(*types.Named); ok {
				for i := 0; i < nt.NumMethods(); i++ {
					if nt.Method(i).Name() == "Less" {
						less = r.P.SSA.FuncValue(nt.Method(i))
					}
				}
			}
			if less == nil || less.(*ssa.Function) == nil {
				continue
			}
		}
		if viaCell(arg0) != ssa.Value(list) && arg0 != ssa.Value(list) {
			continue
		}
		if kind == "less" {
			less = ci.Common().Args[1]
		}
		if less != nil {
			if ok, w := r.totalLess(less); !ok {
				why = w
				continue
			}
			if missing := r.missingSortKeys(less); len(missing) > 0 {
				why = "the comparator does not look at " + strings.Join(missing, ", ") + ": requests which differ only there keep their arrival order"
				continue
			}
		}
		sortCall = ci
	}
	good := sortCall != nil
	if good {
		// every other use of the list is after the sort
		for _, ins := range allInstrs(fn) {
			if ins == ssa.Instruction(sortCall) {
				continue
			}
			uses := false
			for _, op := range ins.Operands(nil) {
				if *op != nil && viaCell(*op) == ssa.Value(list) {
					uses = true
				}
			}
			if _, isLen := ins.(*ssa.Call); isLen && uses {
				if b, ok := ins.(*ssa.Call).Call.Value.(*ssa.Builtin); ok && b.Name() == "len" {
					continue
				}
			}
			if _, isStore := ins.(*ssa.Store); isStore {
				continue // the spill of the parameter into its cell
			}
			if _, isMI := ins.(*ssa.MakeInterface); isMI {
				continue
			}
			if _, isCT := ins.(*ssa.ChangeType); isCT {
				continue // conversion to the sort.Interface type that is handed to the sort
			}
			if uses && !instrDominates(sortCall, ins) && !sortSkippedOnlyWhenTrivial(sortCall, list) {
				good = false
				why = "the request list is used at " + r.P.pos(ins.Pos()) + " before it is sorted"
			}
		}
	}
	r.Check(good, rule, fnName(fn), "requests sorted on entry", r.P.pos(fn.Pos()),
		"the incoming requests are put into a fixed order (comparator that always compares) before they are grouped: the arrival order of the previous depth's results is not observable",
		"DepthExecutor.Execute groups and sends the requests in the order in which the previous depth happened to finish ("+why+"): which of several failing entries of a batch is reported, and what a service is asked first, changes from run to run")
}

var reducerTable = map[string]reducerClass{
	"pebbles.(*Gateway).queryHandler":                                           {"POS-queryHandler", ""},
	"queryer.(*MultiOpQueryer).Query":                                           {"POS-chunks", ""},
	"introspection.(*ParallelRemoteSchemaIntrospector).IntrospectRemoteSchemas": {"AS-index", ""},
	"executor.(*DepthExecutor).Execute":                                         {"POS-index", ""},
	"executor.(*DepthExecutor).parseRespones":                                   {"POS-index", ""},
	"executor.findNextExecutionRequestsAsync":                                   {"multiset", "next execution requests only: re-sorted at the entry of DepthExecutor.Execute by realized insertion point, service and query (R9b.sorted-entry checks that the comparator looks at all three); requests equal in all three are the same request, so no arrival order survives the sort. (The second table audit showed that the comparator of repair 719a0ce, which stopped at the service, left two inline-fragment steps of one service in arrival order; repaired.)"},
}

// checkChunkReducer: MultiOpQueryer.Query — the chunk index stored in the mapped value is the
// closure's parameter, the input slice is cut at that same index, and the reducer places the
// chunk at value.Index*maxBatchSize.
func (r *Run) checkChunkReducer(fn *ssa.Function, call *ssa.Call, mapF, redF *ssa.Function) {
	const rule = "R9b"
	name := fnName(fn)
	site := r.P.pos(call.Pos())
	if len(mapF.Params) != 1 {
		r.Bad(rule, name, "chunk index", site, "chunk closure does not take the chunk index")
		return
	}
	// the chunk body: the closure itself and the module functions it hands its chunk index to
	// (the whole body delegated to a method, or only the cutting of the inputs delegated to a
	// helper) — each judged with the parameter that stands for the chunk index there
	parts := chunkParts(r, mapF, mapF.Params[0])
	// Index field store
	okIndex := false
	for _, part := range parts {
		for _, ins := range allInstrs(part.fn) {
			st, ok := ins.(*ssa.Store)
			if !ok {
				continue
			}
			fa, ok := st.Addr.(*ssa.FieldAddr)
			if ok && fieldOf(fa) != nil && fieldOf(fa).Name() == "Index" {
				okIndex = unwrap(st.Val) == ssa.Value(part.idx)
				if !okIndex {
					r.Bad(rule, fnName(part.fn), "chunkResponse.Index", r.P.pos(st.Pos()), "the chunk index carried to the reducer is not the closure's own chunk number")
					return
				}
			}
		}
	}
	// every Slice of the inputs in the chunk body has a low bound that depends on idx and on nothing else loop-like
	okSlice := true
	nSlice := 0
	for _, part := range parts {
		for _, ins := range allInstrs(part.fn) {
			sl, ok := ins.(*ssa.Slice)
			if !ok {
				continue
			}
			nSlice++
			if sl.Low == nil || !lowIsIdxTimesBatch(sl.Low, part.idx) {
				okSlice = false
				r.Bad(rule, fnName(part.fn), "input slice bounds", r.P.pos(sl.Pos()), "the chunk of inputs is not cut at <chunk index> * maxBatchSize with the same chunk index that is carried to the reducer: results would be spliced at the wrong offset")
			}
		}
	}
	// reducer: uses value.Index for placement, never len(acc)-based append of whole acc order
	usesIndex := false
	var acc, val ssa.Value
	if len(redF.Params) == 2 {
		acc, val = redF.Params[0], redF.Params[1]
		// the reducer may just delegate to a method/function that receives both
		if body, bacc, bval := reducerBody(r, redF); body != nil {
			redF, acc, val = body, bacc, bval
		}
	}
	for _, ins := range allInstrs(redF) {
		if ld, ok := ins.(*ssa.UnOp); ok && ld.Op == token.MUL {
			if fa, ok := ld.X.(*ssa.FieldAddr); ok && fieldOf(fa) != nil && fieldOf(fa).Name() == "Index" && val != nil && fa.X == val {
				usesIndex = true
			}
		}
	}
	okRed := usesIndex
	for _, ins := range allInstrs(redF) {
		if sl, ok := ins.(*ssa.Slice); ok && sl.X == acc {
			// acc[a:b]: bounds must derive from value.Index
			for _, bnd := range []ssa.Value{sl.Low, sl.High} {
				if bnd == nil {
					continue
				}
				if _, isConst := bnd.(*ssa.Const); isConst {
					continue
				}
				if !dependsOnField(bnd, "Index") {
					okRed = false
				}
			}
		}
	}
	if okIndex && okSlice && nSlice >= 1 && okRed {
		r.OK(rule, name, "AsyncMapReduce reducer", site, "positional: chunk i is cut at i*m, carries Index=i, and the reducer splices it at value.Index*m — independent of completion order")
	} else if okIndex && okSlice && nSlice >= 1 {
		r.Bad(rule, fnName(redF), "chunk placement", r.P.pos(redF.Pos()), "the chunk reducer does not place results by the carried chunk index")
	} else if !okIndex || nSlice == 0 {
		r.Bad(rule, name, "AsyncMapReduce reducer", site, "chunk index/slice shape not recognised")
	}
}

func lowIsIdxTimesBatch(v ssa.Value, idx *ssa.Parameter) bool {
	isBatch := func(x ssa.Value) bool { return dependsOnField(x, "maxBatchSize") }
	// the bounds computed by a helper of the module (`from, to := chunkBounds(i, size, n)`): the
	// result is the product of two of its parameters, bound to the chunk index and the batch size
	if ex, ok := v.(*ssa.Extract); ok {
		call, ok := ex.Tuple.(*ssa.Call)
		if !ok {
			return false
		}
		sc := call.Call.StaticCallee()
		if sc == nil || !inModule(sc) || sc.Blocks == nil || len(returnsOf(sc)) == 0 {
			return false
		}
		argOf := func(x ssa.Value) ssa.Value {
			for i, p := range sc.Params {
				if ssa.Value(p) == x && i < len(call.Call.Args) {
					return call.Call.Args[i]
				}
			}
			return nil
		}
		for _, ret := range returnsOf(sc) {
			rv := retVals(ret)
			if ex.Index >= len(rv) {
				return false
			}
			bo, ok := unwrap(rv[ex.Index]).(*ssa.BinOp)
			if !ok || bo.Op != token.MUL {
				return false
			}
			ax, ay := argOf(bo.X), argOf(bo.Y)
			if ax == nil || ay == nil {
				return false
			}
			if !((ax == ssa.Value(idx) && isBatch(ay)) || (ay == ssa.Value(idx) && isBatch(ax))) {
				return false
			}
		}
		return true
	}
	bo, ok := v.(*ssa.BinOp)
	if !ok || bo.Op != token.MUL {
		return false
	}
	return (bo.X == ssa.Value(idx) && isBatch(bo.Y)) || (bo.Y == ssa.Value(idx) && isBatch(bo.X))
}

func dependsOnField(v ssa.Value, field string) bool {
	seen := map[ssa.Value]bool{}
	var f func(v ssa.Value) bool
	f = func(v ssa.Value) bool {
		if seen[v] {
			return false
		}
		seen[v] = true
		if ld, ok := v.(*ssa.UnOp); ok && ld.Op == token.MUL {
			if fa, ok := ld.X.(*ssa.FieldAddr); ok && fieldOf(fa) != nil && fieldOf(fa).Name() == field {
				return true
			}
		}
		ins, ok := v.(ssa.Instruction)
		if !ok {
			return false
		}
		for _, op := range operandsOf(ins) {
			if f(op) {
				return true
			}
		}
		return false
	}
	return f(v)
}

// checkAppendSortReducer: IntrospectRemoteSchemas — reducer appends; the result is sorted by
// the index carried from the closure parameter before it is mapped to the output.
func (r *Run) checkAppendSortReducer(fn *ssa.Function, call *ssa.Call, mapF, redF *ssa.Function) {
	const rule = "R9b"
	name := fnName(fn)
	site := r.P.pos(call.Pos())
	// carried index: a field store in mapF with the closure's parameter
	var idxField *types.Var
	if len(mapF.Params) == 1 {
		// the index is the closure parameter itself, or the index field of the (url, index)
		// pair the payload was built from with lo.Map over the URL list
		idxOf := fanoutIndexOf(fn, call, mapF)
		for _, ins := range allInstrs(mapF) {
			if st, ok := ins.(*ssa.Store); ok && (unwrap(st.Val) == ssa.Value(mapF.Params[0]) || (idxOf != nil && idxOf(unwrap(st.Val)))) {
				if fa, ok := st.Addr.(*ssa.FieldAddr); ok {
					idxField = fieldOf(fa)
				}
			}
		}
	}
	if idxField == nil {
		r.Bad(rule, name, "AsyncMapReduce reducer", site, "the mapped value no longer carries the index of its URL")
		return
	}
	var res ssa.Value
	for _, ref := range *call.Referrers() {
		if ex, ok := ref.(*ssa.Extract); ok && ex.Index == 0 {
			res = ex
		}
	}
	if res == nil {
		r.Bad(rule, name, "AsyncMapReduce reducer", site, "result unused")
		return
	}
	var sortCall ssa.CallInstruction
	als := aliases(res)
	isAlias := func(v ssa.Value) bool {
		for _, a := range als {
			if a == v {
				return true
			}
		}
		return false
	}
	var allRefs []ssa.Instruction
	for _, a := range als {
		for _, ref := range *a.Referrers() {
			allRefs = append(allRefs, ref)
			if mi, ok := ref.(*ssa.MakeInterface); ok {
				allRefs = append(allRefs, *mi.Referrers()...)
			}
		}
	}
	for _, ref := range allRefs {
		if ci, ok := ref.(ssa.CallInstruction); ok {
			if kind, isSort := isSortCall(ci.Common()); isSort && kind == "less" && isAlias(unwrap(ci.Common().Args[0])) {
				// comparator compares the carried index field
				fs, _ := r.P.CG.funcValues(ci.Common().Args[1], map[ssa.Value]bool{})
				if len(fs) == 1 {
					usesIdx := false
					for _, ins := range allInstrs(fs[0]) {
						if ld, ok := ins.(*ssa.UnOp); ok && ld.Op == token.MUL {
							if fa, ok := ld.X.(*ssa.FieldAddr); ok && fieldOf(fa) == idxField {
								usesIdx = true
							}
						}
					}
					if tot, _ := r.totalLess(ci.Common().Args[1]); usesIdx && tot {
						sortCall = ci
					}
				}
			}
		}
	}
	if sortCall == nil {
		r.Bad(rule, name, "AsyncMapReduce reducer", site, "introspection results arrive in completion order and are not sorted by the carried URL index before use: schemas would be paired with the wrong URLs (C04) nondeterministically (C13)")
		return
	}
	for _, ref := range allRefs {
		if ref == ssa.Instruction(sortCall) {
			continue
		}
		if _, ok := ref.(*ssa.MakeInterface); ok {
			continue // conversion feeding a call; the call itself is in the list
		}
		if st, ok := ref.(*ssa.Store); ok {
			if _, isAl := st.Addr.(*ssa.Alloc); isAl {
				continue // the spill into the captured cell
			}
		}
		if !instrDominates(sortCall, ref) {
			if bo, ok := ref.(*ssa.BinOp); ok && (bo.Op == token.EQL || bo.Op == token.NEQ) {
				continue
			}
			r.Bad(rule, name, "AsyncMapReduce reducer", r.P.pos(ref.Pos()), "the unsorted result list is used before the sort by carried index")
			return
		}
	}
	r.OK(rule, name, "AsyncMapReduce reducer", site, "append-then-sort: results are ordered by the index carried from the closure parameter before they are used")
}

// ---- R9c ----------------------------------------------------------------------------------

var selectTable = map[string]tabEntry{
	"common.AsyncMapReduce$2":               {1, "reducer select: results and errors are consumed in arrival order; consumers are order-insensitive by R9b, and C13 tolerates the relative order of errors"},
	"pebbles.(*subscriptionEntry).Listen":   {1, "event vs. close: a close racing with an event may or may not deliver that last event (teardown, C18), not a determinism issue for answered operations"},
	"pebbles.sendHeartbeat":                 {1, "ticker vs. cancellation"},
	"queryer.(*MultiOpQueryer).Subscribe$1": {1, "close requested vs. handshake failed: either way the connection is closed, nothing else happens"},
}

func ruleSelects(r *Run) {
	const rule = "R9c"
	n := 0
	for _, fn := range r.P.Funcs {
		for _, ins := range allInstrs(fn) {
			sel, ok := ins.(*ssa.Select)
			if !ok || len(sel.States) < 2 {
				continue
			}
			n++
			name := fnName(fn)
			if reason, ok := useTable(r, selectTable, name); ok {
				r.Tabled(rule, name, "multi-way select", r.P.pos(sel.Pos()), "select", reason)
			} else {
				r.Bad(rule, name, "multi-way select", r.P.pos(sel.Pos()), "new select with several ready-able cases: the chosen case is scheduler-dependent")
			}
		}
	}
	r.AtLeast(rule, "multi-way selects", n, 3)
}

// ---- loops over plan-step lists ------------------------------------------------------------
// The order of sibling steps (QueryPlan.RootSteps, QueryPlanStep.Then) comes from ranging a
// map in the planner (tabled there as "permutes independent steps only"). That argument holds
// only if every consumer of such a list is itself order-insensitive, which is checked here with
// the same effect classification as for map ranges.

type sliceLoop struct {
	mapLoop
	elemAddr *ssa.IndexAddr
}

func stepListLoops(fn *ssa.Function) []*mapLoop {
	var out []*mapLoop
	seen := map[*ssa.BasicBlock]bool{}
	for _, ins := range allInstrs(fn) {
		ia, ok := ins.(*ssa.IndexAddr)
		if !ok {
			continue
		}
		st := shortType(ia.X.Type())
		if st != "[]*planner.QueryPlanStep" {
			continue
		}
		// index = phi+1 of a rangeindex loop, or phi of a classic loop
		var phi *ssa.Phi
		if add, ok := ia.Index.(*ssa.BinOp); ok && add.Op == token.ADD {
			phi, _ = add.X.(*ssa.Phi)
		} else {
			phi, _ = ia.Index.(*ssa.Phi)
		}
		if phi == nil {
			continue
		}
		loop := naturalLoop(phi.Block())
		if len(loop) == 0 || seen[phi.Block()] {
			continue
		}
		seen[phi.Block()] = true
		var val ssa.Value
		for _, ref := range *ia.Referrers() {
			if ld, ok := ref.(*ssa.UnOp); ok && ld.Op == token.MUL {
				val = ld
			}
		}
		l := &mapLoop{fn: fn, blocks: loop, key: ia.Index, val: val, hdr: phi.Block(), idxPhi: phi}
		out = append(out, l)
	}
	return out
}

var stepLoopTable = map[string]tabEntry{
	"executor.NewDepthExecutorManager":            {1, "walkPlanStep appends each step to the list of its depth: the order inside a depth only decides the order in which requests are created, and DepthExecutor.Execute sorts the requests it is given by insertion point, service and query before grouping and sending them (R9b.sorted-entry; before repair 719a0ce the batch order was observable: the first failing entry of a batch decides which error is reported)"},
	"executor.walkPlanStep":                       {1, "recursion over Then: appends to per-depth lists, see NewDepthExecutorManager"},
	"pebbles.(*Gateway).getQueryers":              {1, "one queryer per URL (children overwrite, the last writer wins), and the value is a function of the URL alone (factory(ctx, url)) for the default factory; a custom factory that depends on more is the embedder's responsibility"},
	"pebbles.(*Gateway).parseIntrospectionQuery":  {1, "early return at the internal pseudo-service step: routeSelectionSet creates at most one step per location, so at most one step matches"},
	"pebbles.(*Gateway).newSubscriptionEntry":     {1, "collects the children of the (single) root step; more than one root step is rejected right after"},
	"pebbles.(*Gateway).newSubscriptionEntry$1":   {1, "one new root step per insertion point of each child: the requests built from the appended list are sorted on entry of DepthExecutor.Execute (R9b.sorted-entry), grouped by URL and merged by insertion point"},
	"executor.(*DepthExecutorManager).Execute":    {1, "builds one execution request per root step; the list is sorted on entry of DepthExecutor.Execute (R9b.sorted-entry), grouped by URL and merged by response key"},
	"executor.findNextExecutionRequestsWithCache": {1, "one request per dependent step and insertion point; sorted on entry of DepthExecutor.Execute at the next depth (R9b.sorted-entry)"},
	"planner.(*QueryPlan).SetComputedValues":      {1, "rewrites element i with the computed form of element i"},
	"planner.(*QueryPlanStep).SetComputedValues":  {1, "rewrites element i with the computed form of element i"},
	"planner.extractSelectionSet":                 {1, "searches the children created so far for the step of one URL and insertion point; the list is in selection order (not map order), so the first match is the same on every run"},
}

func ruleStepListLoops(r *Run) {
	const rule = "R9a.steps"
	n := 0
	var fns []*ssa.Function
	// functions the gateway can execute: an exported helper nothing in the gateway calls
	// (an accessor added for library users) has no influence on planning or responses
	live := r.P.CG.ReachableAll([]*ssa.Function{r.P.Fn("pebbles.(*Gateway).Handler"), r.P.Fn("pebbles.NewGateway")})
	for _, fn := range r.P.Funcs {
		if live[fn] {
			fns = append(fns, fn)
		}
	}
	sort.Slice(fns, func(i, j int) bool { return fnName(fns[i]) < fnName(fns[j]) })
	for _, fn := range fns {
		for _, l := range stepListLoops(fn) {
			n++
			name := fnName(fn)
			site := r.P.pos(firstPos(l.hdr))
			construct := "range over []*QueryPlanStep"
			if class, arg := r.classifyMapLoop(l); class != "" {
				r.OK(rule, name, construct, site, "class "+class+": "+arg)
			} else if reason, ok := useTable(r, stepLoopTable, name); ok && kindsAllowed(l.kinds, normKinds(stepKinds)[pkgKey(name)]) {
				r.Tabled(rule, name, construct, site, "stepLoop", reason)
			} else if _, tabled := normTable(&stepLoopTable)[pkgKey(name)]; tabled && !kindsAllowed(l.kinds, normKinds(stepKinds)[pkgKey(name)]) {
				r.Bad(rule, name, construct, site, "this loop over sibling plan steps is tabled as order-insensitive for the effects "+strings.Join(normKinds(stepKinds)[pkgKey(name)], ", ")+", but it now also has: "+strings.Join(extraKinds(l.kinds, normKinds(stepKinds)[pkgKey(name)]), ", ")+" — "+arg)
			} else {
				r.Bad(rule, name, construct, site, "the order of sibling plan steps follows Go's map iteration in the planner; this loop's effect depends on that order: "+arg)
			}
		}
	}
	r.AtLeast(rule, "loops over plan-step lists", n, 8)
}

// selfRecursionKind: the effect kind of a loop that calls the function it stands in.
const selfRecursionKind = "call:the enclosing function (recursion)"

func kindsAllowed(got, allowed []string) bool { return len(extraKinds(got, allowed)) == 0 }

func extraKinds(got, allowed []string) []string {
	a := map[string]bool{}
	for _, k := range allowed {
		a[k] = true
	}
	var out []string
	seen := map[string]bool{}
	for _, k := range got {
		if !a[k] && !seen[k] {
			seen[k] = true
			out = append(out, k)
		}
	}
	sort.Strings(out)
	return out
}

// dumpKinds prints the effect kinds of every tabled loop (development aid: PEB_KINDS=1).
func dumpKinds(r *Run) {
	for _, fn := range r.P.Funcs {
		for _, l := range mapLoops(fn) {
			if c, _ := r.classifyMapLoop(l); c == "" {
				fmt.Printf("KINDS det %q: %q\n", fnName(fn)+"/"+rangeKeyDesc(l), extraKinds(l.kinds, nil))
			}
		}
		for _, l := range stepListLoops(fn) {
			if c, _ := r.classifyMapLoop(l); c == "" {
				fmt.Printf("KINDS step %q: %q\n", fnName(fn), extraKinds(l.kinds, nil))
			}
		}
	}
}

// pureFn: a module function without effects that outlive the call: no stores except into
// memory it allocated, no map updates except on maps it made, no channel operations, no go,
// and only calls to pure functions.
var pureMemo = map[*ssa.Function]int{} // 0 unknown, 1 pure, 2 impure, 3 in progress

func (r *Run) pureFn(fn *ssa.Function) bool {
	switch pureMemo[fn] {
	case 1:
		return true
	case 2, 3:
		return false
	}
	pureMemo[fn] = 3
	pure := fn.Blocks != nil
	ownRoot := func(addr ssa.Value) bool {
		for i := 0; i < 8; i++ {
			switch x := addr.(type) {
			case *ssa.FieldAddr:
				addr = x.X
			case *ssa.IndexAddr:
				addr = x.X
			case *ssa.Alloc:
				return x.Parent() == fn
			case *ssa.MakeSlice, *ssa.MakeMap:
				return true
			default:
				return false
			}
		}
		return false
	}
	for _, ins := range allInstrs(fn) {
		if !pure {
			break
		}
		switch x := ins.(type) {
		case *ssa.Store:
			if !ownRoot(x.Addr) {
				pure = false
			}
		case *ssa.MapUpdate:
			if !ownRoot(x.Map) {
				pure = false
			}
		case *ssa.Send, *ssa.Go, *ssa.Defer, *ssa.Select, *ssa.Panic:
			pure = false
		case *ssa.Call:
			if _, isB := x.Call.Value.(*ssa.Builtin); isB {
				if b := x.Call.Value.(*ssa.Builtin); b.Name() == "delete" || b.Name() == "close" || b.Name() == "panic" {
					pure = false
				}
				continue
			}
			if isPureCall(&x.Call) {
				continue
			}
			ok := false
			for _, e := range r.P.CG.Out[fn] {
				if e.Site == ssa.CallInstruction(x) && e.Kind == "static" {
					ok = r.pureFn(e.Callee)
				}
			}
			if !ok {
				pure = false
			}
		}
	}
	if pure {
		pureMemo[fn] = 1
	} else {
		pureMemo[fn] = 2
	}
	return pure
}

func (r *Run) pureCallee(c *ssa.Call) bool {
	n := 0
	for _, e := range r.P.CG.Out[c.Parent()] {
		if e.Site != ssa.CallInstruction(c) {
			continue
		}
		if e.Kind != "static" {
			return false
		}
		n++
		if !r.pureFn(e.Callee) {
			return false
		}
	}
	return n > 0
}

// entryLocalCall: a call to a module function all of whose reference-typed arguments are
// derived from the loop key/value or from a lookup keyed by the loop key: whatever it
// mutates belongs to this entry.
func (r *Run) entryLocalCall(c *ssa.Call, l *mapLoop) bool {
	isModule := false
	for _, e := range r.P.CG.Out[c.Parent()] {
		if e.Site == ssa.CallInstruction(c) && e.Kind == "static" {
			isModule = true
		}
	}
	if !isModule {
		return false
	}
	entryDerived := func(v ssa.Value) bool {
		if l.key != nil && dependsOnThroughMem(v, l.key) {
			return true
		}
		if l.val != nil && dependsOnThroughMem(v, l.val) {
			return true
		}
		return false
	}
	for _, a := range c.Call.Args {
		switch a.Type().Underlying().(type) {
		case *types.Pointer, *types.Map, *types.Slice, *types.Interface, *types.Chan, *types.Signature:
			if _, isConst := a.(*ssa.Const); isConst {
				continue
			}
			if !entryDerived(a) {
				return false
			}
		}
	}
	return true
}

// chunkBody: if mapF only forwards its index to one module function, analyse that function.
// reducerBody: a reducer without slicing of its own that hands both of its parameters to
// one module function: that function is the reducer's body.
func reducerBody(r *Run, redF *ssa.Function) (*ssa.Function, ssa.Value, ssa.Value) {
	for _, ins := range allInstrs(redF) {
		if _, ok := ins.(*ssa.Slice); ok {
			return nil, nil, nil
		}
	}
	for _, ins := range allInstrs(redF) {
		c, ok := ins.(*ssa.Call)
		if !ok {
			continue
		}
		sc := c.Call.StaticCallee()
		if sc == nil {
			continue
		}
		f := r.P.declared(sc)
		if !inModule(f) || f.Blocks == nil {
			continue
		}
		var acc, val ssa.Value
		for i, a := range c.Call.Args {
			if i >= len(f.Params) {
				break
			}
			switch unwrap(a) {
			case ssa.Value(redF.Params[0]):
				acc = f.Params[i]
			case ssa.Value(redF.Params[1]):
				val = f.Params[i]
			}
		}
		if acc != nil && val != nil {
			return f, acc, val
		}
	}
	return nil, nil, nil
}

// chunkPart is a function of the chunk body together with the parameter that holds the chunk
// index in it.
type chunkPart struct {
	fn  *ssa.Function
	idx *ssa.Parameter
}

// chunkParts: the map closure and, transitively (two levels), every module function a part
// hands its chunk index to unchanged.
func chunkParts(r *Run, mapF *ssa.Function, idx *ssa.Parameter) []chunkPart {
	parts := []chunkPart{{mapF, idx}}
	depth := map[*ssa.Function]int{mapF: 0}
	for i := 0; i < len(parts); i++ {
		p := parts[i]
		if depth[p.fn] >= 2 {
			continue
		}
		for _, ins := range allInstrs(p.fn) {
			c, ok := ins.(*ssa.Call)
			if !ok {
				continue
			}
			sc := c.Call.StaticCallee()
			if sc == nil {
				continue
			}
			f := r.P.declared(sc)
			if f == nil || !inModule(f) || f.Blocks == nil {
				continue
			}
			if _, seen := depth[f]; seen {
				continue
			}
			for k, a := range c.Call.Args {
				if unwrap(a) == ssa.Value(p.idx) && k < len(f.Params) {
					depth[f] = depth[p.fn] + 1
					parts = append(parts, chunkPart{f, f.Params[k]})
					break
				}
			}
		}
	}
	return parts
}

func chunkBody(r *Run, mapF *ssa.Function, idx *ssa.Parameter) (*ssa.Function, *ssa.Parameter) {
	hasSlice := false
	for _, ins := range allInstrs(mapF) {
		if _, ok := ins.(*ssa.Slice); ok {
			hasSlice = true
		}
	}
	if hasSlice {
		return nil, nil
	}
	for _, ins := range allInstrs(mapF) {
		c, ok := ins.(*ssa.Call)
		if !ok {
			continue
		}
		sc := c.Call.StaticCallee()
		if sc == nil {
			continue
		}
		f := r.P.declared(sc)
		if !inModule(f) || f.Blocks == nil {
			continue
		}
		for i, a := range c.Call.Args {
			if unwrap(a) == ssa.Value(idx) && i < len(f.Params) {
				return f, f.Params[i]
			}
		}
	}
	return nil, nil
}

// reachedOnlyOnEquality: every branch on the way to b (its dominating Ifs) was an equality
// comparison that came out "equal" (the false side of !=, the true side of ==).
func reachedOnlyOnEquality(b *ssa.BasicBlock) bool {
	n := 0
	for d := b; d != nil; d = d.Idom() {
		if len(d.Preds) != 1 {
			if d.Idom() == nil {
				break
			}
			return false // a merge on the way: cannot tell
		}
		p := d.Preds[0]
		iff, ok := p.Instrs[len(p.Instrs)-1].(*ssa.If)
		if !ok {
			continue
		}
		bo, ok := iff.Cond.(*ssa.BinOp)
		if !ok {
			return false
		}
		switch {
		case bo.Op == token.NEQ && p.Succs[1] == d, bo.Op == token.EQL && p.Succs[0] == d:
			n++
		default:
			return false
		}
	}
	return n > 0
}

// sortSkippedOnlyWhenTrivial: the sort call is guarded by nothing but `len(list) > 1` (or an
// equivalent test): a list of at most one element is sorted already.
func sortSkippedOnlyWhenTrivial(sortCall ssa.CallInstruction, list ssa.Value) bool {
	b := sortCall.Block()
	if len(b.Preds) != 1 {
		return false
	}
	p := b.Preds[0]
	iff, ok := p.Instrs[len(p.Instrs)-1].(*ssa.If)
	if !ok {
		return false
	}
	bo, ok := iff.Cond.(*ssa.BinOp)
	if !ok {
		return false
	}
	isLen := func(v ssa.Value) bool {
		c, ok := v.(*ssa.Call)
		if !ok {
			return false
		}
		bi, ok := c.Call.Value.(*ssa.Builtin)
		return ok && bi.Name() == "len" && (viaCell(c.Call.Args[0]) == list || c.Call.Args[0] == list)
	}
	onTrue := p.Succs[0] == b
	switch {
	case isLen(bo.X) && bo.Op == token.GTR && isIntConst(bo.Y, 1) && onTrue,
		isLen(bo.X) && bo.Op == token.GEQ && isIntConst(bo.Y, 2) && onTrue,
		isLen(bo.X) && bo.Op == token.LSS && isIntConst(bo.Y, 2) && !onTrue,
		isLen(bo.X) && bo.Op == token.LEQ && isIntConst(bo.Y, 1) && !onTrue:
		// the block that holds the sort must itself dominate-or-rejoin: everything after the
		// guarded region sees a sorted list either way
		return p.Dominates(b)
	}
	return false
}

// expandHelperKinds: a call of a module helper that the loop's table entry does not know is
// replaced by what the helper does itself — its own calls (of functions that are not pure) and
// "store" when it writes memory it did not allocate. A loop body moved into a helper then shows
// the same effects as before.
func (r *Run) expandHelperKinds(l *mapLoop, allowed []string) []string {
	isAllowed := map[string]bool{}
	for _, a := range allowed {
		isAllowed[a] = true
	}
	var out []string
	seen := map[*ssa.Function]bool{}
	var expand func(k string, fn *ssa.Function, depth int)
	expand = func(k string, fn *ssa.Function, depth int) {
		if isAllowed[k] || fn == nil || depth > 2 || seen[fn] {
			out = append(out, k)
			return
		}
		seen[fn] = true
		for _, ins := range allInstrs(fn) {
			switch x := ins.(type) {
			case *ssa.Store:
				root := x.Addr
				for {
					if fa, ok := root.(*ssa.FieldAddr); ok {
						root = fa.X
						continue
					}
					if ia, ok := root.(*ssa.IndexAddr); ok {
						root = ia.X
						continue
					}
					break
				}
				if al, ok := root.(*ssa.Alloc); ok && al.Parent() == fn {
					continue
				}
				out = append(out, "store")
			case *ssa.MapUpdate:
				out = append(out, "mapwrite-unkeyed")
			case *ssa.Send, *ssa.Go:
				out = append(out, "concurrency")
			case *ssa.Call:
				if _, isB := x.Call.Value.(*ssa.Builtin); isB || isPureCall(&x.Call) || r.pureCallee(x) {
					continue
				}
				k2 := "call:" + calleeDesc(&x.Call)
				var f2 *ssa.Function
				if sc := x.Call.StaticCallee(); sc != nil && inModule(sc) && sc.Blocks != nil {
					f2 = sc
				}
				expand(k2, f2, depth+1)
			}
		}
		// a helper that can stop the loop early has to say so through its result: not modelled,
		// the caller's own exits are still seen in the loop itself
	}
	for _, k := range l.kinds {
		expand(k, l.kindFn[k], 0)
	}
	return out
}
