package main

import (
	"fmt"
	"go/ast"
	"go/token"
	"go/types"
	"strings"

	"golang.org/x/tools/go/ast/astutil"
	"golang.org/x/tools/go/ssa"
)

func instrIdx(ins ssa.Instruction) int {
	for i, x := range ins.Block().Instrs {
		if x == ins {
			return i
		}
	}
	return -1
}

// instrDominates: a is executed before b on every path reaching b (same function).
func instrDominates(a, b ssa.Instruction) bool {
	if a.Parent() != b.Parent() {
		return false
	}
	if a.Block() == b.Block() {
		return instrIdx(a) < instrIdx(b)
	}
	return a.Block().Dominates(b.Block())
}

// blockReach returns the blocks reachable from b through one or more edges.
func blockReach(b *ssa.BasicBlock) map[*ssa.BasicBlock]bool {
	seen := map[*ssa.BasicBlock]bool{}
	var w []*ssa.BasicBlock
	w = append(w, b.Succs...)
	for len(w) > 0 {
		x := w[len(w)-1]
		w = w[:len(w)-1]
		if seen[x] {
			continue
		}
		seen[x] = true
		w = append(w, x.Succs...)
	}
	return seen
}

func blockInCycle(b *ssa.BasicBlock) bool { return blockReach(b)[b] }

// loopOf returns the blocks of the smallest set closed under "on a cycle through b".
func loopBlocks(b *ssa.BasicBlock) map[*ssa.BasicBlock]bool {
	out := map[*ssa.BasicBlock]bool{}
	fwd := blockReach(b)
	if !fwd[b] {
		return out
	}
	for x := range fwd {
		if x == b || blockReach(x)[b] {
			out[x] = true
		}
	}
	out[b] = true
	return out
}

func allInstrs(fn *ssa.Function) []ssa.Instruction {
	var out []ssa.Instruction
	for _, b := range fn.Blocks {
		out = append(out, b.Instrs...)
	}
	return out
}

// withClosures returns fn and every function literal nested in it.
func withClosures(fn *ssa.Function) []*ssa.Function {
	out := []*ssa.Function{fn}
	for _, a := range fn.AnonFuncs {
		out = append(out, withClosures(a)...)
	}
	return out
}

// calleeName returns the qualified name of a statically resolved callee
// ("sync.(*WaitGroup).Done", "fmt.Errorf"), the builtin's name, or "".
// isHTTPDo: an interface method with the shape of (*http.Client).Do — a module-declared
// `interface{ Do(*http.Request) (*http.Response, error) }` stands for the client it abstracts.
func isHTTPDo(c *ssa.CallCommon) bool {
	if !c.IsInvoke() || c.Method.Name() != "Do" {
		return false
	}
	sig, ok := c.Method.Type().(*types.Signature)
	if !ok || sig.Params().Len() != 1 || sig.Results().Len() != 2 {
		return false
	}
	return sig.Params().At(0).Type().String() == "*net/http.Request" && sig.Results().At(0).Type().String() == "*net/http.Response"
}

func calleeName(c *ssa.CallCommon) string {
	if c.IsInvoke() {
		if isHTTPDo(c) {
			return "(*net/http.Client).Do"
		}
		return "invoke:" + c.Method.FullName()
	}
	if b, ok := c.Value.(*ssa.Builtin); ok {
		return "builtin:" + b.Name()
	}
	if sc := c.StaticCallee(); sc != nil {
		return extName(sc)
	}
	return ""
}

func returnsOf(fn *ssa.Function) []*ssa.Return {
	var out []*ssa.Return
	for _, b := range fn.Blocks {
		if fn.Recover != nil && b == fn.Recover {
			continue
		}
		if len(b.Instrs) == 0 {
			continue
		}
		if r, ok := b.Instrs[len(b.Instrs)-1].(*ssa.Return); ok {
			out = append(out, r)
		}
	}
	return out
}

// pathCount computes, over all paths that start right after instruction index
// startIdx-1 of block start (i.e. at Instrs[startIdx]) and end at a Return or at a block
// for which stop returns true, the minimum and maximum sum of weight(ins).
// cyclic is true when a cycle is met before a stop (then the numbers are meaningless).
// Paths ending in a panic are ignored unless nothing else exists.
func pathCount(start *ssa.BasicBlock, startIdx int, stop func(*ssa.BasicBlock) bool, weight func(ssa.Instruction) int) (min, max int, cyclic bool, ends int) {
	return pathCountX(start, startIdx, stop, weight, nil, nil)
}

// pathCountX is pathCount with two refinements: edge(b, k), when given, is a weight added on
// the edge from b to its k-th successor (what a branch on a callee's result tells about what
// the callee did), and paths ending in a Return for which skipRet holds are left out of the
// numbers (the paths of one class of results are counted apart from the others).
func pathCountX(start *ssa.BasicBlock, startIdx int, stop func(*ssa.BasicBlock) bool, weight func(ssa.Instruction) int, edge func(*ssa.BasicBlock, int) int, skipRet func(*ssa.Return) bool) (min, max int, cyclic bool, ends int) {
	type res struct {
		min, max int
		ok       bool
	}
	memo := map[*ssa.BasicBlock]*res{}
	onstack := map[*ssa.BasicBlock]bool{}
	var visit func(b *ssa.BasicBlock, from int, first bool) res
	visit = func(b *ssa.BasicBlock, from int, first bool) res {
		if !first {
			if stop != nil && stop(b) {
				ends++
				return res{0, 0, true}
			}
			if m := memo[b]; m != nil {
				return *m
			}
			if onstack[b] {
				cyclic = true
				return res{0, 0, false}
			}
			onstack[b] = true
			defer func() { onstack[b] = false }()
		}
		sum := 0
		for i := from; i < len(b.Instrs); i++ {
			sum += weight(b.Instrs[i])
		}
		last := b.Instrs[len(b.Instrs)-1]
		var r res
		switch last := last.(type) {
		case *ssa.Return:
			if skipRet != nil && skipRet(last) {
				r = res{0, 0, false}
				break
			}
			ends++
			r = res{sum, sum, true}
		case *ssa.Panic:
			r = res{0, 0, false}
		default:
			r = res{0, 0, false}
			for k, s := range b.Succs {
				sr := visit(s, 0, false)
				if !sr.ok {
					continue
				}
				if edge != nil {
					w := edge(b, k)
					sr.min, sr.max = sr.min+w, sr.max+w
				}
				if !r.ok {
					r = res{sum + sr.min, sum + sr.max, true}
				} else {
					if sum+sr.min < r.min {
						r.min = sum + sr.min
					}
					if sum+sr.max > r.max {
						r.max = sum + sr.max
					}
				}
			}
		}
		if !first {
			rr := r
			memo[b] = &rr
		}
		return r
	}
	r := visit(start, startIdx, true)
	return r.min, r.max, cyclic, ends
}

// mustPass reports whether every path from (start,startIdx) to a Return passes an
// instruction satisfying pred. A `defer` of a call satisfying predDefer counts, because a
// deferred call runs on every exit after the defer statement executed.
// It returns the first offending Return when the answer is false.
func mustPass(start *ssa.BasicBlock, startIdx int, pred func(ssa.Instruction) bool) (bool, ssa.Instruction) {
	seen := map[*ssa.BasicBlock]bool{}
	var bad ssa.Instruction
	var visit func(b *ssa.BasicBlock, from int) bool
	visit = func(b *ssa.BasicBlock, from int) bool {
		for i := from; i < len(b.Instrs); i++ {
			ins := b.Instrs[i]
			if pred(ins) {
				return true
			}
			if _, ok := ins.(*ssa.Return); ok {
				bad = ins
				return false
			}
		}
		for _, s := range b.Succs {
			if seen[s] {
				continue
			}
			seen[s] = true
			if !visit(s, 0) {
				return false
			}
		}
		return true
	}
	ok := visit(start, startIdx)
	return ok, bad
}

// derefType strips one pointer.
func derefType(t types.Type) types.Type {
	if p, ok := t.Underlying().(*types.Pointer); ok {
		return p.Elem()
	}
	return t
}

// namedOf returns "pkgpath.Name" for (pointers to) named types, else "".
func namedOf(t types.Type) string {
	t = derefType(t)
	if n, ok := t.(*types.Named); ok {
		if n.Obj().Pkg() == nil {
			return n.Obj().Name()
		}
		return n.Obj().Pkg().Path() + "." + n.Obj().Name()
	}
	return ""
}

func shortType(t types.Type) string {
	return types.TypeString(t, func(p *types.Package) string {
		return shortPkg(p.Path())
	})
}

// isErrorType: error, gqlerrors.ErrorList, *gqlerrors.Error
func isErrorish(t types.Type) bool {
	if t == nil {
		return false
	}
	if types.Identical(t, types.Universe.Lookup("error").Type()) {
		return true
	}
	switch namedOf(t) {
	case modPath + "/gqlerrors.ErrorList", modPath + "/gqlerrors.Error":
		return true
	case "github.com/vektah/gqlparser/v2/gqlerror.List", "github.com/vektah/gqlparser/v2/gqlerror.Error":
		return true
	}
	return false
}

// enclosing returns the AST path (innermost first) enclosing pos in the package of fn.
func (P *Prog) enclosing(pos token.Pos) ([]ast.Node, *types.Info) {
	for _, p := range P.Pkgs {
		for _, f := range p.Syntax {
			if f.Pos() <= pos && pos < f.End() {
				path, _ := astutil.PathEnclosingInterval(f, pos, pos)
				return path, p.TypesInfo
			}
		}
	}
	return nil, nil
}

// normExpr prints an expression with every local identifier replaced by its type, so
// that renaming locals does not change obligation keys. Package-level names, fields,
// methods and literals are kept.
func normExpr(info *types.Info, e ast.Expr) string { return printExpr(info, e, false) }

// idExpr prints an expression with every local identifier tagged by its declaration, so that
// two prints are equal only if they mention the same variables: the provers compare with
// this one (normExpr would equate two different locals of one type).
func idExpr(info *types.Info, e ast.Expr) string { return printExpr(info, e, true) }

func printExpr(info *types.Info, e ast.Expr, identity bool) string {
	var sb strings.Builder
	depth := 0
	top := false // the expression being printed is a whole index / slice bound: no parentheses needed around an inlined definition
	var w func(e ast.Expr)
	w = func(e ast.Expr) {
		isTop := top
		top = false
		switch e := e.(type) {
		case nil:
		case *ast.Ident:
			obj := info.Uses[e]
			if obj == nil {
				obj = info.Defs[e]
			}
			// a local that is assigned exactly once from a simple arithmetic expression is
			// replaced by that expression (`start := i * m; x[start:]` reads as `x[i*m:]`)
			if identity {
				if v, ok := obj.(*types.Var); ok && !v.IsField() {
					sb.WriteString(fmt.Sprintf("%s@%d", e.Name, v.Pos()))
					return
				}
				sb.WriteString(e.Name)
				return
			}
			if def := singleArithDef(info, obj); def != nil && depth < 3 {
				depth++
				_, atom := def.(*ast.BinaryExpr)
				if !isTop && atom {
					sb.WriteString("(")
				}
				w(def)
				if !isTop && atom {
					sb.WriteString(")")
				}
				depth--
				return
			}
			if v, ok := obj.(*types.Var); ok && !v.IsField() && v.Parent() != nil && v.Pkg() != nil && v.Parent() != v.Pkg().Scope() {
				sb.WriteString("‹" + shortType(v.Type()) + "›")
				return
			}
			sb.WriteString(e.Name)
		case *ast.SelectorExpr:
			w(e.X)
			sb.WriteString("." + e.Sel.Name)
		case *ast.IndexExpr:
			w(e.X)
			sb.WriteString("[")
			top = true
			w(e.Index)
			sb.WriteString("]")
		case *ast.SliceExpr:
			w(e.X)
			sb.WriteString("[")
			top = true
			w(e.Low)
			sb.WriteString(":")
			top = true
			w(e.High)
			if e.Slice3 {
				sb.WriteString(":")
				top = true
				w(e.Max)
			}
			sb.WriteString("]")
		case *ast.CallExpr:
			w(e.Fun)
			sb.WriteString("(")
			for i, a := range e.Args {
				if i > 0 {
					sb.WriteString(", ")
				}
				w(a)
			}
			sb.WriteString(")")
		case *ast.StarExpr:
			sb.WriteString("*")
			w(e.X)
		case *ast.UnaryExpr:
			sb.WriteString(e.Op.String())
			w(e.X)
		case *ast.BinaryExpr:
			w(e.X)
			sb.WriteString(e.Op.String())
			w(e.Y)
		case *ast.ParenExpr:
			sb.WriteString("(")
			w(e.X)
			sb.WriteString(")")
		case *ast.BasicLit:
			sb.WriteString(e.Value)
		case *ast.TypeAssertExpr:
			w(e.X)
			sb.WriteString(".(")
			if e.Type == nil {
				sb.WriteString("type")
			} else {
				sb.WriteString(types.ExprString(e.Type))
			}
			sb.WriteString(")")
		case *ast.CompositeLit:
			if e.Type != nil {
				sb.WriteString(types.ExprString(e.Type))
			}
			sb.WriteString("{…}")
		case *ast.FuncLit:
			sb.WriteString("func{…}")
		default:
			sb.WriteString(types.ExprString(e))
		}
	}
	w(e)
	return sb.String()
}

// unwrap strips conversions that do not change the identity of a value.
func unwrap(v ssa.Value) ssa.Value {
	for {
		switch x := v.(type) {
		case *ssa.ChangeType:
			v = x.X
		case *ssa.MakeInterface:
			v = x.X
		case *ssa.ChangeInterface:
			v = x.X
		default:
			return v
		}
	}
}

// isNilConst reports whether v is the nil constant.
func isNilConst(v ssa.Value) bool {
	c, ok := v.(*ssa.Const)
	return ok && c.Value == nil
}

func operandsOf(ins ssa.Instruction) []ssa.Value {
	var out []ssa.Value
	for _, op := range ins.Operands(nil) {
		if *op != nil {
			out = append(out, *op)
		}
	}
	return out
}

// dependsOn: does v transitively (through operands of value-instructions, within the
// function) depend on target?
func dependsOn(v, target ssa.Value) bool {
	seen := map[ssa.Value]bool{}
	var f func(v ssa.Value) bool
	f = func(v ssa.Value) bool {
		if v == target {
			return true
		}
		if seen[v] {
			return false
		}
		seen[v] = true
		ins, ok := v.(ssa.Instruction)
		if !ok {
			return false
		}
		for _, op := range operandsOf(ins) {
			if f(op) {
				return true
			}
		}
		return false
	}
	return f(v)
}

// mustDependOn: v depends on target on EVERY path that produces it — a phi depends only if
// all of its incoming values do; any other instruction if one of its operands does.
func mustDependOn(v, target ssa.Value) bool {
	memo := map[ssa.Value]int{} // 1 yes, 2 no, 3 in progress (treated as yes: loop-carried)
	var f func(v ssa.Value) bool
	f = func(v ssa.Value) bool {
		if v == target {
			return true
		}
		switch memo[v] {
		case 1, 3:
			return true
		case 2:
			return false
		}
		memo[v] = 3
		res := false
		if phi, ok := v.(*ssa.Phi); ok {
			res = len(phi.Edges) > 0
			for _, e := range phi.Edges {
				if !f(e) {
					res = false
					break
				}
			}
		} else if ins, ok := v.(ssa.Instruction); ok {
			for _, op := range operandsOf(ins) {
				if f(op) {
					res = true
					break
				}
			}
			// through a local object: a value read from a local variable depends on what was
			// written into it before (a store, or copy(dst, src)); the result of a method depends
			// on what earlier calls handed to the same receiver (`h.Write(b); h.Sum(nil)`)
			// a slice of a local array (the argument list of a variadic call such as
			// fmt.Sprintf) depends on what was stored into the elements before
			if sl, isSlice := v.(*ssa.Slice); isSlice && !res {
				if al, isAl := sl.X.(*ssa.Alloc); isAl {
					for _, w := range writesInto(al) {
						if instrDominates(w.at, ins) && f(w.src) {
							res = true
							break
						}
					}
				}
			}
			if !res {
				if ld, isLoad := v.(*ssa.UnOp); isLoad && ld.Op == token.MUL {
					if al, isAl := ld.X.(*ssa.Alloc); isAl {
						for _, w := range writesInto(al) {
							if instrDominates(w.at, ins) && f(w.src) {
								res = true
								break
							}
						}
					}
				}
				if c, isCall := v.(*ssa.Call); isCall {
					var recv ssa.Value
					if c.Call.IsInvoke() {
						recv = c.Call.Value
					} else if sc := c.Call.StaticCallee(); sc != nil && sc.Signature.Recv() != nil && len(c.Call.Args) > 0 {
						recv = c.Call.Args[0]
					}
					if recv != nil {
						for _, i2 := range allInstrs(c.Parent()) {
							c2, ok := i2.(*ssa.Call)
							if !ok || c2 == c || !instrDominates(c2, c) {
								continue
							}
							var r2 ssa.Value
							args := c2.Call.Args
							if c2.Call.IsInvoke() {
								r2 = c2.Call.Value
							} else if sc := c2.Call.StaticCallee(); sc != nil && sc.Signature.Recv() != nil && len(args) > 0 {
								r2, args = args[0], args[1:]
							}
							if r2 != recv {
								continue
							}
							for _, a := range args {
								if f(a) {
									res = true
								}
							}
						}
					}
				}
			}
		}
		if res {
			memo[v] = 1
		} else {
			memo[v] = 2
		}
		return res
	}
	return f(v)
}

// retVals returns the values a Return yields, looking through the locals go/ssa introduces
// for named results and for functions with defers (`*t3 = v; rundefers; t9 = *t3; return t9`).
func retVals(ret *ssa.Return) []ssa.Value {
	out := make([]ssa.Value, len(ret.Results))
	for i, v := range ret.Results {
		out[i] = v
		ld, ok := v.(*ssa.UnOp)
		if !ok || ld.Op != token.MUL {
			continue
		}
		al, ok := ld.X.(*ssa.Alloc)
		if !ok {
			continue
		}
		// last store in the same block before the load
		var last *ssa.Store
		for _, ins := range ret.Block().Instrs {
			if ins == ssa.Instruction(ld) {
				break
			}
			if st, ok := ins.(*ssa.Store); ok && st.Addr == ssa.Value(al) {
				last = st
			}
		}
		if last != nil {
			out[i] = last.Val
			continue
		}
		// a unique store that dominates the return
		var cand []*ssa.Store
		for _, st := range storesTo(al) {
			if st.Parent() == ret.Parent() {
				cand = append(cand, st)
			} else {
				cand = nil
				break
			}
		}
		if len(cand) == 1 && cand[0].Block().Dominates(ret.Block()) {
			out[i] = cand[0].Val
		}
	}
	return out
}

// naturalLoop returns the blocks of the natural loop(s) headed by h: h plus every block that
// reaches a back edge source (a predecessor dominated by h) without passing through h.
func naturalLoop(h *ssa.BasicBlock) map[*ssa.BasicBlock]bool {
	out := map[*ssa.BasicBlock]bool{}
	var work []*ssa.BasicBlock
	for _, p := range h.Preds {
		if h == p || h.Dominates(p) {
			work = append(work, p)
		}
	}
	if len(work) == 0 {
		return out
	}
	out[h] = true
	for len(work) > 0 {
		b := work[len(work)-1]
		work = work[:len(work)-1]
		if out[b] {
			continue
		}
		out[b] = true
		work = append(work, b.Preds...)
	}
	return out
}

// aliases returns v plus the loads of every single-assignment cell v is stored into (a local
// captured by a closure is a heap cell in go/ssa).
func aliases(v ssa.Value) []ssa.Value {
	out := []ssa.Value{v}
	refs := v.Referrers()
	if refs == nil {
		return out
	}
	for _, ref := range *refs {
		st, ok := ref.(*ssa.Store)
		if !ok || st.Val != v {
			continue
		}
		al, ok := st.Addr.(*ssa.Alloc)
		if !ok || len(storesTo(al)) != 1 {
			continue
		}
		for _, ins := range allInstrs(al.Parent()) {
			if ld, ok := ins.(*ssa.UnOp); ok && ld.Op == token.MUL && ld.X == ssa.Value(al) {
				out = append(out, ld)
			}
		}
	}
	return out
}

// localDefs caches, per types.Info, the defining expressions of single-assignment locals.
var localDefs = map[*types.Info]map[types.Object]ast.Expr{}
var localDefFiles = map[*types.Info][]*ast.File{}

// registerFiles tells normExpr which files belong to a types.Info.
func registerFiles(info *types.Info, files []*ast.File) { localDefFiles[info] = files }

func singleArithDef(info *types.Info, obj types.Object) ast.Expr {
	v, ok := obj.(*types.Var)
	if !ok || v.IsField() || v.Pkg() == nil || v.Parent() == nil || v.Parent() == v.Pkg().Scope() {
		return nil
	}
	if b, ok := v.Type().Underlying().(*types.Basic); !ok || b.Info()&types.IsInteger == 0 {
		return nil
	}
	defs, ok := localDefs[info]
	if !ok {
		defs = map[types.Object]ast.Expr{}
		count := map[types.Object]int{}
		for _, f := range localDefFiles[info] {
			ast.Inspect(f, func(n ast.Node) bool {
				switch s := n.(type) {
				case *ast.AssignStmt:
					for i, l := range s.Lhs {
						id, ok := l.(*ast.Ident)
						if !ok {
							continue
						}
						o := info.Defs[id]
						if o == nil {
							o = info.Uses[id]
						}
						if o == nil {
							continue
						}
						count[o]++
						if s.Tok == token.DEFINE && len(s.Lhs) == len(s.Rhs) {
							defs[o] = s.Rhs[i]
						} else {
							count[o] += 10
						}
					}
				case *ast.IncDecStmt:
					if id, ok := s.X.(*ast.Ident); ok {
						if o := info.Uses[id]; o != nil {
							count[o] += 10
						}
					}
				case *ast.RangeStmt:
					for _, kv := range []ast.Expr{s.Key, s.Value} {
						if id, ok := kv.(*ast.Ident); ok {
							if o := info.Defs[id]; o != nil {
								count[o] += 10
							}
						}
					}
				case *ast.UnaryExpr:
					if s.Op == token.AND {
						if id, ok := s.X.(*ast.Ident); ok {
							if o := info.Uses[id]; o != nil {
								count[o] += 10
							}
						}
					}
				}
				return true
			})
		}
		for o, c := range count {
			if c != 1 {
				delete(defs, o)
			}
		}
		// keep only arithmetic over identifiers, selectors, literals and len()
		for o, e := range defs {
			if !isSimpleArith(info, e) {
				delete(defs, o)
			}
		}
		localDefs[info] = defs
	}
	return defs[obj]
}

func isSimpleArith(info *types.Info, e ast.Expr) bool {
	switch x := e.(type) {
	case *ast.BinaryExpr:
		switch x.Op {
		case token.ADD, token.SUB, token.MUL:
			return isSimpleArith(info, x.X) && isSimpleArith(info, x.Y)
		}
		return false
	case *ast.ParenExpr:
		return isSimpleArith(info, x.X)
	case *ast.Ident, *ast.BasicLit:
		return true
	case *ast.SelectorExpr:
		_, ok := x.X.(*ast.Ident)
		return ok
	case *ast.CallExpr:
		_, ok := isLenOf(info, x)
		return ok
	}
	return false
}

type memWrite struct {
	at  ssa.Instruction
	src ssa.Value
}

// writesInto: the instructions that write (part of) a local variable: stores to it or to a
// field/element of it, and copy(dst, src) with dst a slice of it.
func writesInto(al *ssa.Alloc) []memWrite {
	var out []memWrite
	var walk func(addr ssa.Value, depth int)
	walk = func(addr ssa.Value, depth int) {
		if addr.Referrers() == nil || depth > 3 {
			return
		}
		for _, ref := range *addr.Referrers() {
			switch x := ref.(type) {
			case *ssa.Store:
				if x.Addr == addr {
					out = append(out, memWrite{x, x.Val})
				}
			case *ssa.FieldAddr:
				walk(x, depth+1)
			case *ssa.IndexAddr:
				walk(x, depth+1)
			case *ssa.Slice:
				for _, r2 := range *x.Referrers() {
					if c, ok := r2.(*ssa.Call); ok {
						if b, ok := c.Call.Value.(*ssa.Builtin); ok && b.Name() == "copy" && len(c.Call.Args) == 2 && c.Call.Args[0] == ssa.Value(x) {
							out = append(out, memWrite{c, c.Call.Args[1]})
						}
					}
				}
			}
		}
	}
	walk(al, 0)
	return out
}
