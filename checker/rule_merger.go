package main

// Merger / routing-table rules (C04, C05) and error-list structure (C10, C13, C20):
//  R13o  conflict guards of the merger dominate every accept path; both-direction field check
//  R13c  each schema is recorded under the URL of the same input
//  R13d  the Node flag is set exactly under the predicate the merger enforces
//  R6s   gqlerrors.ExtendErrorList / FormatError keep every error and its message/extensions/path

import (
	"go/constant"
	"go/token"
	"go/types"
	"sort"
	"strings"

	"golang.org/x/tools/go/ssa"
)

func returnsErrorOnAllPaths(fn *ssa.Function, from *ssa.BasicBlock) bool {
	ok, _ := mustPass(from, 0, func(i ssa.Instruction) bool {
		ret, isRet := i.(*ssa.Return)
		if !isRet {
			return false
		}
		for k, res := range retVals(ret) {
			if isErrorish(fn.Signature.Results().At(k).Type()) && !isNilConst(unwrap(res)) {
				return true
			}
		}
		return false
	})
	return ok
}

func isKindLoad(v ssa.Value) bool {
	v = unwrap(v)
	switch x := v.(type) {
	case *ssa.UnOp:
		if x.Op == token.MUL {
			if fa, ok := x.X.(*ssa.FieldAddr); ok && fieldOf(fa) != nil && fieldOf(fa).Name() == "Kind" && strings.HasSuffix(namedOf(fa.X.Type()), "ast.Definition") {
				return true
			}
		}
	case *ssa.Field:
		if f := fieldOfVal(x); f != nil && f.Name() == "Kind" {
			return true
		}
	}
	return false
}

// mergerGuardExemptions: the ways a same-named definition leaves mergeTypes without having its
// kind compared, each with what is known about it.
var mergerGuardExemptions = map[string]string{
	"name is Node": "the `Node` interface of a later service is dropped before any comparison (every service declares the same relay interface). " +
		"Its kind is NOT compared: `interface Node` in one service and `type Node {…}` in another merge silently in one order and fail in LoadSchema in the other (fourth audit, M-C2: a recorded weakness of pebbles, not covered by C05's kind-collision claim)",
}

func isNodePredicateCall(v ssa.Value) (*ssa.Call, bool) {
	c, ok := v.(*ssa.Call)
	if !ok || !strings.HasSuffix(calleeName(&c.Call), "merger.isImplementsNodeInterface") || len(c.Call.Args) != 1 {
		return nil, false
	}
	return c, true
}

// kindOwner: the definition whose Kind v loads (nil if v is no such load).
func kindOwner(v ssa.Value) ssa.Value {
	v = unwrap(v)
	switch x := v.(type) {
	case *ssa.UnOp:
		if x.Op == token.MUL {
			if fa, ok := x.X.(*ssa.FieldAddr); ok && fieldOf(fa) != nil && fieldOf(fa).Name() == "Kind" && strings.HasSuffix(namedOf(fa.X.Type()), "ast.Definition") {
				return copyOrigin(fa.X)
			}
		}
	case *ssa.Field:
		if f := fieldOfVal(x); f != nil && f.Name() == "Kind" {
			return copyOrigin(x.X)
		}
	}
	return nil
}

// isNodeNameTest: (atom, truth) says "this definition is the one called Node".
func isNodeNameTest(atom ssa.Value, truth bool) bool {
	isNodeConst := func(v ssa.Value) bool {
		k, ok := v.(*ssa.Const)
		return ok && k.Value != nil && k.Value.Kind() == constant.String && constant.StringVal(k.Value) == "Node"
	}
	// what is compared with "Node": the name of a definition, or the key of the ranged map
	isName := func(v ssa.Value) bool {
		switch x := unwrap(v).(type) {
		case *ssa.UnOp:
			fa, ok := x.X.(*ssa.FieldAddr)
			return ok && x.Op == token.MUL && fieldOf(fa) != nil && fieldOf(fa).Name() == "Name"
		case *ssa.Extract:
			_, ok := x.Tuple.(*ssa.Next)
			return ok && x.Index == 1
		}
		return false
	}
	switch c := atom.(type) {
	case *ssa.BinOp:
		if (c.Op == token.EQL || c.Op == token.NEQ) && ((isNodeConst(c.X) && isName(c.Y)) || (isNodeConst(c.Y) && isName(c.X))) {
			return (c.Op == token.EQL) == truth
		}
	case *ssa.Call:
		if strings.HasSuffix(calleeName(&c.Call), "common.IsNodeInterfaceName") {
			return truth
		}
	}
	return false
}

func ruleMergerGuards(r *Run) {
	const rule = "R13o"
	mt := r.Anchor(rule, "merger.mergeTypes")
	if mt != nil {
		name := fnName(mt)
		kindAtom := func(bo *ssa.BinOp) (ssa.Value, ssa.Value, bool) {
			x, y := kindOwner(bo.X), kindOwner(bo.Y)
			return x, y, x != nil && y != nil
		}
		nodeAtom := func(bo *ssa.BinOp) (ssa.Value, ssa.Value, bool) {
			cx, ok1 := isNodePredicateCall(bo.X)
			cy, ok2 := isNodePredicateCall(bo.Y)
			if !ok1 || !ok2 {
				return nil, nil, false
			}
			return cx.Call.Args[0], cy.Call.Args[0], true
		}
		isDefLookup := func(v ssa.Value) *ssa.Lookup {
			lk, ok := v.(*ssa.Lookup)
			if !ok {
				return nil
			}
			if m, ok := lk.X.Type().Underlying().(*types.Map); ok && strings.HasSuffix(namedOf(m.Elem()), "ast.Definition") {
				return lk
			}
			return nil
		}
		// found side: `va, found := result[k]` tested by found, or `va := result[k]` tested for nil
		type edge struct {
			from, to *ssa.BasicBlock
		}
		var foundSide map[*ssa.BasicBlock]bool
		var foundEdges []edge
		var kindG, nodeG *agreeGuard
		selfKind := false
		for _, ins := range allInstrs(mt) {
			iff, ok := ins.(*ssa.If)
			if !ok {
				continue
			}
			for k, s := range iff.Block().Succs {
				atom, truth, feasible := branchFact(iff.Block(), nil, k, nil)
				if !feasible || atom == nil {
					continue
				}
				found := false
				if ex, ok := atom.(*ssa.Extract); ok && ex.Index == 1 && truth {
					if lk, ok := ex.Tuple.(*ssa.Lookup); ok && lk.CommaOk && isDefLookup(lk) != nil {
						found = true
					}
				}
				if nonNil, ok := resolveNilTest(atom, func(v ssa.Value) bool {
					if ex, ok := v.(*ssa.Extract); ok && ex.Index == 0 {
						v = ex.Tuple
					}
					return isDefLookup(v) != nil
				}, 0); ok && nonNil == truth {
					found = true
				}
				if found {
					foundSide = union(foundSide, dominatedBy(s))
					foundEdges = append(foundEdges, edge{iff.Block(), s})
				}
			}
			if g := resolveGuard(iff, kindAtom); g != nil {
				if copyOrigin(g.x) == copyOrigin(g.y) {
					selfKind = true
					r.Bad(rule, name, "kind collision check", r.P.pos(iff.Cond.Pos()), "the kind comparison reads both kinds from the same definition (a copy compared with its own original): a name used for different kinds in two services is never noticed")
				} else {
					kindG = g
					r.Check(returnsErrorOnAllPaths(mt, g.diff), rule, name, "kind collision is an error", r.P.pos(iff.Cond.Pos()),
						"once the kinds of the incoming and the existing definition are compared, a difference returns an error on every path (the definition called Node never reaches the comparison, see the exemption)", "a name used for different kinds in two services does not always end in an error")
				}
			}
			if g := resolveGuard(iff, nodeAtom); g != nil {
				if copyOrigin(g.x) == copyOrigin(g.y) {
					r.Bad(rule, name, "Node-interface agreement check", r.P.pos(iff.Cond.Pos()), "Node-interface membership of a definition is compared with itself")
				} else {
					nodeG = g
					r.Check(returnsErrorOnAllPaths(mt, g.diff), rule, name, "Node-interface disagreement is an error", r.P.pos(iff.Cond.Pos()),
						"a type that implements Node in one service but not in the other returns an error on every path", "Node-interface disagreement does not always end in an error")
				}
			}
		}
		if kindG == nil && !selfKind {
			r.Bad(rule, name, "kind collision check", r.P.pos(mt.Pos()), "mergeTypes no longer compares the kinds of two same-named definitions")
		}
		// the pair handed to a function of the module (`merged, err := mergeDefinition(…, va, &nvb)`
		// where the name was found): what mergeTypes owes for its own merge calls and member
		// comparisons is owed there for those the helper makes — the Node-interface comparison
		// before its merge calls, both halves of each lo.Difference
		type pairHelper struct {
			fn           *ssa.Function
			site         *ssa.Call // the call in mergeTypes
			kindG, nodeG *agreeGuard
		}
		var helpers []*pairHelper
		if foundSide != nil {
			seenHelper := map[*ssa.Function]bool{}
			for _, ins := range allInstrs(mt) {
				c, ok := ins.(*ssa.Call)
				if !ok || !foundSide[c.Block()] {
					continue
				}
				sc := c.Call.StaticCallee()
				if sc == nil || !inModule(sc) || sc.Blocks == nil || seenHelper[sc] {
					continue
				}
				cn := calleeName(&c.Call)
				if strings.HasSuffix(cn, "merger.mergeRootObjects") || strings.HasSuffix(cn, "merger.mergeCustomObjects") {
					continue
				}
				defs := 0
				for _, p := range sc.Params {
					if strings.HasSuffix(namedOf(p.Type()), "ast.Definition") {
						defs++
					}
				}
				merges, compares := false, false
				for _, i2 := range allInstrs(sc) {
					if c2, ok := i2.(*ssa.Call); ok {
						cn2 := calleeName(&c2.Call)
						if strings.HasSuffix(cn2, "merger.mergeRootObjects") || strings.HasSuffix(cn2, "merger.mergeCustomObjects") {
							merges = true
						}
						if strings.HasPrefix(cn2, "github.com/samber/lo.Difference") {
							compares = true
						}
					}
				}
				// a helper that is handed the two definitions and merges or compares them, or one
				// that is handed parts of them (`checkSameFields(va.Fields, nvb.Fields)`) and makes a
				// member comparison: that comparison is one of mergeTypes'
				if !(compares || (defs >= 2 && merges)) {
					continue
				}
				seenHelper[sc] = true
				h := &pairHelper{fn: sc, site: c}
				for _, i2 := range allInstrs(sc) {
					iff, ok := i2.(*ssa.If)
					if !ok {
						continue
					}
					if g := resolveGuard(iff, kindAtom); g != nil && copyOrigin(g.x) != copyOrigin(g.y) {
						h.kindG = g
					}
					if g := resolveGuard(iff, nodeAtom); g != nil {
						if copyOrigin(g.x) == copyOrigin(g.y) {
							r.Bad(rule, name, "Node-interface agreement check", r.P.pos(iff.Cond.Pos()), "Node-interface membership of a definition is compared with itself")
						} else {
							h.nodeG = g
							r.Check(returnsErrorOnAllPaths(sc, g.diff), rule, name, "Node-interface disagreement is an error", r.P.pos(iff.Cond.Pos()),
								"a type that implements Node in one service but not in the other returns an error on every path", "Node-interface disagreement does not always end in an error")
						}
					}
				}
				helpers = append(helpers, h)
			}
		}
		helperNode := false
		for _, h := range helpers {
			if h.nodeG != nil {
				helperNode = true
			}
		}
		if nodeG == nil && !helperNode {
			r.Bad(rule, name, "Node-interface agreement check", r.P.pos(mt.Pos()), "mergeTypes no longer compares Node-interface membership of two same-named definitions")
		}
		if foundSide == nil {
			r.Bad(rule, name, "found/not-found split", r.P.pos(mt.Pos()), "lookup of the type in the accumulated result not recognised")
		}
		// every accept of an already-present name happens after the kind check
		if kindG != nil && foundSide != nil {
			kindEq := dominatedBy(kindG.same)
			var nodeEq map[*ssa.BasicBlock]bool
			if nodeG != nil {
				nodeEq = dominatedBy(nodeG.same)
			}
			n := 0
			for _, ins := range allInstrs(mt) {
				if !foundSide[ins.Block()] {
					continue
				}
				what := ""
				switch x := ins.(type) {
				case *ssa.MapUpdate:
					what = "result[k] = …"
				case *ssa.Call:
					cn := calleeName(&x.Call)
					if strings.HasSuffix(cn, "merger.mergeRootObjects") || strings.HasSuffix(cn, "merger.mergeCustomObjects") {
						what = "call " + cn[strings.LastIndex(cn, ".")+1:]
					}
				}
				if what == "" {
					continue
				}
				n++
				r.Check(kindEq[ins.Block()], rule, name, what+" after kind check", r.P.pos(ins.Pos()),
					"a definition whose name already exists is merged/overridden only after its kind was compared",
					"a same-named definition is accepted (overridden or merged) on a path that has not passed the kind-collision check: e.g. `scalar X` silently replaces an object or enum X, depending on service order")
				if strings.HasPrefix(what, "call") && nodeG != nil {
					r.Check(nodeEq[ins.Block()], rule, name, what+" after Node check", r.P.pos(ins.Pos()),
						"merged only after Node-interface membership was compared", "objects are merged on a path that skipped the Node-interface agreement check")
				}
			}
			for _, h := range helpers {
				var hKind, hNode map[*ssa.BasicBlock]bool
				if h.kindG != nil {
					hKind = dominatedBy(h.kindG.same)
				}
				if h.nodeG != nil {
					hNode = dominatedBy(h.nodeG.same)
				}
				for _, ins := range allInstrs(h.fn) {
					x, ok := ins.(*ssa.Call)
					if !ok {
						continue
					}
					cn := calleeName(&x.Call)
					if !strings.HasSuffix(cn, "merger.mergeRootObjects") && !strings.HasSuffix(cn, "merger.mergeCustomObjects") {
						continue
					}
					what := "call " + cn[strings.LastIndex(cn, ".")+1:]
					n++
					r.Check(hKind[ins.Block()], rule, name, what+" after kind check", r.P.pos(ins.Pos()),
						"a definition whose name already exists is merged/overridden only after its kind was compared",
						"a same-named definition is accepted (overridden or merged) on a path that has not passed the kind-collision check: e.g. `scalar X` silently replaces an object or enum X, depending on service order")
					r.Check(hNode[ins.Block()], rule, name, what+" after Node check", r.P.pos(ins.Pos()),
						"merged only after Node-interface membership was compared", "objects are merged on a path that skipped the Node-interface agreement check")
				}
			}
			r.AtLeast(rule, "accept sites for existing names", n, 1)
			// … and leaving the incoming definition out (a `continue`) is an accept as well: the
			// name keeps the kind the first service gave it. Every way from "the name exists" to
			// the next name or to the successful return passes the kind comparison.
			usedExempt := map[string]token.Pos{}
			for _, e := range foundEdges {
				loop := innermostLoop(e.from)
				var header *ssa.BasicBlock
				for b := range loop {
					for _, p := range b.Preds {
						if !loop[p] {
							header = b
						}
					}
				}
				q := &pathQuery{
					settleAt: func(b *ssa.BasicBlock) bool { return b == kindG.iff.Block() || kindEq[b] },
					settleEdge: func(atom ssa.Value, truth bool) bool {
						if isNodeNameTest(atom, truth) {
							if ins, ok := atom.(ssa.Instruction); ok {
								usedExempt["name is Node"] = ins.Pos()
							}
							return true
						}
						return false
					},
					badBlock: func(b *ssa.BasicBlock) bool { return header != nil && b == header },
					badRet:   isNilErrReturn,
				}
				w := q.run(e.to, e.from)
				site := r.P.pos(kindG.iff.Cond.Pos())
				if w != nil {
					site = r.P.pos(w.Pos())
					if w.Pos() == token.NoPos {
						site = r.P.pos(firstPos(w.Block()))
						if firstPos(w.Block()) == token.NoPos {
							site = r.P.pos(firstPos(e.to))
						}
					}
				}
				r.Check(w == nil, rule, name, "every way past an existing name compares the kinds", site,
					"from the point where the name is found in the accumulated result, the next name or the successful return is reached only through the kind comparison (or the Node exemption)",
					"an incoming definition whose name already exists can be passed over (skipped or kept as it is) without its kind having been compared with the existing one: which of two conflicting kinds survives then depends on the order of the services")
			}
			for k, pos := range usedExempt {
				r.Tabled(rule, name, "skipped before the kind check: "+k, r.P.pos(pos), "mergerGuardExemptions", mergerGuardExemptions[k])
			}
		}
		// union / interface members: each lo.Difference compares the member lists of the two
		// definitions, and a non-empty difference on either side is an error
		nDiff := 0
		diffInstrs := allInstrs(mt)
		for _, h := range helpers {
			diffInstrs = append(diffInstrs, allInstrs(h.fn)...)
		}
		for _, ins := range diffInstrs {
			c, ok := ins.(*ssa.Call)
			if !ok || !strings.HasPrefix(calleeName(&c.Call), "github.com/samber/lo.Difference") || len(c.Call.Args) != 2 {
				continue
			}
			nDiff++
			site := r.P.pos(c.Pos())
			// what a helper computes from its parameters alone is read from what mergeTypes
			// hands it
			readsOf := func(v ssa.Value) map[string]bool {
				out := containerReads(v)
				if len(out) > 0 {
					return out
				}
				for _, h := range helpers {
					if h.fn != c.Parent() || h.site == nil {
						continue
					}
					for _, k := range paramsBehind(v, h.fn) {
						if k < len(h.site.Call.Args) {
							for rd := range containerReads(h.site.Call.Args[k]) {
								out[rd] = true
							}
						}
					}
				}
				return out
			}
			ra, rb := readsOf(c.Call.Args[0]), readsOf(c.Call.Args[1])
			fields := map[string]bool{}
			for k := range ra {
				fields[strings.SplitN(k, " of ", 2)[0]] = true
			}
			for k := range rb {
				fields[strings.SplitN(k, " of ", 2)[0]] = true
			}
			construct := "members compared between the two definitions (" + setNames(fields) + ")"
			distinct := len(ra) > 0 && len(rb) > 0 && !sameStringSet(ra, rb)
			r.Check(distinct, rule, name, construct, site,
				"the two lists handed to lo.Difference are read from different definitions ("+setNames(ra)+" / "+setNames(rb)+")",
				"the two member lists handed to lo.Difference are read from the same place ("+setNames(ra)+"): a set is compared with itself and conflicting member sets are never noticed")
			var parts [2]ssa.Value
			for _, ref := range *c.Referrers() {
				if ex, ok := ref.(*ssa.Extract); ok && ex.Index < 2 {
					parts[ex.Index] = ex
				}
			}
			loop := innermostLoop(c.Block())
			var header *ssa.BasicBlock
			for b := range loop {
				for _, p := range b.Preds {
					if !loop[p] {
						header = b
					}
				}
			}
			for i, part := range parts {
				side := [2]string{"missing in the incoming definition", "missing in the existing definition"}[i]
				if part == nil {
					r.Bad(rule, name, "member difference is an error ("+side+")", site, "one half of the member comparison (what is "+side+") is not looked at: member sets that differ in that direction are accepted")
					continue
				}
				part := part
				q := &pathQuery{
					settleEdge: func(atom ssa.Value, truth bool) bool {
						empty, ok := emptinessTest(atom, truth, part)
						return ok && empty
					},
					badBlock: func(b *ssa.BasicBlock) bool { return header != nil && b == header },
					badRet:   isNilErrReturn,
				}
				w := q.run(c.Block(), nil)
				r.Check(w == nil, rule, name, "member difference is an error ("+side+")", site,
					"after the comparison, the next name or a successful return is reached only where this half of the difference is empty",
					"members that are "+side+" do not always end in an error (the two halves of lo.Difference are no longer both required to be empty): e.g. `union U = Dog | Cat` and `union U = Dog | Cat | Snake` merge silently")
			}
		}
		r.Check(nDiff > 0, rule, name, "union/interface member comparison", r.P.pos(mt.Pos()), "member sets are compared with lo.Difference (each call is checked: operands and both halves of the result)", "union/interface member sets are no longer compared")
	}
	// both directions
	mc := r.Anchor(rule, "merger.mergeCustomObjects")
	if mc != nil {
		var calls []*ssa.Call
		for _, ins := range allInstrs(mc) {
			if c, ok := ins.(*ssa.Call); ok && strings.HasSuffix(calleeName(&c.Call), "merger.mergeCustomObjectFields") {
				calls = append(calls, c)
			}
		}
		// the parameters of mergeCustomObjects that are definitions, and the positions at which
		// mergeCustomObjectFields takes definitions: forward = same order, reverse = swapped
		isDef := func(v ssa.Value) bool { return strings.HasSuffix(namedOf(v.Type()), "ast.Definition") }
		var defParams []ssa.Value
		for _, p := range mc.Params {
			if isDef(p) {
				defParams = append(defParams, p)
			}
		}
		fwd, rev := false, false
		for _, c := range calls {
			var defArgs []ssa.Value
			for _, a := range c.Call.Args {
				if isDef(a) {
					defArgs = append(defArgs, a)
				}
			}
			dominatesSuccess := true
			for _, ret := range returnsOf(mc) {
				if isNilErrReturn(ret) && !instrDominates(c, ret) {
					dominatesSuccess = false
				}
			}
			if !dominatesSuccess {
				r.Bad(rule, fnName(mc), "overlap check on every accept", r.P.pos(c.Pos()), "a field-overlap check is skipped on some path that accepts the merge: shared types that are neither identical nor disjoint can be accepted depending on which service comes first")
				continue
			}
			if len(defArgs) != 2 || len(defParams) != 2 {
				continue
			}
			// the type maps, where still passed, travel with their definition
			mapsFollow := func(swapped bool) bool {
				var mapParams, mapArgs []ssa.Value
				for _, p := range mc.Params {
					if !isDef(p) {
						mapParams = append(mapParams, p)
					}
				}
				for _, a := range c.Call.Args {
					if !isDef(a) {
						mapArgs = append(mapArgs, a)
					}
				}
				if len(mapParams) != 2 || len(mapArgs) != 2 {
					return len(mapArgs) == 0
				}
				if swapped {
					return mapArgs[0] == mapParams[1] && mapArgs[1] == mapParams[0]
				}
				return mapArgs[0] == mapParams[0] && mapArgs[1] == mapParams[1]
			}
			if defArgs[0] == defParams[0] && defArgs[1] == defParams[1] && mapsFollow(false) {
				fwd = true
			}
			if defArgs[0] == defParams[1] && defArgs[1] == defParams[0] && mapsFollow(true) {
				rev = true
			}
		}
		r.Check(fwd && rev, rule, fnName(mc), "overlap checked in both directions", r.P.pos(mc.Pos()),
			"mergeCustomObjectFields(a→b) and (b→a) both dominate every successful return",
			"the overlap classification of a shared type is not performed unconditionally in both directions before the merge is accepted: acceptance then depends on the order of the services")
	}
	// Node types never share a non-id field: no successful return of mergeCustomObjectFields is
	// reached while `implements Node` and `some field overlaps` both hold
	mf := r.Anchor(rule, "merger.mergeCustomObjectFields")
	if mf != nil {
		var nodeCall *ssa.Call
		for _, ins := range allInstrs(mf) {
			if c, ok := isNodePredicateCall(valueOfInstr(ins)); ok {
				nodeCall = c
			}
		}
		if nodeCall == nil {
			r.Bad(rule, fnName(mf), "Node overlap test", r.P.pos(mf.Pos()), "mergeCustomObjectFields no longer asks whether the shared type implements Node")
		} else {
			// where a field of the other definition was found among the fields collected so far
			overlapSide := map[*ssa.BasicBlock]bool{}
			for _, ins := range allInstrs(mf) {
				iff, ok := ins.(*ssa.If)
				if !ok {
					continue
				}
				nonNil, known := resolveNilTest(iff.Cond, func(v ssa.Value) bool {
					c, isCall := v.(*ssa.Call)
					return isCall && strings.HasSuffix(calleeName(&c.Call), "ast.FieldList).ForName")
				}, 0)
				if !known {
					continue
				}
				side := iff.Block().Succs[0]
				if !nonNil {
					side = iff.Block().Succs[1]
				}
				overlapSide = union(overlapSide, dominatedBy(side))
			}
			sawSome := false
			q := &pathQuery{
				settleEdge: func(atom ssa.Value, truth bool) bool {
					if _, ok := isNodePredicateCall(atom); ok && !truth {
						return true
					}
					// "some field overlaps": an or-accumulated flag, or the list of the
					// overlapping fields not being empty
					if isExistsAccumulator(atom) {
						sawSome = true
						return !truth
					}
					if e := lenOperand(atom); e != nil && isListOf(e, func(b *ssa.BasicBlock) bool { return overlapSide[b] }) {
						if empty, ok := emptinessTest(atom, truth, e); ok {
							sawSome = true
							return empty
						}
					}
					return false
				},
				badRet: isNilErrReturn,
			}
			w := q.run(mf.Blocks[0], nil)
			site := r.P.pos(nodeCall.Pos())
			if w != nil && w.Pos() != token.NoPos {
				site = r.P.pos(w.Pos())
			} else if ret, ok := w.(*ssa.Return); ok {
				site = r.P.pos(retPos(ret))
			}
			r.Check(w == nil && sawSome, rule, fnName(mf), "Node overlap test precedes every accept", site,
				"every successful return is reached only where the type does not implement Node or no field overlaps: `implements Node && some field overlaps` always ends in an error, whatever the order or naming of the two conjuncts",
				"a shared type can be accepted (e.g. as a complete copy) although it implements Node and some of its fields overlap (the test is skipped, or narrowed by a further condition): a Node type whose non-id field is declared by two services is merged silently and the field is routed to whichever service comes last")
		}
	}
	// root overlap
	mr := r.Anchor(rule, "merger.mergeRootObjects")
	if mr != nil {
		ok := false
		isForName := func(v ssa.Value) bool {
			c, isCall := v.(*ssa.Call)
			return isCall && strings.HasSuffix(calleeName(&c.Call), "ast.FieldList).ForName")
		}
		// through a helper predicate (`hasField(fields, name)`): the test is on the ForName call
		// inside it
		for _, ins := range allInstrs(mr) {
			iff, isIf := ins.(*ssa.If)
			if !isIf {
				continue
			}
			nonNil, known := resolveNilTest(iff.Cond, isForName, 0)
			if !known {
				continue
			}
			side := iff.Block().Succs[0]
			if !nonNil {
				side = iff.Block().Succs[1]
			}
			// side = non-nil (overlap) → error
			if returnsErrorOnAllPaths(mr, side) {
				ok = true
			}
		}
		r.Check(ok, rule, fnName(mr), "duplicate root field is an error", r.P.pos(mr.Pos()),
			"a root field that already exists returns an error", "the same root field declared by two services no longer ends in an error on every path")
	}
}

func valueOfInstr(ins ssa.Instruction) ssa.Value {
	v, _ := ins.(ssa.Value)
	return v
}

// ---- R13c / R13d --------------------------------------------------------------------------

// inputBase resolves "X.URL" / "X.Schema.Types" loads to the value X (a *MergeInput).
func mergeInputOf(v ssa.Value, wantURL bool, depth int) ssa.Value {
	if depth > 6 {
		return nil
	}
	v = unwrap(v)
	ld, ok := v.(*ssa.UnOp)
	if !ok || ld.Op != token.MUL {
		return nil
	}
	fa, ok := ld.X.(*ssa.FieldAddr)
	if !ok || fieldOf(fa) == nil {
		return nil
	}
	switch fieldOf(fa).Name() {
	case "URL":
		if wantURL && strings.HasSuffix(namedOf(fa.X.Type()), "merger.MergeInput") {
			return fa.X
		}
	case "Types":
		if wantURL {
			return nil
		}
		// either input.Schema.Types, or a local struct field that was assigned from it
		if al, ok := fa.X.(*ssa.Alloc); ok {
			for _, ref := range *al.Referrers() {
				if fa2, ok := ref.(*ssa.FieldAddr); ok && fa2.Field == fa.Field {
					for _, r2 := range *fa2.Referrers() {
						if st, ok := r2.(*ssa.Store); ok && st.Addr == ssa.Value(fa2) {
							if b := mergeInputOf(st.Val, false, depth+1); b != nil {
								return b
							}
						}
					}
				}
			}
			return nil
		}
		ld2, ok := fa.X.(*ssa.UnOp)
		if !ok || ld2.Op != token.MUL {
			return nil
		}
		fa2, ok := ld2.X.(*ssa.FieldAddr)
		if ok && fieldOf(fa2) != nil && fieldOf(fa2).Name() == "Schema" && strings.HasSuffix(namedOf(fa2.X.Type()), "merger.MergeInput") {
			return fa2.X
		}
	}
	return nil
}

func sameInput(a, b ssa.Value) bool {
	if a == b {
		return true
	}
	// inputs[0] loaded twice
	la, ok1 := a.(*ssa.UnOp)
	lb, ok2 := b.(*ssa.UnOp)
	if ok1 && ok2 && la.Op == token.MUL && lb.Op == token.MUL {
		ia, ok1 := la.X.(*ssa.IndexAddr)
		ib, ok2 := lb.X.(*ssa.IndexAddr)
		if ok1 && ok2 && ia.X == ib.X {
			ca, ok1 := ia.Index.(*ssa.Const)
			cb, ok2 := ib.Index.(*ssa.Const)
			if ok1 && ok2 && ca.Value != nil && cb.Value != nil && ca.Value.ExactString() == cb.Value.ExactString() {
				return true
			}
			return ia.Index == ib.Index
		}
	}
	return false
}

// listElement: v is element idx of the list base — `list[i]`, the element parameter of a
// lo.Map(list, func(el, i) …) callback (idx is then the callback's index parameter), or
// component k of such an element when the list is lo.ZipN(l0, l1, …): Zip puts l0[i], l1[i], …
// side by side at position i, so the component is element i of lk. The identity of base looks
// through single-assignment cells; (nil, nil) when v is nothing of the kind.
func listElement(f *ssa.Function, v ssa.Value, depth int) (base, idx ssa.Value) {
	if depth > 4 {
		return nil, nil
	}
	v = unwrap(v)
	component := func(tuple ssa.Value, k int) (ssa.Value, ssa.Value) {
		b, i := listElement(f, tuple, depth+1)
		zc, ok := b.(*ssa.Call)
		if !ok || i == nil {
			return nil, nil
		}
		name := strings.SplitN(calleeName(&zc.Call), "[", 2)[0]
		if !strings.HasPrefix(name, "github.com/samber/lo.Zip") || strings.Contains(name, "ZipBy") || k >= len(zc.Call.Args) {
			return nil, nil
		}
		return sliceIdentity(zc.Call.Args[k]), i
	}
	switch x := v.(type) {
	case *ssa.Parameter:
		if len(f.Params) == 2 && x == f.Params[0] {
			if src := loMapSource(f); src != nil {
				return sliceIdentity(src), f.Params[1]
			}
		}
	case *ssa.Field:
		return component(x.X, x.Field)
	case *ssa.UnOp:
		if x.Op != token.MUL {
			return nil, nil
		}
		switch a := x.X.(type) {
		case *ssa.IndexAddr:
			return sliceIdentity(a.X), a.Index
		case *ssa.FieldAddr:
			// a field of a tuple that lives in a variable
			if cell, ok := a.X.(*ssa.Alloc); ok {
				if sts := storesTo(cell); len(sts) == 1 {
					return component(sts[0].Val, a.Field)
				}
			}
		case *ssa.Alloc:
			if sts := storesTo(a); len(sts) == 1 {
				return listElement(f, sts[0].Val, depth+1)
			}
		}
	}
	return nil, nil
}

func ruleRoutingPairs(r *Run) {
	const rule = "R13c"
	mg := r.Anchor(rule, "merger.(ExtendMergerFunc).Merge")
	n := 0
	if mg != nil {
		// a recording site: SetFromSchema(x.Schema.Types, x.URL), or a helper that is handed the
		// input x and does that with its parameter
		type recSite struct {
			call  *ssa.Call
			input ssa.Value
		}
		var sites []recSite
		checkPair := func(in *ssa.Function, c *ssa.Call) ssa.Value {
			s := mergeInputOf(c.Call.Args[1], false, 0)
			u := mergeInputOf(c.Call.Args[2], true, 0)
			good := s != nil && u != nil && sameInput(s, u)
			r.Check(good, rule, fnName(in), "SetFromSchema(schema, url) of one input", r.P.pos(c.Pos()),
				"the type map and the URL passed to SetFromSchema are fields of the same MergeInput",
				"a schema's fields are recorded in the routing table under the URL of a different input: every field of that service is routed to the wrong service")
			if !good {
				return nil
			}
			return s
		}
		isSFS := func(c *ssa.Call) bool {
			return strings.HasSuffix(calleeName(&c.Call), "merger.TypeURLMap).SetFromSchema") && len(c.Call.Args) == 3
		}
		for _, ins := range allInstrs(mg) {
			c, ok := ins.(*ssa.Call)
			if !ok {
				continue
			}
			if isSFS(c) {
				n++
				if in := checkPair(mg, c); in != nil {
					sites = append(sites, recSite{c, in})
				}
				continue
			}
			sc := c.Call.StaticCallee()
			if sc == nil || !inModule(sc) || sc.Blocks == nil || topFn(sc).Pkg != topFn(mg).Pkg {
				continue
			}
			for _, i2 := range allInstrs(sc) {
				c2, ok := i2.(*ssa.Call)
				if !ok || !isSFS(c2) {
					continue
				}
				n++
				in := checkPair(sc, c2)
				if in == nil {
					continue
				}
				for k, p := range sc.Params {
					if ssa.Value(p) == in && k < len(c.Call.Args) {
						sites = append(sites, recSite{c, c.Call.Args[k]})
					}
				}
			}
		}
		// which inputs are recorded: inputs[c] for a constant c, or every element from c on when
		// the site sits in a range over inputs[c:]
		var inputsParam ssa.Value
		for _, p := range mg.Params {
			if sl, ok := p.Type().Underlying().(*types.Slice); ok && strings.HasSuffix(namedOf(sl.Elem()), "merger.MergeInput") {
				inputsParam = p
			}
		}
		consts := map[int64]bool{}
		from := int64(-1)
		for _, st := range sites {
			ld, ok := unwrap(st.input).(*ssa.UnOp)
			if !ok || ld.Op != token.MUL {
				continue
			}
			ia, ok := ld.X.(*ssa.IndexAddr)
			if !ok {
				continue
			}
			base, low := ia.X, int64(0)
			if sl, ok := base.(*ssa.Slice); ok && sl.High == nil && sl.Max == nil {
				base = sl.X
				if sl.Low != nil {
					k, ok := sl.Low.(*ssa.Const)
					if !ok || k.Value == nil {
						continue
					}
					low, _ = constant.Int64Val(k.Value)
				}
			}
			if inputsParam == nil || base != inputsParam {
				continue
			}
			if k, ok := ia.Index.(*ssa.Const); ok && k.Value != nil {
				c, _ := constant.Int64Val(k.Value)
				// on every successful path
				dom := true
				for _, ret := range returnsOf(mg) {
					if isNilErrReturn(ret) && !instrDominates(st.call, ret) {
						dom = false
					}
				}
				if dom {
					consts[low+c] = true
				}
				continue
			}
			if !isRangeIndex(ia.Index) {
				continue
			}
			loop := innermostLoop(st.call.Block())
			var header *ssa.BasicBlock
			for b := range loop {
				for _, p := range b.Preds {
					if !loop[p] {
						header = b
					}
				}
			}
			if header == nil {
				continue
			}
			call := st.call
			q := &pathQuery{
				settleIns: func(i ssa.Instruction) bool { return i == ssa.Instruction(call) },
				settleAt:  func(b *ssa.BasicBlock) bool { return !loop[b] },
				badBlock:  func(b *ssa.BasicBlock) bool { return b == header },
			}
			if q.run(header, nil) != nil {
				continue
			}
			if from < 0 || low < from {
				from = low
			}
		}
		covered := from >= 0
		for c := int64(0); covered && c < from; c++ {
			if !consts[c] {
				covered = false
			}
		}
		r.Check(covered, rule, fnName(mg), "every input is recorded", r.P.pos(mg.Pos()),
			"the recording sites cover inputs[0], inputs[1], … (constant indices plus a range over the rest), each on every path that goes on",
			"not every input of Merge has its schema recorded in the routing table under its URL (an input is left out, or recorded only under a condition): the fields of that service have no route")
	}
	r.AtLeast(rule, "SetFromSchema calls in Merge", n, 1)
	ruleSchemaPerURL(r)
	ng := r.Anchor(rule, "pebbles.NewGateway")
	if ng != nil {
		// &MergeInput{Schema: schemas[i], URL: given[i]} with one i, where `given` is the very list
		// that was handed to the introspector
		var given, schemas ssa.Value
		for _, ins := range allInstrs(ng) {
			ci, ok := ins.(ssa.CallInstruction)
			if !ok {
				continue
			}
			c := ci.Common()
			isIntro := (c.IsInvoke() && c.Method.Name() == "IntrospectRemoteSchemas") || strings.HasSuffix(calleeName(c), ".IntrospectRemoteSchemas")
			if !isIntro || len(c.Args) == 0 {
				continue
			}
			given = sliceIdentity(c.Args[len(c.Args)-1])
			if v, ok := ci.(ssa.Value); ok && v.Referrers() != nil {
				for _, ref := range *v.Referrers() {
					if ex, ok := ref.(*ssa.Extract); ok && ex.Index == 0 {
						schemas = ex
					}
				}
			}
		}
		okPair := false
		why := "introspected schemas are not paired with their URLs by one common index"
		if given == nil || schemas == nil {
			why = "the call of the introspector (and the list of URLs it is given) was not found in NewGateway"
		}
		// where the pairing may be made: NewGateway, its function literals, and the functions of
		// the module it hands lists to (`newMergeInputs(schemas, urls)`), with theirs. A list that
		// is a parameter of such a function is the list its one caller passes.
		scope := withClosures(ng)
		inScope := map[*ssa.Function]bool{}
		for _, f := range scope {
			inScope[f] = true
		}
		sitesOf := map[*ssa.Function][]*ssa.Call{}
		for start, depth := 0, 0; start < len(scope) && depth < 3; depth++ {
			hi := len(scope)
			for _, f := range scope[start:hi] {
				for _, ins := range allInstrs(f) {
					c, ok := ins.(*ssa.Call)
					if !ok {
						continue
					}
					sc := c.Call.StaticCallee()
					if sc == nil || !inModule(sc) || sc.Blocks == nil || sc.Parent() != nil {
						continue
					}
					lists := false
					for _, a := range c.Call.Args {
						if _, isSlice := a.Type().Underlying().(*types.Slice); isSlice {
							lists = true
						}
					}
					if !lists {
						continue
					}
					sitesOf[sc] = append(sitesOf[sc], c)
					if !inScope[sc] {
						for _, g := range withClosures(sc) {
							inScope[g] = true
							scope = append(scope, g)
						}
					}
				}
			}
			start = hi
		}
		callerList := func(base ssa.Value) ssa.Value {
			for depth := 0; depth < 3; depth++ {
				p, ok := base.(*ssa.Parameter)
				if !ok || p.Parent() == nil || p.Parent() == ng || len(sitesOf[p.Parent()]) != 1 {
					return base
				}
				site := sitesOf[p.Parent()][0]
				k := -1
				for i, q := range p.Parent().Params {
					if q == p {
						k = i
					}
				}
				if k < 0 || k >= len(site.Call.Args) {
					return base
				}
				base = sliceIdentity(site.Call.Args[k])
			}
			return base
		}
		for _, f := range scope {
			for _, ins := range allInstrs(f) {
				al, ok := ins.(*ssa.Alloc)
				if !ok || !strings.HasSuffix(namedOf(al.Type()), "merger.MergeInput") || given == nil || schemas == nil {
					continue
				}
				var si, ui, ubase ssa.Value
				for _, ref := range *al.Referrers() {
					fa, ok := ref.(*ssa.FieldAddr)
					if !ok || fieldOf(fa) == nil {
						continue
					}
					for _, r2 := range *fa.Referrers() {
						st, ok := r2.(*ssa.Store)
						if !ok {
							continue
						}
						// which element of which list the stored value is
						base, idx := listElement(f, st.Val, 0)
						if base != nil {
							base = callerList(base)
						}
						switch fieldOf(fa).Name() {
						case "Schema":
							if base == schemas {
								si = idx
							}
						case "URL":
							ui, ubase = idx, base
						}
					}
				}
				if si != nil && ui != nil && si == ui {
					if ubase == given {
						okPair = true
					} else {
						why = "schema i is paired with element i of a list that is not the list handed to the introspector (the introspector was given a copy, a sorted or a filtered list): schemas[i] is then not the schema of that URL, and every field of one service is routed to another"
					}
				}
			}
		}
		r.Check(okPair, rule, fnName(ng), "MergeInput{schemas[i], urls[i]}", r.P.pos(ng.Pos()),
			"schema i is paired with element i of the very list the introspector was given", why)
	}
}

// ruleSchemaPerURL (R13c, the introspector's clause): IntrospectRemoteSchemas hands back one
// schema per URL it was given, in the order it was given them — schemas[n] is the reconstruction
// of the service behind urls[n]. This is the part of R13c that is about what the introspector
// answers (C15: the reconstruction the gateway holds for a service is that service's); what
// NewGateway and Merge then do with the pair is routing (C04, C05, C06) and stays in
// ruleRoutingPairs, which includes this clause.
func ruleSchemaPerURL(r *Run) {
	const rule = "R13c"
	// NewGateway pairs schemas[i] with urls[i]: the introspector must hand back one schema per
	// URL it was given, in the order it was given them
	if irs := r.Anchor(rule, "introspection.(*ParallelRemoteSchemaIntrospector).IntrospectRemoteSchemas"); irs != nil {
		call, mapF, _ := r.amrSite(irs)
		site := r.P.pos(irs.Pos())
		if call != nil {
			site = r.P.pos(call.Pos())
		}
		var fo *fanout
		if call != nil && mapF != nil && len(irs.Params) == 2 {
			fo = fanoutOver(irs, call, mapF, irs.Params[1])
		}
		r.Check(fo != nil, rule, fnName(irs), "one schema per given URL", site,
			"the fan-out runs over every index of the URL list as received (lo.Range(len(urls)), or lo.Map(urls, …) that keeps URL and index together; the list is never reassigned, filtered or chunked)",
			"the introspector no longer fans out over exactly the URL list it was given (the list is filtered, de-duplicated, re-sliced or the fan-out is split): NewGateway pairs schemas[i] with urls[i], so a shorter or re-ordered result records a service's fields under another service's URL")
		if fo != nil {
			// the URL that is introspected and the index that is carried belong together
			fetches, carried := false, (*types.Var)(nil)
			for _, ins := range allInstrs(mapF) {
				switch x := ins.(type) {
				case ssa.CallInstruction:
					for _, a := range x.Common().Args {
						if fo.isURL(unwrap(a)) {
							fetches = true
						}
					}
				case *ssa.Store:
					if fa, ok := x.Addr.(*ssa.FieldAddr); ok && fo.isIndex(unwrap(x.Val)) {
						carried = fieldOf(fa)
					}
				}
			}
			r.Check(fetches && carried != nil, rule, fnName(mapF), "URL i is introspected and index i is carried", r.P.pos(mapF.Pos()),
				"the per-URL function introspects the URL of its own index and stores that index in its result",
				"the per-URL function does not introspect the URL that belongs to the index it carries: after the sort, schema and URL of different services are paired")
			if carried != nil {
				r.checkIntrospectionOrder(rule, irs, call, carried)
			}
		}
	}
}

func ruleNodeFlag(r *Run) {
	const rule = "R13d"
	fn := r.Anchor(rule, "merger.(TypeURLMap).SetFromSchema")
	if fn == nil {
		return
	}
	// the setter itself records the flag on every path (it creates the entry when needed)
	if set := r.Anchor(rule, "merger.(TypeURLMap).SetTypeIsImplementsNode"); set != nil {
		okSet, bad := mustPass(set.Blocks[0], 0, func(i ssa.Instruction) bool {
			st, ok := i.(*ssa.Store)
			if !ok {
				return false
			}
			fa, ok := st.Addr.(*ssa.FieldAddr)
			return ok && fieldOf(fa) != nil && fieldOf(fa).Name() == "IsImplementsNode"
		})
		site := r.P.pos(set.Pos())
		if !okSet && bad != nil {
			site = r.P.pos(bad.Pos())
		}
		r.Check(okSet, rule, fnName(set), "flag stored on every path", site,
			"every path through SetTypeIsImplementsNode stores IsImplementsNode (creating the entry if the type has none yet)",
			"SetTypeIsImplementsNode can return without recording the flag (for a type that has no entry yet): a Node type whose only field is `id` is never marked stitchable, and the planner cannot locate it")
	}
	var isContainsNode func(v ssa.Value) bool
	isContainsNode = func(v ssa.Value) bool {
		c, ok := v.(*ssa.Call)
		if !ok {
			return false
		}
		// a predicate of the module that tests the same thing on its parameter
		if sc := c.Call.StaticCallee(); sc != nil && inModule(sc) && sc.Blocks != nil && !strings.Contains(calleeName(&c.Call), "samber/lo.") {
			readsInterfaces, namesNode := false, false
			for _, ins := range allInstrs(sc) {
				if fa, ok := ins.(*ssa.FieldAddr); ok && fieldOf(fa) != nil && fieldOf(fa).Name() == "Interfaces" {
					readsInterfaces = true
				}
				for _, op := range ins.Operands(nil) {
					if k, ok := (*op).(*ssa.Const); ok && k.Value != nil && k.Value.Kind() == constant.String && constant.StringVal(k.Value) == "Node" {
						namesNode = true
					}
				}
			}
			return readsInterfaces && namesNode
		}
		if !strings.HasPrefix(calleeName(&c.Call), "github.com/samber/lo.Contains") || len(c.Call.Args) != 2 {
			return false
		}
		k, ok := c.Call.Args[1].(*ssa.Const)
		return ok && k.Value != nil && k.Value.ExactString() == `"Node"` && dependsOnField(c.Call.Args[0], "Interfaces")
	}
	// the test may sit in SetFromSchema or in a helper it hands each definition to
	region := r.P.CG.Reachable([]*ssa.Function{fn}, nil)
	var holders []*ssa.Function
	for g := range region {
		if topFn(g).Pkg == topFn(fn).Pkg && g.Blocks != nil {
			holders = append(holders, g)
		}
	}
	sort.Slice(holders, func(i, j int) bool { return fnName(holders[i]) < fnName(holders[j]) })
	isSet := func(i ssa.Instruction) bool {
		ci, ok := i.(ssa.CallInstruction)
		return ok && strings.HasSuffix(calleeName(ci.Common()), "merger.TypeURLMap).SetTypeIsImplementsNode")
	}
	// the filters under which a definition is not recorded at all (R13d.exempt classifies them)
	notRecorded := func(atom ssa.Value, truth bool) bool {
		switch c := atom.(type) {
		case *ssa.BinOp:
			if c.Op != token.EQL && c.Op != token.NEQ {
				return false
			}
			for _, p := range [][2]ssa.Value{{c.X, c.Y}, {c.Y, c.X}} {
				if k, ok := p[1].(*ssa.Const); ok && isKindLoad(p[0]) && k.Value != nil && k.Value.Kind() == constant.String && constant.StringVal(k.Value) == "OBJECT" {
					return (c.Op == token.NEQ) == truth
				}
			}
		case *ssa.Call:
			return truth && strings.HasSuffix(calleeName(&c.Call), "common.IsBuiltinName")
		}
		return false
	}
	// covers: within one round of the loop around `at` (or one call of g, and then one round at
	// each of its callers), every path on which the definition is recorded and implements Node
	// executes an instruction accepted by settle
	var covers func(g *ssa.Function, at *ssa.BasicBlock, settle func(ssa.Instruction) bool, depth int) bool
	covers = func(g *ssa.Function, at *ssa.BasicBlock, settle func(ssa.Instruction) bool, depth int) bool {
		q := &pathQuery{
			settleIns: settle,
			settleEdge: func(atom ssa.Value, truth bool) bool {
				return (isContainsNode(atom) && !truth) || notRecorded(atom, truth)
			},
		}
		if loop := innermostLoop(at); loop != nil {
			var header *ssa.BasicBlock
			for b := range loop {
				for _, p := range b.Preds {
					if !loop[p] {
						header = b
					}
				}
			}
			if header == nil {
				return false
			}
			q.settleAt = func(b *ssa.BasicBlock) bool { return !loop[b] }
			q.badBlock = func(b *ssa.BasicBlock) bool { return b == header }
			return q.run(header, nil) == nil
		}
		q.badRet = func(*ssa.Return) bool { return true }
		if q.run(g.Blocks[0], nil) != nil {
			return false
		}
		if g == fn {
			return true
		}
		if depth >= 3 {
			return false
		}
		callers := 0
		for _, e := range r.P.CG.In[g] {
			if e.Kind != "static" || !region[e.Caller] && e.Caller != fn {
				continue
			}
			callers++
			site := e.Site
			if !covers(e.Caller, site.Block(), func(i ssa.Instruction) bool { return i == ssa.Instruction(site) }, depth+1) {
				return false
			}
		}
		return callers > 0
	}
	n := 0
	for _, g := range holders {
		for _, ins := range allInstrs(g) {
			iff, ok := ins.(*ssa.If)
			if !ok || !isContainsNode(iff.Cond) {
				continue
			}
			n++
			r.Check(covers(g, iff.Block(), isSet, 0), rule, fnName(g), "Node flag set whenever the type implements Node", r.P.pos(iff.Cond.Pos()),
				"every path on which a recorded definition implements Node calls SetTypeIsImplementsNode before the next definition (conjuncts before or after the test, helpers and moved statements included)",
				"a type that implements Node can pass through SetFromSchema without being marked stitchable (the call is skipped under an extra condition): id-only Node types lose their flag and the planner reports `could not find location type`")
			// and not set otherwise
			for _, i2 := range allInstrs(g) {
				if isSet(i2) {
					side := iff.Block().Succs[0]
					r.Check(len(side.Preds) == 1 && (side == i2.Block() || side.Dominates(i2.Block())), rule, fnName(g), "Node flag only for Node types", r.P.pos(i2.Pos()),
						"SetTypeIsImplementsNode is reached only where lo.Contains(Interfaces, \"Node\") holds", "the Node flag can be set for a type that does not implement Node")
				}
			}
		}
	}
	r.AtLeast(rule, "implements-Node tests in SetFromSchema", n, 1)
	// what is routed depends on the schema being recorded, never on what the table holds already
	if len(fn.Params) > 0 {
		recv := fn.Params[0]
		for _, ins := range allInstrs(fn) {
			iff, ok := ins.(*ssa.If)
			if !ok {
				continue
			}
			dep := false
			for _, i2 := range allInstrs(fn) {
				switch x := i2.(type) {
				case *ssa.Lookup:
					if x.X == ssa.Value(recv) && dependsOn(iff.Cond, x) {
						dep = true
					}
				case *ssa.Call:
					if len(x.Call.Args) > 0 && x.Call.Args[0] == ssa.Value(recv) && dependsOn(iff.Cond, x) {
						dep = true
					}
				}
			}
			r.Check(!dep, "R13q", fnName(fn), "routing decision independent of table state", r.P.pos(iff.Cond.Pos()),
				"the branch depends on the schema being recorded only", "whether a type/field of this service is recorded depends on what the routing table already contains: fields that a later service adds to a type already seen (a shared value type extended by another service) are left without a route")
		}
	}
	// the merger's own predicate has the same shape
	p := r.Anchor(rule, "merger.isImplementsNodeInterface")
	if p != nil {
		ok := false
		for _, ret := range returnsOf(p) {
			if isContainsNode(retVals(ret)[0]) {
				ok = true
			}
		}
		r.Check(ok, rule, fnName(p), "merger predicate agrees", r.P.pos(p.Pos()), "isImplementsNodeInterface is lo.Contains(Interfaces, \"Node\") as well", "the merger's Node predicate differs from the one used to fill the routing table")
	}
}

// ---- R6s ----------------------------------------------------------------------------------

func ruleErrStructure(r *Run) {
	const rule = "R6s"
	ext := r.Anchor(rule, "gqlerrors.ExtendErrorList")
	fe := r.Anchor(rule, "gqlerrors.FormatError")
	if ext != nil && len(ext.Params) == 2 {
		for _, ret := range returnsOf(ext) {
			v := retVals(ret)[0]
			ok := false
			if c, isCall := v.(*ssa.Call); isCall {
				if b, isB := c.Call.Value.(*ssa.Builtin); isB && b.Name() == "append" && len(c.Call.Args) == 2 && unwrap(c.Call.Args[0]) == ssa.Value(ext.Params[0]) {
					if fc, isCall := unwrap(c.Call.Args[1]).(*ssa.Call); isCall && strings.HasSuffix(calleeName(&fc.Call), "gqlerrors.FormatError") && len(fc.Call.Args) == 1 && fc.Call.Args[0] == ssa.Value(ext.Params[1]) {
						ok = true
					}
				}
			}
			// `if err == nil { return errs }`: FormatError(nil) is the empty list, so the old list
			// alone is the same answer — on the nil side of a test of the error, and only there
			if !ok && v == ssa.Value(ext.Params[0]) {
				for _, ins := range allInstrs(ext) {
					if iff, isIf := ins.(*ssa.If); isIf {
						if side := nilTestSideEq(iff, ext.Params[1]); side != nil && len(side.Preds) == 1 && (side == ret.Block() || side.Dominates(ret.Block())) {
							ok = true
						}
					}
				}
			}
			r.Check(ok, rule, fnName(ext), "errs ++ FormatError(err)", r.P.pos(retPos(ret)),
				"the result is append(errs, FormatError(err)...): nothing is dropped or reordered",
				"ExtendErrorList no longer returns exactly the old list followed by all formatted errors (truncation/filtering): which errors survive then depends on the arrival order of concurrently failing steps (C13) and client-visible errors are lost (C10, C20)")
		}
	}
	// FormatError answers the empty list for the nil error only: any other early return of a
	// list that is certainly empty — the nil constant, the empty literal ErrorList{}, make(…, 0)
	// — (a nil *Error inside a list, a typed nil handed in as an error, an error it does not
	// like) makes an error vanish — and a failed step whose error list formats to nothing is
	// taken for a success. The helpers of the package that return an error list are held to the
	// same: the empty answer only under `p == nil` on an interface-typed parameter of their own.
	emptyAnswerOnlyForNil := func(fn *ssa.Function) {
		for _, ret := range returnsOf(fn) {
			for i, v := range retVals(ret) {
				if !isErrorListType(fn.Signature.Results().At(i).Type()) {
					continue
				}
				how := certainlyEmptyList(v, 0)
				if how == "" {
					continue
				}
				okNil := false
				for _, ins := range allInstrs(fn) {
					iff, isIf := ins.(*ssa.If)
					if !isIf {
						continue
					}
					for _, p := range fn.Params {
						if !types.IsInterface(p.Type()) {
							continue
						}
						if side := nilTestSideEq(iff, p); side != nil && len(side.Preds) == 1 && (side == ret.Block() || side.Dominates(ret.Block())) {
							okNil = true
						}
					}
				}
				r.Check(okNil, rule, fnName(fn), "empty answer only for the nil error", r.P.pos(retPos(ret)),
					"the empty list ("+how+") is returned under `err == nil` on the parameter itself",
					fnName(fn)+" returns the empty list ("+how+") for something that is not the nil error (a typed nil inside a non-nil interface is not nil): that error disappears from the response, and a step that failed only with it is treated as a success with no data")
			}
		}
	}
	if fe != nil && len(fe.Params) == 1 {
		emptyAnswerOnlyForNil(fe)
	}
	// the functions that take part in formatting: the two entry points and the helpers of
	// their package they call that handle error lists (a `compact(list)` step, a shared
	// `formatErrorSlice` builder)
	region := []*ssa.Function{}
	seenFn := map[*ssa.Function]bool{}
	for _, root := range []*ssa.Function{ext, fe} {
		if root == nil {
			continue
		}
		for g := range r.P.CG.Reachable([]*ssa.Function{root}, nil) {
			if seenFn[g] || topFn(g).Pkg != topFn(root).Pkg {
				continue
			}
			handlesList := g == root
			for _, p := range g.Params {
				if strings.Contains(p.Type().String(), "ErrorList") || strings.Contains(p.Type().String(), "gqlerror.List") || strings.Contains(p.Type().String(), "gqlerrors.Error") {
					handlesList = true
				}
			}
			if res := g.Signature.Results(); res != nil {
				for i := 0; i < res.Len(); i++ {
					if strings.Contains(res.At(i).Type().String(), "ErrorList") {
						handlesList = true
					}
				}
			}
			if handlesList {
				seenFn[g] = true
				region = append(region, g)
			}
		}
	}
	sort.Slice(region, func(i, j int) bool { return fnName(region[i]) < fnName(region[j]) })
	for _, fn := range region {
		if fn == nil {
			continue
		}
		if fn != fe && fn != ext {
			emptyAnswerOnlyForNil(fn)
		}
		for _, f := range withClosures(fn) {
			// an error list handed to a function outside the module whose result is an error
			// list again: the result takes the place of the list, and which of its elements
			// are still in it is decided in a body the checker does not see. Only functions
			// known to keep one result per element are accepted.
			for _, ins := range allInstrs(f) {
				c, ok := ins.(*ssa.Call)
				if !ok || c.Call.IsInvoke() {
					continue
				}
				sc := c.Call.StaticCallee()
				if sc == nil || inModule(sc) {
					continue
				}
				takes := false
				for _, a := range c.Call.Args {
					if isErrorListType(a.Type()) {
						takes = true
					}
				}
				gives := false
				if tup, ok := c.Type().(*types.Tuple); ok {
					for i := 0; i < tup.Len(); i++ {
						gives = gives || isErrorListType(tup.At(i).Type())
					}
				} else {
					gives = isErrorListType(c.Type())
				}
				if !takes || !gives {
					continue
				}
				name := extName(sc)
				if why, ok := keepsEveryElement[name]; ok {
					r.Tabled(rule, fnName(f), "error list through "+name, r.P.pos(c.Pos()), "keepsEveryElement", why)
					continue
				}
				r.Bad(rule, fnName(f), "error list through "+name, r.P.pos(c.Pos()),
					"an error list is handed to "+name+" and the list it returns is used in its place: "+name+" is not among the library functions known to keep every element (a de-duplication, a filter, a prefix drop elements): errors a service sent are lost, and which of several concurrent failures is reported depends on their arrival order")
			}
			// every round of a loop over errors adds to the result: an element that is skipped
			// under some condition (a duplicate, a nil entry, "one per message") is an error lost
			for _, b := range f.Blocks {
				l := naturalLoop(b)
				if len(l) == 0 || !strings.Contains(f.Signature.String(), "Error") {
					continue
				}
				hasAppend := false
				for x := range l {
					for _, ins := range x.Instrs {
						if c, ok := ins.(*ssa.Call); ok {
							if bi, ok := c.Call.Value.(*ssa.Builtin); ok && bi.Name() == "append" {
								hasAppend = true
							}
						}
					}
				}
				if !hasAppend {
					continue // a loop that builds nothing (a search, a join of messages)
				}
				for _, s2 := range b.Succs {
					if !l[s2] {
						continue
					}
					all, _ := mustPassUntil(s2, b, func(i ssa.Instruction) bool {
						c, ok := i.(*ssa.Call)
						if !ok {
							return false
						}
						bi, ok := c.Call.Value.(*ssa.Builtin)
						return ok && bi.Name() == "append"
					})
					r.Check(all, rule, fnName(f), "every error of the list is kept", r.P.pos(firstPos(b)),
						"every round of the loop appends to the result",
						"a loop that rebuilds an error list can skip an element (duplicates by message, entries it does not like): which of several concurrent failures is reported then depends on their arrival order, and errors a service sent are lost")
				}
			}
			for _, ins := range allInstrs(f) {
				if sl, ok := ins.(*ssa.Slice); ok && namedOf(sl.X.Type()) == modPath+"/gqlerrors.ErrorList" {
					if _, isLit := sl.X.(*ssa.Alloc); isLit {
						continue // composite literal ErrorList{…}
					}
					r.Bad(rule, fnName(f), "error list re-sliced", r.P.pos(sl.Pos()), "an error list is truncated/re-sliced while being formatted")
				}
			}
			// loops over error lists have no early exit
			for _, b := range f.Blocks {
				l := naturalLoop(b)
				if len(l) == 0 {
					continue
				}
				exits := 0
				for x := range l {
					for _, s := range x.Succs {
						if !l[s] {
							exits++
						}
					}
				}
				r.Check(exits <= 1, rule, fnName(f), "loop over errors runs to the end", r.P.pos(firstPos(b)),
					"single exit: every element is visited", "a loop over an error list can stop early: later errors are dropped")
			}
		}
	}
	// *gqlerror.Error → Error keeps message, extensions, path, locations
	if fe != nil {
		n := 0
		var conv []ssa.Instruction
		for g := range r.P.CG.Reachable([]*ssa.Function{fe}, nil) {
			if topFn(g).Pkg == nil || topFn(g).Pkg != topFn(fe).Pkg {
				continue
			}
			// the conversion of a parser error: FormatError itself, or a helper that takes one
			takesParserErr := g == fe
			for _, p := range g.Params {
				if strings.HasSuffix(namedOf(p.Type()), "gqlparser/v2/gqlerror.Error") {
					takesParserErr = true
				}
			}
			if takesParserErr {
				conv = append(conv, allInstrs(g)...)
			}
		}
		for _, ins := range conv {
			st, ok := ins.(*ssa.Store)
			if !ok {
				continue
			}
			fa, ok := st.Addr.(*ssa.FieldAddr)
			if !ok || fieldOf(fa) == nil || namedOf(fa.X.Type()) != modPath+"/gqlerrors.Error" {
				continue
			}
			f := fieldOf(fa).Name()
			switch f {
			case "Message", "Extensions", "Path", "Locations":
				n++
				r.Check(dependsOnFieldThroughMem(st.Val, f) || dependsOnCallOnField(st.Val, f), rule, fnName(fe), "gqlerror."+f+" preserved", r.P.pos(st.Pos()),
					"the "+f+" of the converted error is computed from the "+f+" of the source error",
					"the "+f+" of a converted GraphQL error no longer comes from the source error")
			}
		}
		r.AtLeast(rule, "fields of the converted error", n, 4)
	}
}

// keepsEveryElement: library functions that return a list with one result (or one run of
// results) per element of the list they are given, in the order of the elements.
var keepsEveryElement = map[string]string{
	"slices.Clone":                 "a copy of the list",
	"github.com/samber/lo.Map":     "one result per element, in order; what the callback answers for an element is not examined here",
	"github.com/samber/lo.FlatMap": "the results of every element, in order — the library form of `list = append(list, f(e)...)` in a loop",
}

// isErrorListType: a list of errors as the formatting code sees them — ErrorList, []*Error,
// gqlerror.List, []*gqlerror.Error.
func isErrorListType(t types.Type) bool {
	if t == nil {
		return false
	}
	sl, ok := t.Underlying().(*types.Slice)
	if !ok {
		return false
	}
	n := namedOf(sl.Elem())
	return n == modPath+"/gqlerrors.Error" || strings.HasSuffix(n, "gqlparser/v2/gqlerror.Error")
}

// certainlyEmptyList: v is a list that has no element whatever the input — the nil constant,
// a composite literal without elements, make(T, 0[, n]), or a phi of such values. The result
// names the form ("" when v is not certainly empty).
func certainlyEmptyList(v ssa.Value, depth int) string {
	v = unwrap(v)
	if depth > 4 {
		return ""
	}
	switch x := v.(type) {
	case *ssa.Const:
		if x.IsNil() {
			return "nil"
		}
	case *ssa.Slice:
		if al, ok := x.X.(*ssa.Alloc); ok {
			if arr, ok := derefType(al.Type()).Underlying().(*types.Array); ok && arr.Len() == 0 {
				return "an empty literal"
			}
		}
	case *ssa.MakeSlice:
		if c, ok := x.Len.(*ssa.Const); ok && c.Value != nil && constant.Sign(c.Value) == 0 {
			// a list made empty and appended to afterwards is another value (the append's)
			return "make with length 0"
		}
	case *ssa.Phi:
		how := ""
		for _, e := range x.Edges {
			h := certainlyEmptyList(e, depth+1)
			if h == "" {
				return ""
			}
			how = h
		}
		return how
	}
	return ""
}

// dependsOnCallOnField: v depends on a method call whose receiver is a load of field f
// (e.Path.String()).
func dependsOnCallOnField(v ssa.Value, f string) bool {
	seen := map[ssa.Value]bool{}
	var g func(v ssa.Value) bool
	g = func(v ssa.Value) bool {
		if seen[v] {
			return false
		}
		seen[v] = true
		if dependsOnFieldThroughMem(v, f) {
			return true
		}
		// lo.Map(path, fn): path is a phi/slice built from strings.Split(e.Path.String(), ".")
		if al, ok := v.(*ssa.UnOp); ok && al.Op == token.MUL {
			if a, ok := al.X.(*ssa.Alloc); ok {
				for _, st := range storesTo(a) {
					if g(st.Val) {
						return true
					}
				}
			}
		}
		ins, ok := v.(ssa.Instruction)
		if !ok {
			return false
		}
		for _, op := range operandsOf(ins) {
			if g(op) {
				return true
			}
		}
		return false
	}
	return g(v)
}

// isUntouchedParam: v is the parameter itself, or a load of the cell the parameter was spilled
// into (captured parameters are) when that cell is stored to exactly once — the spill — in fn
// and never in its closures.
func isUntouchedParam(fn *ssa.Function, v ssa.Value, p *ssa.Parameter) bool {
	if v == ssa.Value(p) {
		return true
	}
	ld, ok := v.(*ssa.UnOp)
	if !ok || ld.Op != token.MUL {
		return false
	}
	cell, ok := ld.X.(*ssa.Alloc)
	if !ok {
		return false
	}
	stores := 0
	for _, ref := range *cell.Referrers() {
		if st, ok := ref.(*ssa.Store); ok && st.Addr == ssa.Value(cell) {
			stores++
			if st.Val != ssa.Value(p) {
				return false
			}
		}
	}
	if stores != 1 {
		return false
	}
	for _, an := range withClosures(fn) {
		if an == fn {
			continue
		}
		for _, ins := range allInstrs(an) {
			if st, ok := ins.(*ssa.Store); ok {
				if fv, ok := st.Addr.(*ssa.FreeVar); ok && fv.Name() == p.Name() {
					return false
				}
			}
		}
	}
	return true
}

// ruleDownstreamErrorPath (R6s.path): the error list a service answered with travels from
// queryBatch to the operation's Result untouched: on its way it is only returned, joined by
// AsyncMapReduce / ExtendErrorList, or formatted by FormatError. Handing it to any other
// function (a wrapper that builds a new error from err.Error(), ToGqlError, fmt.Errorf …)
// flattens message, path and extensions into one string.
func ruleDownstreamErrorPath(r *Run) {
	const rule = "R6s.path"
	preserving := map[string]bool{"gqlerrors.ExtendErrorList": true, "gqlerrors.FormatError": true}
	requestRegion := r.P.CG.ReachableAll([]*ssa.Function{r.P.Fn("pebbles.(*Gateway).Handler")})
	// sources: Response.Errors converted to the error interface in the queryer
	var work []ssa.Value
	seen := map[ssa.Value]bool{}
	add := func(v ssa.Value) {
		if v != nil && !seen[v] {
			seen[v] = true
			work = append(work, v)
		}
	}
	nSrc := 0
	// in the queryer, or in a function of the module the queryer asks for it (a method of the
	// response that hands its error list back as an error)
	var queryerFns []*ssa.Function
	for _, fn := range r.P.Funcs {
		if topFn(fn).Pkg != nil && shortPkg(topFn(fn).Pkg.Pkg.Path()) == "queryer" {
			queryerFns = append(queryerFns, fn)
		}
	}
	fromQueryer := r.P.CG.ReachableAll(queryerFns)
	for _, fn := range r.P.Funcs {
		if topFn(fn).Pkg == nil || shortPkg(topFn(fn).Pkg.Pkg.Path()) != "queryer" && !fromQueryer[fn] {
			continue
		}
		for _, ins := range allInstrs(fn) {
			mi, ok := ins.(*ssa.MakeInterface)
			if !ok || namedOf(mi.X.Type()) != modPath+"/gqlerrors.ErrorList" || !dependsOnResponseErrors(mi.X) {
				continue
			}
			nSrc++
			add(mi)
		}
	}
	n := 0
	for len(work) > 0 {
		v := work[len(work)-1]
		work = work[:len(work)-1]
		if v.Referrers() == nil {
			continue
		}
		for _, ref := range *v.Referrers() {
			switch x := ref.(type) {
			case *ssa.MakeInterface, *ssa.ChangeInterface, *ssa.ChangeType, *ssa.Phi, *ssa.TypeAssert:
				add(x.(ssa.Value))
			case *ssa.Extract:
				add(x)
			case *ssa.Store:
				// packed into the argument list of a variadic call (fmt.Errorf("…%w", err)):
				// the backing array is sliced and the slice is the argument
				if ia, ok := x.Addr.(*ssa.IndexAddr); ok && x.Val == v {
					if arr, ok := ia.X.(*ssa.Alloc); ok {
						for _, r2 := range *arr.Referrers() {
							if sl, ok := r2.(*ssa.Slice); ok {
								add(sl)
							}
						}
					}
				}
				// spilled result variable (named results / defer): follow loads of the cell
				if al, ok := x.Addr.(*ssa.Alloc); ok && x.Val == v {
					for _, r2 := range *al.Referrers() {
						if ld, ok := r2.(*ssa.UnOp); ok {
							add(ld)
						}
					}
				}
			case *ssa.Return:
				fn := x.Parent()
				idx := -1
				for i, res := range x.Results {
					if res == v {
						idx = i
					}
				}
				if idx < 0 {
					continue
				}
				for _, e := range r.P.CG.In[fn] {
					switch e.Kind {
					case "param":
						continue
					case "hoarg":
						// fn is the map function of an AsyncMapReduce call: its errors come back
						// as the call's error list
						if cv, ok := e.Site.(*ssa.Call); ok {
							for _, r2 := range *cv.Referrers() {
								if ex, ok := r2.(*ssa.Extract); ok && ex.Index == 1 {
									add(ex)
								}
							}
						}
					default:
						cv, ok := e.Site.(*ssa.Call)
						if !ok {
							continue
						}
						if fn.Signature.Results().Len() == 1 {
							add(cv)
							continue
						}
						for _, r2 := range *cv.Referrers() {
							if ex, ok := r2.(*ssa.Extract); ok && ex.Index == idx {
								add(ex)
							}
						}
					}
				}
			case ssa.CallInstruction:
				c := x.Common()
				if b, ok := c.Value.(*ssa.Builtin); ok && (b.Name() == "len" || b.Name() == "append") {
					if b.Name() == "append" {
						if cv, ok := x.(ssa.Value); ok {
							add(cv)
						}
					}
					continue
				}
				isArg := false
				for _, a := range c.Args {
					if a == v {
						isArg = true
					}
				}
				if !isArg && !(c.IsInvoke() && c.Value == v) {
					continue
				}
				// start-up code (NewGateway wrapping an introspection failure for the embedder)
				// is not on the way to a client
				if !requestRegion[x.Parent()] {
					continue
				}
				n++
				name := ""
				if sc := c.StaticCallee(); sc != nil {
					name = fnName(r.P.declared(sc))
				}
				site := r.P.pos(x.Pos())
				where := fnName(x.Parent())
				// a call that yields no new error value (an observer, a logger, a counter) leaves
				// the list itself on its way; asking the list for its text is a conversion
				yields := c.IsInvoke() && c.Value == v && c.Method.Name() == "Error"
				if res := c.Signature().Results(); res != nil {
					for i := 0; i < res.Len(); i++ {
						if isErrorish(res.At(i).Type()) || strings.HasSuffix(namedOf(res.At(i).Type()), "gqlerrors.Error") || strings.HasSuffix(namedOf(res.At(i).Type()), "gqlerrors.ErrorList") || strings.HasSuffix(res.At(i).Type().String(), "gqlerrors.Error") {
							yields = true
						}
					}
				}
				if !yields {
					n--
					continue
				}
				if preserving[name] {
					r.OK(rule, where, "downstream errors passed to "+name, site, "structure-preserving: every error keeps message, path and extensions")
					if cv, ok := x.(ssa.Value); ok {
						add(cv)
					}
					continue
				}
				r.Bad(rule, where, "downstream errors passed to "+calleeDesc(c), site, "the error list answered by a service is handed to "+calleeDesc(c)+" on its way to the client: anything but returning it, ExtendErrorList and FormatError rebuilds the error from its text — several errors collapse into one message and their path and extensions are lost")
			}
		}
	}
	r.AtLeast(rule, "sources (service error lists returned by the queryer)", nSrc, 1)
	r.AtLeast(rule, "hand-overs of downstream errors", n, 2)
}

// dependsOnResponseErrors: v is computed from the Errors field of a requests.Response (read
// through a pointer or from a struct value).
func dependsOnResponseErrors(v ssa.Value) bool {
	seen := map[ssa.Value]bool{}
	var f func(v ssa.Value) bool
	f = func(v ssa.Value) bool {
		if seen[v] {
			return false
		}
		seen[v] = true
		switch x := v.(type) {
		case *ssa.UnOp:
			if fa, ok := x.X.(*ssa.FieldAddr); ok && x.Op == token.MUL && fieldOf(fa) != nil && fieldOf(fa).Name() == "Errors" && namedOf(fa.X.Type()) == respType {
				return true
			}
		case *ssa.Field:
			if fl := fieldOfVal(x); fl != nil && fl.Name() == "Errors" && namedOf(x.X.Type()) == respType {
				return true
			}
		}
		ins, ok := v.(ssa.Instruction)
		if !ok {
			return false
		}
		for _, op := range operandsOf(ins) {
			if f(op) {
				return true
			}
		}
		return false
	}
	return f(v)
}

// ruleNodeFieldSignature (R13d.sig): the predicate that recognises the relay lookup field
// checks every component of its specified signature `node(id: ID!): Node` — the field name,
// exactly one argument, that argument's name, its type (ID!), and the nullable Node result.
// A true answer that skips one of them treats some other field of a service as the lookup
// field: that field then gets no route and is left out of the overlap check.
func ruleNodeFieldSignature(r *Run) {
	const rule = "R13d.sig"
	fn := r.Anchor(rule, "merger.isNodeField")
	if fn == nil || len(fn.Params) != 1 {
		return
	}
	constStr := func(v ssa.Value) string {
		if k, ok := v.(*ssa.Const); ok && k.Value != nil && k.Value.Kind() == constant.String {
			return constant.StringVal(k.Value)
		}
		return ""
	}
	fieldLoad := func(v ssa.Value, owner, field string) bool {
		ld, ok := unwrap(v).(*ssa.UnOp)
		if !ok || ld.Op != token.MUL {
			return false
		}
		fa, ok := ld.X.(*ssa.FieldAddr)
		return ok && fieldOf(fa) != nil && fieldOf(fa).Name() == field && strings.HasSuffix(namedOf(fa.X.Type()), owner)
	}
	type test struct {
		what string
		side *ssa.BasicBlock // block entered when the component matches
		val  ssa.Value       // or: the boolean value that is true when it matches
	}
	var tests []test
	for _, b := range fn.Blocks {
		for _, ins := range b.Instrs {
			switch x := ins.(type) {
			case *ssa.BinOp:
				if x.Op != token.EQL && x.Op != token.NEQ {
					continue
				}
				what := ""
				for _, p := range [][2]ssa.Value{{x.X, x.Y}, {x.Y, x.X}} {
					switch {
					case fieldLoad(p[0], "ast.FieldDefinition", "Name") && constStr(p[1]) == "node":
						what = "field name is `node`"
					case fieldLoad(p[0], "ast.ArgumentDefinition", "Name") && constStr(p[1]) == "id":
						what = "argument name is `id`"
					}
					if c, ok := p[0].(*ssa.Call); ok {
						if bi, ok := c.Call.Value.(*ssa.Builtin); ok && bi.Name() == "len" && fieldLoad(c.Call.Args[0], "ast.FieldDefinition", "Arguments") && isIntConst(p[1], 1) {
							what = "exactly one argument"
						}
					}
				}
				if what == "" {
					continue
				}
				t := test{what: what, val: x}
				for _, ref := range *x.Referrers() {
					if iff, ok := ref.(*ssa.If); ok {
						if x.Op == token.EQL {
							t.side = iff.Block().Succs[0]
						} else {
							t.side = iff.Block().Succs[1]
						}
					}
				}
				if x.Op == token.NEQ && t.side == nil {
					continue // a bare `!=` value is true when the component does NOT match
				}
				tests = append(tests, t)
			case *ssa.Call:
				n := calleeName(&x.Call)
				what := ""
				switch {
				case strings.HasSuffix(n, "merger.isIDType"):
					what = "argument type is ID!"
				case strings.HasSuffix(n, "merger.isNullableTypeNamed") && len(x.Call.Args) == 2 && constStr(x.Call.Args[1]) == "Node" && fieldLoad(x.Call.Args[0], "ast.FieldDefinition", "Type"):
					what = "result type is the nullable Node"
				}
				if what == "" {
					continue
				}
				t := test{what: what, val: x}
				for _, ref := range *x.Referrers() {
					if iff, ok := ref.(*ssa.If); ok {
						t.side = iff.Block().Succs[0]
					}
					// `case !pred(…): return false` — the test holds on the other side
					if not, ok := ref.(*ssa.UnOp); ok && not.Op == token.NOT {
						for _, r2 := range *not.Referrers() {
							if iff, ok := r2.(*ssa.If); ok {
								t.side = iff.Block().Succs[1]
							}
						}
					}
				}
				tests = append(tests, t)
			}
		}
	}
	// the places where the predicate can answer true
	type truth struct {
		blk *ssa.BasicBlock
		val ssa.Value // non-constant answer, or nil for the constant true
		pos token.Pos
	}
	var truths []truth
	var collect func(v ssa.Value, blk *ssa.BasicBlock, pos token.Pos, depth int)
	collect = func(v ssa.Value, blk *ssa.BasicBlock, pos token.Pos, depth int) {
		if k, ok := v.(*ssa.Const); ok {
			if k.Value != nil && constant.BoolVal(k.Value) {
				truths = append(truths, truth{blk, nil, pos})
			}
			return
		}
		if phi, ok := v.(*ssa.Phi); ok && depth < 6 {
			for i, e := range phi.Edges {
				collect(e, phi.Block().Preds[i], pos, depth+1)
			}
			return
		}
		if ins, ok := v.(ssa.Instruction); ok {
			blk = ins.Block()
		}
		truths = append(truths, truth{blk, v, pos})
	}
	for _, ret := range returnsOf(fn) {
		collect(retVals(ret)[0], ret.Block(), retPos(ret), 0)
	}
	want := []string{"field name is `node`", "exactly one argument", "argument name is `id`", "argument type is ID!", "result type is the nullable Node"}
	for _, w := range want {
		good := len(truths) > 0
		where := r.P.pos(fn.Pos())
		for _, tr := range truths {
			covered := false
			for _, t := range tests {
				if t.what != w {
					continue
				}
				if tr.val != nil && (tr.val == t.val || mustDependOn(tr.val, t.val)) {
					covered = true
				}
				if t.side != nil && len(t.side.Preds) == 1 && (t.side == tr.blk || t.side.Dominates(tr.blk)) {
					covered = true
				}
			}
			if !covered {
				good = false
				where = r.P.pos(tr.pos)
			}
		}
		r.Check(good, rule, fnName(fn), "checks that the "+w, where,
			"every way the predicate can answer true has passed this test",
			"isNodeField can answer true without having checked that the "+w+": a service field that merely resembles `node(id: ID!): Node` is taken for the relay lookup field — it gets no route (and is skipped by the overlap check), so it stays in the gateway's schema but cannot be answered")
	}
}

// ruleNodeLookupScope (R13d.scope): the relay lookup `node(id: ID!): Node` is a field of Query.
// Every place that sets a field aside because isNodeField recognises it (no route, not merged)
// does so for the Query type only: the isNodeField test is conjoined with IsQueryObjectName.
// A field of the same shape on an ordinary object type is a service's own field and needs its
// route (second table audit: SetFromSchema skipped it for every type, the field stayed in the
// gateway's schema without a route and was sent to a service that does not have it).
func ruleNodeLookupScope(r *Run) {
	const rule = "R13d.scope"
	pred := r.Anchor(rule, "merger.isNodeField")
	if pred == nil {
		return
	}
	n := 0
	for _, fn := range r.P.Funcs {
		var nodeCalls, queryCalls []*ssa.Call
		for _, ins := range allInstrs(fn) {
			c, ok := ins.(*ssa.Call)
			if !ok {
				continue
			}
			if c.Call.StaticCallee() == pred {
				nodeCalls = append(nodeCalls, c)
			} else if strings.HasSuffix(calleeName(&c.Call), "common.IsQueryObjectName") {
				queryCalls = append(queryCalls, c)
			}
		}
		trueSide := func(c *ssa.Call) *ssa.BasicBlock {
			for _, ref := range *c.Referrers() {
				if iff, ok := ref.(*ssa.If); ok && len(iff.Block().Succs[0].Preds) == 1 {
					return iff.Block().Succs[0]
				}
			}
			return nil
		}
		for _, nc := range nodeCalls {
			n++
			good := false
			for _, qc := range queryCalls {
				if s := trueSide(qc); s != nil && (s == nc.Block() || s.Dominates(nc.Block())) {
					good = true
				}
				if s := trueSide(nc); s != nil && (s == qc.Block() || s.Dominates(qc.Block())) {
					good = true
				}
			}
			r.Check(good, rule, fnName(fn), "node lookup set aside for Query only", r.P.pos(nc.Pos()),
				"the isNodeField test is conjoined with IsQueryObjectName of the enclosing type",
				"a field is set aside as the relay node lookup whatever type it belongs to: a field `node(id: ID!): Node` declared by a service on an ordinary object type stays in the gateway's schema but gets no route (or is dropped from the merge), so it is sent to a service that does not declare it")
		}
	}
	r.AtLeast(rule, "uses of the node-lookup predicate", n, 1)
}

// routingExemptions: the conditions under which the merge leaves a type or a field without a
// route, each with the reason why that is in order.
var routingExemptions = map[string]string{
	"common.IsBuiltinName":     "introspection names (`__typename`, `__schema`, `__type`, `__*` types) are answered by the gateway itself",
	"common.IsQueryObjectName": "scope of the node-lookup exemption (R13d.scope)",
	"common.IsRootObjectName":  "scope of the id exemption: a root field called id is an ordinary field (repair 99e48c4)",
	"merger.isNodeField":       "the relay lookup `node` of Query is planned by the gateway itself from the routes of the types named in its fragments (R13d.sig, R13d.scope); selections of `node` outside a fragment are dropped — recorded defect F46",
	`"id"`:                     "the id of a non-root type is answered by every service that knows the type: it is fetched with whichever step reaches the object; accepted together with its scope only (exemptionScopes)",
}

// exemptionScopes: an exemption that holds within a scope only. The entry of routingExemptions
// accepts the test; this table says which other test has to accompany it, and with which
// outcome, wherever the exemption takes a route away. (The scope of merger.isNodeField —
// IsQueryObjectName — is established by R13d.scope at every use of the predicate.)
var exemptionScopes = map[string]struct {
	scope string // suffix of the qualified name of the scope predicate
	want  bool   // the outcome of the scope predicate under which the exemption applies
	why   string
}{
	`"id"`: {"common.IsRootObjectName", false, "only the id of a NON-root type is answered by every service that knows the type; a root field called id belongs to the one service that declares it (repair 99e48c4)"},
}

// scopeNeed: an exemption with a scope met while classifying a condition, not yet seen together
// with its scope.
type scopeNeed struct {
	exemption string
	pos       token.Pos
}

// scopeTestSide: the If ends its block on a test of the scope predicate (possibly negated);
// returns the successor taken when the predicate answers want.
func scopeTestSide(iff *ssa.If, scope string, want bool) *ssa.BasicBlock {
	v := iff.Cond
	for {
		u, ok := v.(*ssa.UnOp)
		if !ok || u.Op != token.NOT {
			break
		}
		v, want = u.X, !want
	}
	c, ok := v.(*ssa.Call)
	if !ok || !strings.HasSuffix(strings.SplitN(calleeName(&c.Call), "[", 2)[0], scope) {
		return nil
	}
	if want {
		return iff.Block().Succs[0]
	}
	return iff.Block().Succs[1]
}

// ruleRoutingExemptions (R13d.exempt): every field of every object type gets a route unless one
// of the confirmed exemptions applies. The rule finds the place where a route is written (the
// map update on TypeProps.Fields) and walks back over the call chain from SetFromSchema: every
// branch condition that decides whether that place is reached is classified — a confirmed
// exemption, a structural test (nil, kind of definition, loop bound), or something new. A new
// condition is a further way for a field to stay in the gateway's schema without a route.
func ruleRoutingExemptions(r *Run) {
	const rule = "R13d.exempt"
	root := r.Anchor(rule, "merger.(TypeURLMap).SetFromSchema")
	if root == nil {
		return
	}
	region := r.P.CG.Reachable([]*ssa.Function{root}, nil)
	// functions of the merger package on a call path from SetFromSchema to the route write
	writes := map[*ssa.Function][]ssa.Instruction{}
	for fn := range region {
		if topFn(fn).Pkg != topFn(root).Pkg {
			continue
		}
		for _, ins := range allInstrs(fn) {
			if mu, ok := ins.(*ssa.MapUpdate); ok {
				if ld, ok := unwrap(mu.Map).(*ssa.UnOp); ok && ld.Op == token.MUL {
					if fa, ok := ld.X.(*ssa.FieldAddr); ok && strings.HasSuffix(namedOf(fa.X.Type()), "merger.TypeProps") {
						writes[fn] = append(writes[fn], ins)
					}
				}
			}
		}
	}
	for changed := true; changed; {
		changed = false
		for fn := range region {
			if topFn(fn).Pkg != topFn(root).Pkg {
				continue
			}
			for _, e := range r.P.CG.Out[fn] {
				if e.Kind == "static" && len(writes[e.Callee]) > 0 {
					dup := false
					for _, w := range writes[fn] {
						if w == e.Site.(ssa.Instruction) {
							dup = true
						}
					}
					if !dup {
						writes[fn] = append(writes[fn], e.Site.(ssa.Instruction))
						changed = true
					}
				}
			}
		}
	}
	n := 0
	seenCond := map[ssa.Value]bool{}
	// exemptions with a scope found while classifying the current condition and not yet seen
	// together with their scope; memo: what a condition left pending when it was first classified
	var pending []scopeNeed
	memo := map[ssa.Value][]scopeNeed{}
	var classify0 func(fn *ssa.Function, v ssa.Value, depth int)
	classify := func(fn *ssa.Function, v ssa.Value, depth int) {
		if seenCond[v] {
			pending = append(pending, memo[v]...)
			return
		}
		before := len(pending)
		classify0(fn, v, depth)
		memo[v] = append([]scopeNeed(nil), pending[before:]...)
	}
	// inScope (inside a predicate of the module, where there is no route write to walk to): the
	// scope predicate is tested next to the exemption — its test with the wanted outcome
	// dominates the exemption's test, or it is evaluated on one side of it only
	inScope := func(iff *ssa.If, need scopeNeed) bool {
		sp := exemptionScopes[need.exemption]
		for _, ins := range allInstrs(iff.Parent()) {
			switch x := ins.(type) {
			case *ssa.If:
				if side := scopeTestSide(x, sp.scope, sp.want); side != nil && len(side.Preds) == 1 && (side == iff.Block() || side.Dominates(iff.Block())) {
					return true
				}
			case *ssa.Call:
				if !strings.HasSuffix(strings.SplitN(calleeName(&x.Call), "[", 2)[0], sp.scope) {
					continue
				}
				for _, s2 := range iff.Block().Succs {
					if len(s2.Preds) == 1 && (s2 == x.Block() || s2.Dominates(x.Block())) {
						return true
					}
				}
			}
		}
		return false
	}
	report := func(fn *ssa.Function, what string, pos token.Pos, reason string, ok bool) {
		n++
		r.Check(ok, rule, fnName(fn), "condition "+what, r.P.pos(pos),
			"confirmed exemption: "+reason,
			"whether a field gets its route depends on a condition that is not one of the confirmed exemptions ("+what+"): a field or type for which it decides against the route stays in the gateway's schema without one — a request for it is refused or sent to a service that does not declare it")
	}
	classify0 = func(fn *ssa.Function, v ssa.Value, depth int) {
		if depth > 6 {
			return
		}
		seenCond[v] = true
		switch c := v.(type) {
		case *ssa.UnOp:
			if c.Op == token.NOT {
				classify(fn, c.X, depth+1)
				return
			}
		case *ssa.Phi:
			for _, e := range c.Edges {
				if _, isConst := e.(*ssa.Const); !isConst {
					classify(fn, e, depth+1)
				}
			}
			return
		case *ssa.Extract:
			switch c.Tuple.(type) {
			case *ssa.Next:
				return // loop over a map or string
			case *ssa.Lookup:
				lk := c.Tuple.(*ssa.Lookup)
				if strings.HasSuffix(namedOf(lk.X.Type()), "merger.TypeURLMap") {
					return // is there an entry yet
				}
				report(fn, "lookup in "+lk.X.Type().String(), c.Pos(), "", false)
				return
			}
		case *ssa.Lookup:
			if strings.HasSuffix(namedOf(c.X.Type()), "merger.TypeURLMap") {
				return
			}
			report(fn, "lookup in "+c.X.Type().String(), c.Pos(), "", false)
			return
		case *ssa.Call:
			name := strings.SplitN(calleeName(&c.Call), "[", 2)[0]
			for k, reason := range routingExemptions {
				if !strings.HasPrefix(k, `"`) && strings.HasSuffix(name, k) {
					report(fn, k, c.Pos(), reason, true)
					return
				}
			}
			// a predicate of the module: what it is made of
			if sc := c.Call.StaticCallee(); sc != nil && inModule(sc) && sc.Blocks != nil && depth < 3 {
				for _, ins := range allInstrs(sc) {
					switch x := ins.(type) {
					case *ssa.If:
						before := len(pending)
						classify(sc, x.Cond, depth+1)
						kept := pending[:before:before]
						for _, need := range pending[before:] {
							if !inScope(x, need) {
								kept = append(kept, need)
							}
						}
						pending = kept
					case *ssa.Return:
						for _, res := range x.Results {
							if _, isConst := res.(*ssa.Const); !isConst {
								classify(sc, res, depth+1)
							}
						}
					}
				}
				return
			}
			report(fn, calleeDesc(&c.Call), c.Pos(), "", false)
			return
		case *ssa.BinOp:
			if isNilConst(c.X) || isNilConst(c.Y) {
				return // absent entry / absent definition
			}
			for _, side := range []ssa.Value{c.X, c.Y} {
				k, isConst := side.(*ssa.Const)
				if !isConst || k.Value == nil {
					continue
				}
				if k.Value.Kind() != constant.String {
					return // a count or a loop bound
				}
				if _, plain := k.Type().(*types.Basic); !plain {
					return // a typed constant such as ast.Object: the kind of definition
				}
				reason, known := routingExemptions[k.Value.ExactString()]
				report(fn, "on the name "+k.Value.ExactString(), c.Pos(), reason, known)
				if _, scoped := exemptionScopes[k.Value.ExactString()]; scoped && known {
					pending = append(pending, scopeNeed{k.Value.ExactString(), c.Pos()})
				}
				return
			}
			if _, isInt := c.X.Type().Underlying().(*types.Basic); isInt && c.X.Type().Underlying().(*types.Basic).Info()&types.IsInteger != 0 {
				return // index against length
			}
		}
		if ins, ok := v.(ssa.Instruction); ok {
			report(fn, "of an unrecognised form", ins.Pos(), "", false)
		}
	}
	for fn, ws := range writes {
		for _, w := range ws {
			for _, ins := range allInstrs(fn) {
				iff, ok := ins.(*ssa.If)
				if !ok {
					continue
				}
				// the branch decides about the write: within the current round of the loop it
				// stands in, the write can be reached from one of its sides and not from the other
				loop := innermostLoop(iff.Block())
				var header *ssa.BasicBlock
				for b := range loop {
					for _, p := range b.Preds {
						if !loop[p] {
							header = b
						}
					}
				}
				reach := func(from *ssa.BasicBlock) bool {
					seen := map[*ssa.BasicBlock]bool{}
					var walk func(b *ssa.BasicBlock) bool
					walk = func(b *ssa.BasicBlock) bool {
						if b == w.Block() {
							return true
						}
						if seen[b] || (header != nil && b == header) {
							return false
						}
						seen[b] = true
						for _, s2 := range b.Succs {
							if walk(s2) {
								return true
							}
						}
						return false
					}
					return walk(from)
				}
				// … or can be avoided from one side and not from the other (the first test of a
				// `a && b` chain: its true side may still avoid the write through b)
				avoid := func(from *ssa.BasicBlock) bool {
					seen := map[*ssa.BasicBlock]bool{}
					var walk func(b *ssa.BasicBlock) bool
					walk = func(b *ssa.BasicBlock) bool {
						if b == w.Block() || seen[b] {
							return false
						}
						if (header != nil && b == header) || len(b.Succs) == 0 {
							return true
						}
						seen[b] = true
						for _, s2 := range b.Succs {
							if walk(s2) {
								return true
							}
						}
						return false
					}
					return walk(from)
				}
				s0, s1 := iff.Block().Succs[0], iff.Block().Succs[1]
				if reach(s0) == reach(s1) && avoid(s0) == avoid(s1) {
					continue
				}
				pending = nil
				classify(fn, iff.Cond, 0)
				// an exemption that holds within a scope only: on the side of this branch on
				// which the route can be lost, every way past the write goes through the scope
				// test with the wanted outcome — or that outcome is established before the branch
				for _, need := range pending {
					sp := exemptionScopes[need.exemption]
					losing := s0
					if reach(s0) != reach(s1) {
						if reach(s0) {
							losing = s1
						}
					} else if avoid(s1) {
						losing = s1
					}
					scoped := false
					for _, ins2 := range allInstrs(fn) {
						if x, ok := ins2.(*ssa.If); ok && x != iff {
							if side := scopeTestSide(x, sp.scope, sp.want); side != nil && len(side.Preds) == 1 && (side == iff.Block() || side.Dominates(iff.Block())) {
								scoped = true
							}
						}
					}
					if !scoped {
						// walk the losing side; the wanted outcome of a scope test is not followed
						seen := map[*ssa.BasicBlock]bool{}
						var escapes func(b *ssa.BasicBlock) bool
						escapes = func(b *ssa.BasicBlock) bool {
							if b == w.Block() || seen[b] {
								return false
							}
							if (header != nil && b == header) || len(b.Succs) == 0 {
								return true
							}
							seen[b] = true
							var skip *ssa.BasicBlock
							if x, ok := b.Instrs[len(b.Instrs)-1].(*ssa.If); ok {
								skip = scopeTestSide(x, sp.scope, sp.want)
							}
							for _, s2 := range b.Succs {
								if s2 == skip && len(s2.Preds) == 1 {
									continue
								}
								if escapes(s2) {
									return true
								}
							}
							return false
						}
						scoped = !escapes(losing)
					}
					outcome := "false"
					if sp.want {
						outcome = "true"
					}
					r.Check(scoped, rule, fnName(fn), "scope of the exemption "+need.exemption, r.P.pos(iff.Cond.Pos()),
						"the route is lost through this exemption only where "+sp.scope+" has answered "+outcome+": "+sp.why,
						"the exemption "+need.exemption+" takes the route away without "+sp.scope+" having answered "+outcome+" (test at "+r.P.pos(need.pos)+"): "+sp.why)
				}
			}
		}
	}
	r.AtLeast(rule, "conditions that decide whether a field is routed", n, 3)
}

// nilTestSideEq: iff tests `v == nil` / `v != nil` on exactly v; returns the block entered when v is nil.
func nilTestSideEq(iff *ssa.If, v ssa.Value) *ssa.BasicBlock {
	bo, ok := iff.Cond.(*ssa.BinOp)
	if !ok || (bo.Op != token.EQL && bo.Op != token.NEQ) {
		return nil
	}
	if !((bo.X == v && isNilConst(bo.Y)) || (bo.Y == v && isNilConst(bo.X))) {
		return nil
	}
	if bo.Op == token.EQL {
		return iff.Block().Succs[0]
	}
	return iff.Block().Succs[1]
}

func k0Type(v ssa.Value) types.Type {
	if v == nil || v.Type() == nil {
		return nil
	}
	return v.Type()
}
