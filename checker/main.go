// pebcheck: repository-specific static analyser deciding structural clauses of
// properties C01..C20 for buildbuildio/pebbles. See /verif/DESIGN.md.
package main

import (
	"encoding/json"
	"flag"
	"fmt"
	"os"
	"runtime/debug"
	"sort"
	"strconv"
	"strings"
)

type ruleFn func(r *Run)

// propertyRules maps each claimed property to the rule instances that decide its clauses.
var propertyRules = map[string][]ruleFn{}

// propertyExplain is the coverage.explanation text per property.
var propertyExplain = map[string]string{}

func register(prop, explain string, rules ...ruleFn) {
	propertyRules[prop] = append(propertyRules[prop], rules...)
	if explain != "" {
		propertyExplain[prop] = explain
	}
}

func usage() {
	fmt.Fprintln(os.Stderr, `usage:
  pebcheck check --property Cxx [--tier quick|thorough] [--repo /repo] [--verif /verif]
  pebcheck explain <violation.json> [--repo /repo]
  pebcheck list
  pebcheck dump funcs|cg|ext [--repo /repo]`)
	os.Exit(2)
}

func main() {
	if len(os.Args) < 2 {
		usage()
	}
	defer func() {
		if e := recover(); e != nil {
			// a crash of the checker is not a verdict about pebbles, but it must not pass either
			fmt.Fprintf(os.Stderr, "pebcheck: internal error: %v\n%s\n", e, debug.Stack())
			os.Exit(3)
		}
	}()
	switch os.Args[1] {
	case "check":
		fs := flag.NewFlagSet("check", flag.ExitOnError)
		prop := fs.String("property", "", "property id")
		tier := fs.String("tier", envOr("VERIF_TIER", "quick"), "quick|thorough")
		repo := fs.String("repo", "/repo", "repository root")
		verif := fs.String("verif", "/verif", "verif root")
		fs.Parse(os.Args[2:])
		os.Exit(runCheck(*prop, *tier, *repo, *verif, nil))
	case "explain":
		if len(os.Args) < 3 {
			usage()
		}
		fs := flag.NewFlagSet("explain", flag.ExitOnError)
		repo := fs.String("repo", "/repo", "repository root")
		verif := fs.String("verif", "/verif", "verif root")
		fs.Parse(os.Args[3:])
		b, err := os.ReadFile(os.Args[2])
		if err != nil {
			fmt.Fprintln(os.Stderr, err)
			os.Exit(2)
		}
		var o Oblig
		if err := json.Unmarshal(b, &o); err != nil {
			fmt.Fprintln(os.Stderr, err)
			os.Exit(2)
		}
		os.Exit(runCheck(o.Property, "quick", *repo, *verif, &o))
	case "list":
		var ps []string
		for p := range propertyRules {
			ps = append(ps, p)
		}
		sort.Strings(ps)
		for _, p := range ps {
			fmt.Printf("%s: %d rule instance(s)\n  %s\n", p, len(propertyRules[p]), propertyExplain[p])
		}
	case "dump":
		fs := flag.NewFlagSet("dump", flag.ExitOnError)
		repo := fs.String("repo", "/repo", "repository root")
		if len(os.Args) < 3 {
			usage()
		}
		fs.Parse(os.Args[3:])
		P, err := Load(*repo)
		if err != nil {
			fmt.Fprintln(os.Stderr, err)
			os.Exit(2)
		}
		dump(P, os.Args[2])
	default:
		usage()
	}
}

func envOr(k, d string) string {
	if v := os.Getenv(k); v != "" {
		return v
	}
	return d
}

func runCheck(prop, tier, repo, verif string, only *Oblig) int {
	if strings.Contains(prop, ",") || prop == "all" {
		// several properties in one process (development convenience; the registered
		// commands run one property each)
		var ps []string
		if prop == "all" {
			for p := range propertyRules {
				if strings.HasPrefix(p, "C") {
					ps = append(ps, p)
				}
			}
			sort.Strings(ps)
		} else {
			ps = strings.Split(prop, ",")
		}
		P, err := Load(repo)
		if err != nil {
			fmt.Fprintf(os.Stderr, "pebcheck: cannot analyse %s: %v\n", repo, err)
			return 2
		}
		rc := 0
		seed, _ := strconv.ParseInt(os.Getenv("VERIF_SEED"), 10, 64)
		for _, p := range ps {
			rules, ok := propertyRules[p]
			if !ok {
				continue
			}
			r := NewRun(P, p, tier, seed, verif)
			r.Explain(propertyExplain[p])
			for _, rule := range rules {
				rule(r)
			}
			c := r.Finish()
			fmt.Printf("RESULT %s exit=%d\n", p, c)
			if c > rc {
				rc = c
			}
		}
		if prop == "all" && tier == "thorough" {
			for _, l := range staleTableEntries() {
				fmt.Println(l)
			}
		}
		return rc
	}
	rules, ok := propertyRules[prop]
	if !ok {
		fmt.Fprintf(os.Stderr, "pebcheck: property %q is not claimed (see MANIFEST.json not_applicable)\n", prop)
		return 2
	}
	if tier != "quick" && tier != "thorough" {
		tier = "quick"
	}
	seed, _ := strconv.ParseInt(os.Getenv("VERIF_SEED"), 10, 64)
	P, err := Load(repo)
	if err != nil {
		fmt.Fprintf(os.Stderr, "pebcheck: cannot analyse %s: %v\n", repo, err)
		return 2
	}
	r := NewRun(P, prop, tier, seed, verif)
	r.Explain(propertyExplain[prop])
	for _, rule := range rules {
		rule(r)
	}
	if only != nil {
		// replay: report the state of one obligation
		found := false
		for _, o := range r.Obligs {
			if o.Key == only.Key {
				found = true
				fmt.Printf("obligation %s\n  site: %s\n  status now: %s\n  argument: %s\n", o.Key, o.Site, o.Status, o.Argument)
				if o.Status == "violated" {
					fmt.Printf("VIOLATION property=%s replay=%s\n", prop, os.Args[2])
					return 1
				}
			}
		}
		if !found {
			fmt.Printf("obligation %s no longer exists on this tree (construct gone)\n", only.Key)
		}
		return 0
	}
	return r.Finish()
}

func dump(P *Prog, what string) {
	switch what {
	case "funcs":
		for _, fn := range P.Funcs {
			fmt.Printf("%s\t%s\n", fnName(fn), P.pos(fn.Pos()))
		}
		fmt.Println(len(P.Funcs), "functions")
	case "cg":
		for _, fn := range P.Funcs {
			for _, e := range P.CG.Out[fn] {
				fmt.Printf("%s -> %s [%s] %s\n", fnName(fn), fnName(e.Callee), e.Kind, P.pos(e.Site.Pos()))
			}
		}
		var us []string
		for s, why := range P.CG.Unresolved {
			us = append(us, fmt.Sprintf("UNRESOLVED %s in %s: %s", P.pos(s.Pos()), fnName(s.Parent()), why))
		}
		sort.Strings(us)
		fmt.Println(strings.Join(us, "\n"))
	case "names":
		// regenerates names_frozen.go: run after confirming rules and tables on a tree
		fmt.Println("package main\n\n// Code generated by `pebcheck dump names`; the declared functions of the tree the rules and\n// tables were confirmed on, with their fingerprints (see aliasRenamed in load.go).\nvar frozenFuncs = map[string]string{")
		for _, fn := range P.Funcs {
			if fn.Parent() == nil && fn.Synthetic == "" {
				fmt.Printf("\t%q: %q,\n", fnName(fn), sigString(fn))
			}
		}
		fmt.Println("}")
	case "ext":
		for _, fn := range P.Funcs {
			for _, e := range P.CG.Ext[fn] {
				fmt.Printf("%s -> %s %s\n", fnName(fn), e.Name, P.pos(e.Site.Pos()))
			}
		}
	}
}
