package main

// R6 — ERR: error flow (DESIGN §3 R6).
//
// For every error-like value (error, gqlerrors.ErrorList, *gqlerrors.Error, gqlerror.List)
// produced by a call in the scope:
//   drop      the value is never looked at (blank, unused, `go f()`)               → violation
//   swallow   the value is tested, and on the failure side execution re-joins the   → violation
//             success path, or the function returns a nil error / no error at all,
//             without the value (or something computed from it) having been
//             returned, stored, sent or passed on
//   unused    the value is compared at most (`if err != nil { /* TODO */ }` leaves a comparison   → violation
//             and no branch), or kept in a local variable / list / struct nobody hands on
// "The value" is followed through interface conversions, phis and variables that live in
// memory because a closure or a defer captures them; tests are recognised through negation,
// named conditions, len forms and module predicates (`failed(err)`). Handing on means: returned,
// sent, stored into memory that is not this activation's own, or passed to a callee that does
// one of these (module callees are looked into; pure formatting and the process log do not
// count — the formatted RESULT is followed instead). The failure-side walk knows what the
// guarding tests establish, so `if err == nil { x, err = g() }; if err != nil { return err }`
// and break-then-test-after-the-loop are understood, and `return nil, err` with an `err` that
// is known to be nil there is the return of nil.
// Deliberate instances are frozen in errTable with a reason; callees that provably never
// fail discharge their drops automatically; a tabled drop also covers the same call written
// as `if err := f(); err != nil { return }`.

import (
	"fmt"
	"go/token"
	"go/types"
	"os"
	"sort"
	"strings"

	"golang.org/x/tools/go/ssa"
)

type errSource struct {
	val  ssa.Value // the error-like value
	call ssa.CallInstruction
	desc string
}

// errSources lists the error-like results of calls in fn; unusedCalls are calls with an
// error-like result that is never extracted/used.
// onlyDeferred: fn runs only as a deferred call — a function literal whose one use is a defer
// statement, or a function all of whose call sites are defer statements. (A callback handed to
// an iterator, or a helper called in the middle of a loop, also "has nothing left to do" after
// its last call, but its caller has: fourth audit, `lo.ForEach(mdwares, func(m) { _ = m(req) })`.)
func (r *Run) onlyDeferred(fn *ssa.Function) bool {
	n := 0
	if fn.Parent() != nil {
		for _, ins := range allInstrs(fn.Parent()) {
			mc, ok := ins.(*ssa.MakeClosure)
			if !ok || mc.Fn != ssa.Value(fn) || mc.Referrers() == nil {
				continue
			}
			for _, ref := range *mc.Referrers() {
				if _, dbg := ref.(*ssa.DebugRef); dbg {
					continue
				}
				d, ok := ref.(*ssa.Defer)
				if !ok || d.Call.Value != ssa.Value(mc) {
					return false
				}
				n++
			}
		}
		// a literal without free variables is referenced as a plain function value
		for _, ins := range allInstrs(fn.Parent()) {
			if d, ok := ins.(*ssa.Defer); ok && d.Call.Value == ssa.Value(fn) {
				n++
			}
		}
		return n > 0 && len(r.P.CG.In[fn]) <= n
	}
	for _, e := range r.P.CG.In[fn] {
		if _, ok := e.Site.(*ssa.Defer); !ok {
			return false
		}
		n++
	}
	return n > 0
}

// lastEffect: the call is an ordinary call (not go/defer) in a function without results, and
// nothing follows it on any path but the return.
func lastEffect(fn *ssa.Function, ci ssa.CallInstruction) bool {
	call, ok := ci.(*ssa.Call)
	if !ok || fn.Signature.Results().Len() != 0 {
		return false
	}
	seen := map[*ssa.BasicBlock]bool{}
	var rest func(b *ssa.BasicBlock, from int) bool
	rest = func(b *ssa.BasicBlock, from int) bool {
		if from == 0 {
			if seen[b] {
				return false // a loop: the call can run again
			}
			seen[b] = true
		}
		for _, ins := range b.Instrs[from:] {
			switch ins.(type) {
			case *ssa.Return, *ssa.RunDefers, *ssa.Jump, *ssa.DebugRef:
			default:
				return false
			}
		}
		for _, s := range b.Succs {
			if !rest(s, 0) {
				return false
			}
		}
		return true
	}
	b := call.Block()
	for i, ins := range b.Instrs {
		if ins == ssa.Instruction(call) {
			return rest(b, i+1)
		}
	}
	return false
}

func errSources(fn *ssa.Function) (srcs []errSource, dropped []errSource) {
	for _, ins := range allInstrs(fn) {
		ci, ok := ins.(ssa.CallInstruction)
		if !ok {
			continue
		}
		c := ci.Common()
		sig := c.Signature()
		if sig == nil {
			continue
		}
		res := sig.Results()
		var errIdx []int
		for i := 0; i < res.Len(); i++ {
			if isErrorish(res.At(i).Type()) {
				errIdx = append(errIdx, i)
			}
		}
		if len(errIdx) == 0 {
			continue
		}
		desc := calleeDesc(c)
		call, isCall := ins.(*ssa.Call)
		if !isCall {
			// go f() / defer f(): results are discarded
			dropped = append(dropped, errSource{nil, ci, desc})
			continue
		}
		if res.Len() == 1 {
			if refs := call.Referrers(); refs == nil || len(*refs) == 0 {
				dropped = append(dropped, errSource{nil, ci, desc})
			} else {
				srcs = append(srcs, errSource{call, ci, desc})
			}
			continue
		}
		for _, i := range errIdx {
			var ex *ssa.Extract
			if refs := call.Referrers(); refs != nil {
				for _, ref := range *refs {
					if e, ok := ref.(*ssa.Extract); ok && e.Index == i {
						ex = e
					}
				}
			}
			if ex == nil || ex.Referrers() == nil || len(*ex.Referrers()) == 0 {
				dropped = append(dropped, errSource{nil, ci, desc})
			} else {
				srcs = append(srcs, errSource{ex, ci, desc})
			}
		}
	}
	return
}

func calleeDesc(c *ssa.CallCommon) string {
	if c.IsInvoke() {
		return namedOfShort(c.Value.Type()) + "." + c.Method.Name()
	}
	if n := calleeName(c); n != "" {
		n = strings.ReplaceAll(n, modPath+"/", "")
		n = strings.ReplaceAll(n, "github.com/vektah/gqlparser/v2/", "gqlparser/")
		n = strings.ReplaceAll(n, "github.com/gobwas/ws/", "ws/")
		n = strings.ReplaceAll(n, "github.com/samber/", "")
		return n
	}
	return "dynamic call of " + shortType(c.Value.Type())
}

func namedOfShort(t types.Type) string {
	n := namedOf(t)
	n = strings.ReplaceAll(n, modPath+"/", "")
	if n == "" {
		return shortType(t)
	}
	return n
}

// neverFails: every return of the (module) callee yields a nil constant for the error-like
// result at index i. For AsyncMapReduce only one direction holds and only that one is used: when
// the map function never fails, the error list is nil (errors come from mapFunc alone: R1/A2,A4,A8).
// The converse is FALSE (audit 9, E-C1): a map function that fails with an error which
// gqlerrors.ExtendErrorList/FormatError turns into no entries (a non-nil but empty ErrorList
// returned as `error`) leaves the list nil and its element missing from the accumulator — a nil
// list from AsyncMapReduce is therefore no proof that every element was mapped.
// documentedInfallible: library writers whose documentation states that the returned error is
// always nil (strings.Builder: "always returns a nil error"; bytes.Buffer: "err is always nil";
// hash.Hash: "It never returns an error").
var documentedInfallible = map[string]bool{
	"(*strings.Builder).WriteString": true, "(*strings.Builder).WriteByte": true, "(*strings.Builder).WriteRune": true, "(*strings.Builder).Write": true,
	"(*bytes.Buffer).WriteString": true, "(*bytes.Buffer).WriteByte": true, "(*bytes.Buffer).WriteRune": true, "(*bytes.Buffer).Write": true,
}

func (r *Run) neverFails(site ssa.CallInstruction, depth int) bool {
	if depth > 3 {
		return false
	}
	if documentedInfallible[calleeName(site.Common())] {
		return true
	}
	if c := site.Common(); c.IsInvoke() && c.Method.Name() == "Write" {
		switch namedOf(c.Value.Type()) {
		case "hash.Hash", "hash.Hash32", "hash.Hash64":
			return true // "It never returns an error."
		}
	}
	callees := []*ssa.Function{}
	for _, e := range r.P.CG.Out[site.Parent()] {
		if e.Site == site && (e.Kind == "static" || e.Kind == "invoke" || e.Kind == "dynamic") {
			callees = append(callees, e.Callee)
		}
	}
	if len(callees) == 0 {
		return false
	}
	for _, cal := range callees {
		if fnName(cal) == "common.AsyncMapReduce" {
			// errors only come from mapFunc (R1/A2,A4,A8)
			args := site.Common().Args
			if len(args) != 4 {
				return false
			}
			fs, unk := r.P.CG.funcValues(args[2], map[ssa.Value]bool{})
			if unk != "" || len(fs) == 0 {
				return false
			}
			for _, f := range fs {
				if !r.returnsNilErr(f, depth+1) {
					return false
				}
			}
			continue
		}
		if !r.returnsNilErr(cal, depth+1) {
			return false
		}
	}
	return true
}

func (r *Run) returnsNilErr(fn *ssa.Function, depth int) bool {
	rets := returnsOf(fn)
	if len(rets) == 0 {
		return false
	}
	for _, ret := range rets {
		for i, res := range retVals(ret) {
			if !isErrorish(fn.Signature.Results().At(i).Type()) {
				continue
			}
			if !isNilConst(unwrap(res)) {
				return false
			}
		}
	}
	return true
}

// ---------------------------------------------------------------------------------------
// Where the error lives: aliases, cells, taint.
//
//   alias   a value that IS the error (possibly merged with others): the call result, its
//           interface conversions, phis it flows into, loads of a variable cell it was
//           assigned to (a local captured by a closure or a defer lives in memory)
//   cell    such a variable: the owning Alloc together with the free variables bound to it
//   taint   aliases plus everything computed from them (err.Error(), fmt.Errorf(…, err), a
//           struct or a slice the error was put into — local memory the error is stored in is
//           followed, it is not a destination)

// cellOwner resolves an Alloc or a FreeVar to the Alloc that owns the variable.
func cellOwner(x ssa.Value) *ssa.Alloc {
	for depth := 0; depth < 8; depth++ {
		switch c := x.(type) {
		case *ssa.Alloc:
			return c
		case *ssa.FreeVar:
			fn := c.Parent()
			idx := -1
			for i, fv := range fn.FreeVars {
				if fv == c {
					idx = i
				}
			}
			par := fn.Parent()
			if idx < 0 || par == nil {
				return nil
			}
			var next ssa.Value
			for _, ins := range allInstrs(par) {
				if mc, ok := ins.(*ssa.MakeClosure); ok && mc.Fn == ssa.Value(fn) && idx < len(mc.Bindings) {
					next = mc.Bindings[idx]
				}
			}
			if next == nil {
				return nil
			}
			x = next
		default:
			return nil
		}
	}
	return nil
}

// cellMembers: the owner plus the free variables bound to it in closures (transitively).
func cellMembers(al *ssa.Alloc) []ssa.Value {
	out := []ssa.Value{al}
	for i := 0; i < len(out); i++ {
		refs := out[i].Referrers()
		if refs == nil {
			continue
		}
		for _, ref := range *refs {
			mc, ok := ref.(*ssa.MakeClosure)
			if !ok {
				continue
			}
			cf, ok := mc.Fn.(*ssa.Function)
			if !ok {
				continue
			}
			for j, b := range mc.Bindings {
				if b == out[i] && j < len(cf.FreeVars) {
					out = append(out, cf.FreeVars[j])
				}
			}
		}
	}
	return out
}

// addrRoot strips element/field addressing: the object the address points into.
func addrRoot(a ssa.Value) ssa.Value {
	for {
		switch x := a.(type) {
		case *ssa.IndexAddr:
			a = x.X
		case *ssa.FieldAddr:
			a = x.X
		case *ssa.ChangeType:
			a = x.X
		case *ssa.Slice:
			a = x.X
		default:
			return a
		}
	}
}

// localRoot: the address points into memory that belongs to this activation (a local, a
// fresh allocation, a captured local): storing there does not hand anything to anybody yet.
func localRoot(a ssa.Value) *ssa.Alloc {
	switch x := addrRoot(a).(type) {
	case *ssa.Alloc:
		return x
	case *ssa.FreeVar:
		return cellOwner(x)
	}
	return nil
}

type errInfo struct {
	v     ssa.Value
	alias map[ssa.Value]bool
	taint map[ssa.Value]bool
	cells map[*ssa.Alloc]bool // variables that hold the error itself
	fns   []*ssa.Function     // functions the error can be seen in (owner and closures sharing a cell)
}

var errInfoMemo = map[ssa.Value]*errInfo{}

func errInfoOf(v ssa.Value) *errInfo {
	if ei, ok := errInfoMemo[v]; ok {
		return ei
	}
	ei := &errInfo{v: v, alias: map[ssa.Value]bool{v: true}, taint: map[ssa.Value]bool{}, cells: map[*ssa.Alloc]bool{}}
	errInfoMemo[v] = ei
	fnSet := map[*ssa.Function]bool{}
	addFn := func(f *ssa.Function) {
		if f != nil && !fnSet[f] {
			fnSet[f] = true
			ei.fns = append(ei.fns, f)
		}
	}
	addFn(v.Parent())
	// aliases
	work := []ssa.Value{v}
	for len(work) > 0 {
		x := work[0]
		work = work[1:]
		refs := x.Referrers()
		if refs == nil {
			continue
		}
		add := func(y ssa.Value) {
			if !ei.alias[y] {
				ei.alias[y] = true
				work = append(work, y)
			}
		}
		for _, ref := range *refs {
			switch y := ref.(type) {
			case *ssa.ChangeType:
				add(y)
			case *ssa.MakeInterface:
				add(y)
			case *ssa.ChangeInterface:
				add(y)
			case *ssa.Phi:
				add(y)
			case *ssa.Store:
				if y.Val != x {
					continue
				}
				var owner *ssa.Alloc
				switch a := y.Addr.(type) {
				case *ssa.Alloc:
					owner = a
				case *ssa.FreeVar:
					owner = cellOwner(a)
				}
				if owner == nil || ei.cells[owner] {
					continue
				}
				ei.cells[owner] = true
				for _, m := range cellMembers(owner) {
					addFn(m.Parent())
					if mr := m.Referrers(); mr != nil {
						for _, l := range *mr {
							if ld, ok := l.(*ssa.UnOp); ok && ld.Op == token.MUL {
								add(ld)
							}
						}
					}
				}
			}
		}
	}
	// taint
	for a := range ei.alias {
		ei.taint[a] = true
	}
	taintAlloc := func(al *ssa.Alloc) bool {
		ch := false
		for _, m := range cellMembers(al) {
			if !ei.taint[m] {
				ei.taint[m] = true
				ch = true
				addFn(m.Parent())
			}
		}
		return ch
	}
	for changed := true; changed; {
		changed = false
		for i := 0; i < len(ei.fns); i++ {
			for _, ins := range allInstrs(ei.fns[i]) {
				switch x := ins.(type) {
				case *ssa.Store:
					if ei.taint[x.Val] {
						if al := localRoot(x.Addr); al != nil && taintAlloc(al) {
							changed = true
						}
					}
					continue
				case *ssa.MapUpdate:
					if ei.taint[x.Value] || ei.taint[x.Key] {
						if mm, ok := x.Map.(*ssa.MakeMap); ok && !ei.taint[mm] {
							ei.taint[mm] = true
							changed = true
						}
					}
					continue
				}
				val, ok := ins.(ssa.Value)
				if !ok || ei.taint[val] {
					continue
				}
				if _, isMC := ins.(*ssa.MakeClosure); isMC {
					continue // a captured variable is followed into the closure (cellMembers); the closure value is not the error
				}
				for _, op := range operandsOf(ins) {
					if !ei.taint[op] {
						continue
					}
					// a comparison result is not "the error"
					if bo, isBin := ins.(*ssa.BinOp); isBin && (bo.Op == token.EQL || bo.Op == token.NEQ || bo.Op == token.GTR || bo.Op == token.LSS) {
						break
					}
					if c, isCall := ins.(*ssa.Call); isCall {
						if b, isB := c.Call.Value.(*ssa.Builtin); isB && b.Name() == "len" {
							break
						}
						if isErrPredicate(&c.Call) {
							break
						}
					}
					ei.taint[val] = true
					changed = true
					break
				}
			}
		}
	}
	return ei
}

// taintFrom computes the values derived from v (through operands and through local memory).
func taintFrom(v ssa.Value) map[ssa.Value]bool {
	if v.Parent() == nil {
		return map[ssa.Value]bool{v: true}
	}
	return errInfoOf(v).taint
}

// reportsNothing: library calls that neither hand their argument to anybody who can act on it
// nor keep it: pure formatting/wrapping (the RESULT carries the error and is followed) and
// the process log.
func reportsNothing(name string) bool {
	for _, p := range []string{"log.", "(*log.Logger).", "fmt.Sprint", "fmt.Print", "fmt.Errorf", "errors.", "strings.", "strconv.", "(*errors."} {
		if strings.HasPrefix(name, p) {
			return true
		}
	}
	return false
}

type paramKey struct {
	fn  *ssa.Function
	idx int
}

var paramHandledMemo = map[paramKey]int{} // 1 in progress, 2 yes, 3 no

// paramHandled: the module function does something with its idx-th parameter beyond looking at
// it and handing it back (the returned value is followed in the caller).
func paramHandled(fn *ssa.Function, idx, depth int) bool {
	if depth > 4 || idx >= len(fn.Params) {
		return true
	}
	k := paramKey{fn, idx}
	switch paramHandledMemo[k] {
	case 1, 2:
		return true
	case 3:
		return false
	}
	paramHandledMemo[k] = 1
	ei := errInfoOf(fn.Params[idx])
	res := false
	for _, f := range ei.fns {
		for _, ins := range allInstrs(f) {
			if _, isRet := ins.(*ssa.Return); isRet && f == fn {
				continue
			}
			if p, isPanic := ins.(*ssa.Panic); isPanic && ei.taint[p.X] {
				res = true
			}
			if handlesErrD(ins, ei.taint, depth+1) {
				res = true
			}
		}
	}
	if res {
		paramHandledMemo[k] = 2
	} else {
		paramHandledMemo[k] = 3
	}
	return res
}

// handlesErr: ins hands a tainted value on — returns it, stores it where others can see it,
// sends it, or passes it to a call that does one of these.
func handlesErr(ins ssa.Instruction, tainted map[ssa.Value]bool) bool {
	return handlesErrD(ins, tainted, 0)
}

func handlesErrD(ins ssa.Instruction, tainted map[ssa.Value]bool, depth int) bool {
	uses := func(v ssa.Value) bool { return v != nil && tainted[v] }
	switch x := ins.(type) {
	case *ssa.Return:
		for _, res := range retVals(x) {
			if uses(res) {
				return true
			}
		}
		for _, res := range x.Results {
			if uses(res) {
				return true
			}
		}
	case *ssa.Store:
		// a store into local memory is followed by the taint instead (the variable, the struct,
		// the list may or may not be looked at again)
		return uses(x.Val) && localRoot(x.Addr) == nil
	case *ssa.Send:
		return uses(x.X)
	case *ssa.MapUpdate:
		if _, local := x.Map.(*ssa.MakeMap); local {
			return false
		}
		return uses(x.Value)
	case ssa.CallInstruction:
		c := x.Common()
		if _, isB := c.Value.(*ssa.Builtin); isB {
			return false // append/len/copy: the result is followed
		}
		// a predicate over the error (errors.Is / errors.As / a module function that returns
		// only a bool) classifies it; it does not report it
		if isErrPredicate(c) {
			return false
		}
		var idx []int
		for i, a := range c.Args {
			if uses(a) {
				idx = append(idx, i)
			}
		}
		if len(idx) == 0 {
			return false
		}
		if reportsNothing(calleeName(c)) {
			return false
		}
		if callee := c.StaticCallee(); callee != nil && len(callee.Blocks) > 0 && inModule(callee) {
			for _, i := range idx {
				if paramHandled(callee, i, depth) {
					return true
				}
			}
			return false
		}
		// a library or dynamic callee: writing, encoding, reporting
		return true
	}
	return false
}

// isErrPredicate: the call only asks a yes/no question (its single result is a bool).
func isErrPredicate(c *ssa.CallCommon) bool {
	sig := c.Signature()
	if sig == nil {
		return false
	}
	res := sig.Results()
	if res == nil || res.Len() != 1 {
		return false
	}
	b, ok := res.At(0).Type().Underlying().(*types.Basic)
	return ok && b.Kind() == types.Bool
}

// nilTestOf decomposes a condition into "subject is (non-)nil / (non-)empty": negations, the
// len forms and module predicates whose every return is such a test of one parameter
// (`func failed(err error) bool { return err != nil }`) are looked through.
func nilTestOf(cond ssa.Value, depth int) (subj ssa.Value, nonNilWhenTrue bool, ok bool) {
	if depth > 4 {
		return nil, false, false
	}
	switch x := cond.(type) {
	case *ssa.UnOp:
		if x.Op == token.NOT {
			s, p, ok := nilTestOf(x.X, depth+1)
			return s, !p, ok
		}
	case *ssa.BinOp:
		var other ssa.Value
		switch {
		case isNilConst(x.Y):
			other = x.X
		case isNilConst(x.X):
			other = x.Y
		}
		if other != nil {
			switch x.Op {
			case token.NEQ:
				return other, true, true
			case token.EQL:
				return other, false, true
			}
			return nil, false, false
		}
		// len(v) > 0, len(v) != 0, len(v) == 0, 0 < len(v)
		lenArg := func(v ssa.Value) ssa.Value {
			c, ok := v.(*ssa.Call)
			if !ok {
				return nil
			}
			if b, ok := c.Call.Value.(*ssa.Builtin); ok && b.Name() == "len" {
				return c.Call.Args[0]
			}
			return nil
		}
		if a := lenArg(x.X); a != nil && isIntConst(x.Y, 0) {
			switch x.Op {
			case token.GTR, token.NEQ:
				return a, true, true
			case token.EQL, token.LEQ:
				return a, false, true
			}
		}
		if a := lenArg(x.Y); a != nil && isIntConst(x.X, 0) {
			switch x.Op {
			case token.LSS, token.NEQ:
				return a, true, true
			case token.EQL, token.GEQ:
				return a, false, true
			}
		}
	case *ssa.Call:
		if !isErrPredicate(&x.Call) {
			return nil, false, false
		}
		callee := x.Call.StaticCallee()
		if callee == nil || len(callee.Blocks) == 0 || !inModule(callee) {
			return nil, false, false
		}
		pi, pol, seen := -1, false, false
		for _, ret := range returnsOf(callee) {
			if len(ret.Results) != 1 {
				return nil, false, false
			}
			s, p, ok := nilTestOf(ret.Results[0], depth+1)
			if !ok {
				return nil, false, false
			}
			par, isPar := unwrap(s).(*ssa.Parameter)
			if !isPar {
				return nil, false, false
			}
			i := -1
			for j, q := range callee.Params {
				if q == par {
					i = j
				}
			}
			if i < 0 || (seen && (i != pi || p != pol)) {
				return nil, false, false
			}
			pi, pol, seen = i, p, true
		}
		if seen && pi < len(x.Call.Args) {
			return x.Call.Args[pi], pol, true
		}
	}
	return nil, false, false
}

// failureTests finds the Ifs that separate failure from success for v and returns, for
// each, the failure successor and the success successor.
type errTest struct {
	iff      *ssa.If
	fail, ok *ssa.BasicBlock
}

// failureTests: the tests in v's own function.
func failureTests(v ssa.Value) []errTest {
	var out []errTest
	for _, t := range failureTestsAll(v) {
		if t.iff.Parent() == v.Parent() {
			out = append(out, t)
		}
	}
	return out
}

// failureTestsAll: tests of any alias of v, in any function that can see it.
func failureTestsAll(v ssa.Value) []errTest {
	var out []errTest
	if v.Parent() == nil {
		return nil
	}
	ei := errInfoOf(v)
	for _, fn := range ei.fns {
		for _, ins := range allInstrs(fn) {
			iff, ok := ins.(*ssa.If)
			if !ok {
				continue
			}
			subj, pol, ok := nilTestOf(iff.Cond, 0)
			if !ok || !(ei.alias[subj] || ei.alias[unwrap(subj)]) {
				continue
			}
			s := iff.Block().Succs
			if pol {
				out = append(out, errTest{iff, s[0], s[1]})
			} else {
				out = append(out, errTest{iff, s[1], s[0]})
			}
		}
	}
	return out
}

// ---------------------------------------------------------------------------------------
// Path facts: what is known to be nil / non-nil on the path being walked.

type nilEnv struct {
	val  map[ssa.Value]bool  // true: known non-nil (non-empty), false: known nil (empty)
	cell map[*ssa.Alloc]bool // the same for the current content of a variable cell
}

func newNilEnv() *nilEnv { return &nilEnv{map[ssa.Value]bool{}, map[*ssa.Alloc]bool{}} }

func (e *nilEnv) clone() *nilEnv {
	c := newNilEnv()
	for k, v := range e.val {
		c.val[k] = v
	}
	for k, v := range e.cell {
		c.cell[k] = v
	}
	return c
}

// directCell: addr is a variable itself (not an element or field of one).
func directCell(addr ssa.Value) *ssa.Alloc {
	switch a := addr.(type) {
	case *ssa.Alloc:
		return a
	case *ssa.FreeVar:
		return cellOwner(a)
	}
	return nil
}

func (e *nilEnv) eval(x ssa.Value, depth int) (nonNil, known bool) {
	if x == nil || depth > 6 {
		return false, false
	}
	if c, ok := x.(*ssa.Const); ok {
		if c.Value == nil {
			return false, true
		}
		return false, false
	}
	if b, ok := e.val[x]; ok {
		return b, true
	}
	switch y := x.(type) {
	case *ssa.ChangeType:
		return e.eval(y.X, depth+1)
	case *ssa.ChangeInterface:
		return e.eval(y.X, depth+1)
	case *ssa.MakeInterface:
		if nn, known := e.eval(y.X, depth+1); known {
			return nn, true
		}
		if _, isStruct := y.X.Type().Underlying().(*types.Struct); isStruct {
			return true, true
		}
	case *ssa.Alloc:
		return true, true
	case *ssa.Call:
		switch calleeName(&y.Call) {
		case "fmt.Errorf", "errors.New":
			return true, true
		}
		if b, ok := y.Call.Value.(*ssa.Builtin); ok && b.Name() == "append" && len(y.Call.Args) == 2 {
			if _, isConst := y.Call.Args[1].(*ssa.Const); !isConst {
				return true, true // a list something was appended to is not empty
			}
		}
	case *ssa.Phi:
		first, res := true, false
		for _, ed := range y.Edges {
			if ed == ssa.Value(y) {
				continue
			}
			nn, known := e.eval(ed, depth+1)
			if !known || (!first && nn != res) {
				return false, false
			}
			first, res = false, nn
		}
		if !first {
			return res, true
		}
	case *ssa.UnOp:
		if y.Op == token.MUL {
			if owner := directCell(y.X); owner != nil {
				if b, ok := e.cell[owner]; ok {
					return b, true
				}
			}
		}
	}
	return false, false
}

func (e *nilEnv) set(x ssa.Value, nn bool, cells bool) {
	for depth := 0; depth < 6 && x != nil; depth++ {
		e.val[x] = nn
		switch y := x.(type) {
		case *ssa.ChangeType:
			x = y.X
		case *ssa.ChangeInterface:
			x = y.X
		case *ssa.UnOp:
			if cells && y.Op == token.MUL {
				if owner := directCell(y.X); owner != nil {
					e.cell[owner] = nn
				}
			}
			return
		default:
			return
		}
	}
}

// assume records what cond being `truth` says.
func (e *nilEnv) assume(cond ssa.Value, truth bool, cells bool) {
	if subj, pol, ok := nilTestOf(cond, 0); ok {
		e.set(subj, truth == pol, cells)
	}
}

func (e *nilEnv) evalCond(cond ssa.Value) (truth, known bool) {
	subj, pol, ok := nilTestOf(cond, 0)
	if !ok {
		return false, false
	}
	nn, known := e.eval(subj, 0)
	if !known {
		return false, false
	}
	return nn == pol, true
}

// dominatingFacts: what the conditions that guard b say about SSA values.
func dominatingFacts(b *ssa.BasicBlock, e *nilEnv) {
	for d := b; d != nil && d.Idom() != nil; d = d.Idom() {
		p := d.Idom()
		if len(p.Instrs) == 0 {
			continue
		}
		iff, ok := p.Instrs[len(p.Instrs)-1].(*ssa.If)
		if !ok || len(p.Succs) != 2 || p.Succs[0] == p.Succs[1] {
			continue
		}
		for i, s := range p.Succs {
			if len(s.Preds) == 1 && s.Dominates(b) {
				e.assume(iff.Cond, i == 0, false)
			}
		}
	}
}

var cellClosureWriteMemo = map[*ssa.Alloc]bool{}

// cellWrittenInClosure: a closure assigns to the variable (so a call may change it).
func cellWrittenInClosure(owner *ssa.Alloc) bool {
	if b, ok := cellClosureWriteMemo[owner]; ok {
		return b
	}
	res := false
	for _, m := range cellMembers(owner) {
		if _, isFV := m.(*ssa.FreeVar); !isFV {
			continue
		}
		if refs := m.Referrers(); refs != nil {
			for _, ref := range *refs {
				if st, ok := ref.(*ssa.Store); ok && st.Addr == m {
					res = true
				}
			}
		}
	}
	cellClosureWriteMemo[owner] = res
	return res
}

// swallowed walks the failure side and reports a path on which the error is neither
// handled nor the function left with a non-nil error.
func (r *Run) swallowed(v ssa.Value, t errTest) (bool, string) {
	return r.swallowedWith(v, t, nil)
}

// swallowedWith additionally treats `carrier` (e.g. the response object that contains the
// error list) as carrying the error.
//
// The walk is path-sensitive as far as nil tests go: it starts with what the guarding
// conditions and the test itself establish, resolves phis by the edge taken, follows only
// the feasible side of a later test of a value it knows (`if err == nil { x, err = g() };
// if err != nil { return err }`, `break` and a test after the loop), and treats the return
// of an error VALUE that is known to be nil on the path as the return of nil.
func (r *Run) swallowedWith(v ssa.Value, t errTest, carrier ssa.Value) (bool, string) {
	fn := t.iff.Parent()
	ei := errInfoOf(v)
	tainted := ei.taint
	if carrier != nil {
		tainted = map[ssa.Value]bool{}
		for k := range ei.taint {
			tainted[k] = true
		}
		for k := range taintFrom(carrier) {
			tainted[k] = true
		}
	}
	okReach := blockReach(t.ok)
	okReach[t.ok] = true
	hasErrResult := false
	for i := 0; i < fn.Signature.Results().Len(); i++ {
		if isErrorish(fn.Signature.Results().At(i).Type()) {
			hasErrResult = true
		}
	}
	// the value was already handed on before it is tested (`errCh <- err; if err != nil { return }`):
	// a hand-over that every path to the test passes through reports the failure as well
	if iffBlock := predIf(t.fail); iffBlock != nil {
		for _, b := range fn.Blocks {
			if b != iffBlock && !b.Dominates(iffBlock) {
				continue
			}
			for _, ins := range b.Instrs {
				// a send or a call only: a store before the test is usually the variable's own cell
				_, isSend := ins.(*ssa.Send)
				_, isCall := ins.(ssa.CallInstruction)
				if (isSend || isCall) && handlesErr(ins, tainted) {
					return false, ""
				}
			}
		}
	}
	if os.Getenv("PEB_ERRDEBUG") != "" && strings.Contains(fnName(fn), os.Getenv("PEB_ERRDEBUG")) {
		fn.WriteTo(os.Stderr)
		for k := range tainted {
			fmt.Fprintln(os.Stderr, "TAINT", k.Name(), k)
		}
	}
	env := newNilEnv()
	dominatingFacts(t.iff.Block(), env)
	if s := t.iff.Block().Succs; len(s) == 2 && s[0] != s[1] {
		env.assume(t.iff.Cond, t.fail == s[0], true)
	}
	holdsInCell := func(e *nilEnv) *ssa.Alloc {
		for owner := range ei.cells {
			if e.cell[owner] {
				return owner
			}
		}
		return nil
	}
	type edge struct{ from, to *ssa.BasicBlock }
	seen := map[edge]bool{}
	var why string
	// joined: the path is past the point where failure and success side meet, with the error
	// still carried by a phi or a variable; from there on only the way the function is left counts
	var walk func(b, pred *ssa.BasicBlock, env *nilEnv, first, joined bool) bool // true when a swallowing path exists
	walk = func(b, pred *ssa.BasicBlock, env *nilEnv, first, joined bool) bool {
		if seen[edge{pred, b}] {
			return false
		}
		seen[edge{pred, b}] = true
		carried := false
		idx := -1
		for i, p := range b.Preds {
			if p == pred {
				idx = i
			}
		}
		// phis are assigned in parallel: evaluate every incoming value before updating any
		newPhi := map[*ssa.Phi]*bool{}
		for _, ins := range b.Instrs {
			phi, ok := ins.(*ssa.Phi)
			if !ok {
				break
			}
			newPhi[phi] = nil
			if idx < 0 || idx >= len(phi.Edges) {
				continue
			}
			if tainted[phi.Edges[idx]] {
				carried = true
			}
			if nn, known := env.eval(phi.Edges[idx], 0); known {
				newPhi[phi] = &nn
			}
		}
		for phi, nn := range newPhi {
			if nn == nil {
				delete(env.val, phi)
			} else {
				env.val[phi] = *nn
			}
		}
		if !first && !joined && okReach[b] && !t.fail.Dominates(b) {
			if !carried && holdsInCell(env) == nil {
				// re-joined the success path (merge block or loop header) and nothing carries the error
				why = "execution continues at " + r.P.pos(firstPos(b)) + " as if the call had succeeded"
				return true
			}
			joined = true
		}
		for _, ins := range b.Instrs {
			if _, isPhi := ins.(*ssa.Phi); isPhi {
				continue
			}
			if val, isVal := ins.(ssa.Value); isVal {
				delete(env.val, val) // a new execution of the definition: earlier knowledge is stale
			}
			if handlesErr(ins, tainted) {
				return false
			}
			switch x := ins.(type) {
			case *ssa.Store:
				if owner := directCell(x.Addr); owner != nil {
					if nn, known := env.eval(x.Val, 0); known {
						env.cell[owner] = nn
					} else {
						delete(env.cell, owner)
					}
				}
			case ssa.CallInstruction:
				if _, isB := x.Common().Value.(*ssa.Builtin); !isB {
					for owner := range env.cell {
						if cellWrittenInClosure(owner) {
							delete(env.cell, owner)
						}
					}
				}
			case *ssa.Panic:
				return false
			}
			if ret, ok := ins.(*ssa.Return); ok {
				if owner := holdsInCell(env); owner != nil && owner.Parent() != fn {
					return false // a closure leaves the error in a variable of its creator: not lost here (see R6.flow "use")
				}
				if !hasErrResult {
					why = "the function returns at " + r.P.pos(retPos(ret)) + " and has no error result: the failure is invisible to its caller"
					return true
				}
				stale := ""
				for i, res := range retVals(ret) {
					if !isErrorish(fn.Signature.Results().At(i).Type()) || isNilConst(unwrap(res)) {
						continue
					}
					if nn, known := env.eval(res, 0); known && !nn {
						stale = " (the value returned there is an error that is known to be nil on this path: it was tested before)"
						continue
					}
					return false // some error is returned (a new one: propagation by replacement)
				}
				why = "the function returns a nil error at " + r.P.pos(retPos(ret)) + " on the failure path" + stale
				return true
			}
		}
		if len(b.Instrs) > 0 {
			if iff, ok := b.Instrs[len(b.Instrs)-1].(*ssa.If); ok && len(b.Succs) == 2 && b.Succs[0] != b.Succs[1] {
				truth, known := env.evalCond(iff.Cond)
				for i, s := range b.Succs {
					if known && truth != (i == 0) {
						continue // infeasible on this path
					}
					e2 := env.clone()
					if !known {
						e2.assume(iff.Cond, i == 0, true)
					}
					if walk(s, b, e2, false, joined) {
						return true
					}
				}
				return false
			}
		}
		for _, s := range b.Succs {
			e2 := env
			if len(b.Succs) > 1 {
				e2 = env.clone()
			}
			if walk(s, b, e2, false, joined) {
				return true
			}
		}
		return false
	}
	if walk(t.fail, t.iff.Block(), env, true, false) {
		return true, why
	}
	return false, ""
}

// handedOnSomewhere: some instruction in the functions that can see the error returns, sends,
// publishes or passes on a value computed from it.
func handedOnSomewhere(ei *errInfo) bool {
	for _, f := range ei.fns {
		for _, ins := range allInstrs(f) {
			if handlesErr(ins, ei.taint) {
				return true
			}
			if p, ok := ins.(*ssa.Panic); ok && ei.taint[p.X] {
				return true
			}
		}
	}
	return false
}

func firstPos(b *ssa.BasicBlock) token.Pos {
	if p := firstPos1(b); p.IsValid() {
		return p
	}
	// a loop header of position-less bookkeeping: where it goes next
	seen := map[*ssa.BasicBlock]bool{b: true}
	work := append([]*ssa.BasicBlock{}, b.Succs...)
	for n := 0; len(work) > 0 && n < 8; n++ {
		s := work[0]
		work = work[1:]
		if seen[s] {
			continue
		}
		seen[s] = true
		if p := firstPos1(s); p.IsValid() {
			return p
		}
		work = append(work, s.Succs...)
	}
	return token.NoPos
}

func firstPos1(b *ssa.BasicBlock) token.Pos {
	for _, i := range b.Instrs {
		if i.Pos().IsValid() {
			return i.Pos()
		}
		// a loop header or a merge block may consist of position-less bookkeeping: use what it works on
		for _, op := range operandsOf(i) {
			if op.Pos().IsValid() {
				return op.Pos()
			}
		}
	}
	return token.NoPos
}

func retPos(ret *ssa.Return) token.Pos {
	if ret.Pos().IsValid() {
		return ret.Pos()
	}
	return firstPos(ret.Block())
}

type errScope struct {
	label string
	roots []string
	pkgs  []string
	min   int
}

func ruleErr(sc errScope) ruleFn {
	return func(r *Run) {
		set := r.scopeFuncs(panicScope{label: sc.label, roots: sc.roots, pkgs: sc.pkgs})
		var fns []*ssa.Function
		for _, fn := range r.P.Funcs {
			if fn.Synthetic == "" {
				fns = append(fns, fn)
			}
		}
		sort.Slice(fns, func(i, j int) bool { return fnName(fns[i]) < fnName(fns[j]) })
		n := 0
		defer func() { r.silent = false }()
		for _, fn := range fns {
			// out-of-scope functions are walked silently: see Run.add
			r.silent = !set[fn]
			name := fnName(fn)
			srcs, dropped := errSources(fn)
			for _, d := range dropped {
				if !r.silent {
					n++
				}
				construct := "drop " + d.desc
				site := r.P.pos(d.call.Pos())
				if r.neverFails(d.call, 0) {
					r.OK("R6.drop", name, construct, site, "callee provably never fails: every return of its error result is nil")
				} else if reason, ok := useTable(r, errTable, name+"/"+construct); ok {
					r.Tabled("R6.drop", name, construct, site, "err", reason)
				} else if lastEffect(fn, d.call) && r.onlyDeferred(fn) {
					r.OK("R6.drop", name, construct, site, "the call is the last thing a deferred function does (it runs when the enclosing function is over and has no result to report a failure with): leaving is all that `if err != nil { return }` would do")
				} else {
					r.Bad("R6.drop", name, construct, site, "the error result of "+d.desc+" is discarded: a failure there goes unnoticed")
				}
			}
			for _, s := range srcs {
				tests := failureTestsAll(s.val)
				ei := errInfoOf(s.val)
				if len(tests) == 0 || len(ei.cells) > 0 {
					// used without a test (returned, passed on, stored…), or kept in a variable that
					// closures share: somebody must actually hand it on. A comparison whose outcome
					// decides nothing (`if err != nil { /* TODO */ }`), a list nobody reads and the
					// process log are not that.
					if !r.silent {
						n++
					}
					construct := "use " + s.desc
					site := r.P.pos(s.call.Pos())
					if handedOnSomewhere(ei) {
						r.OK("R6.flow", name, construct, site, "error value is used (returned/stored/passed on) without being filtered by a test")
					} else if r.neverFails(s.call, 0) {
						r.OK("R6.flow", name, construct, site, "callee provably never fails")
					} else if reason, ok := useTable(r, errTable, name+"/"+construct); ok {
						r.Tabled("R6.flow", name, construct, site, "err", reason)
					} else {
						r.Bad("R6.flow", name, construct, site, "the error result of "+s.desc+" is looked at or kept in a local variable at most: no instruction returns it, sends it, stores it where a caller can see it or passes it to a function that does: a failure there goes unnoticed")
					}
				}
				for _, t := range tests {
					if !r.silent {
						n++
					}
					construct := "test " + s.desc
					site := r.P.pos(s.call.Pos())
					sw, why := r.swallowed(s.val, t)
					if !sw {
						r.OK("R6.flow", name, construct, site, "every path from the failure branch returns an error, reports it or hands it on")
						continue
					}
					if r.neverFails(s.call, 0) {
						r.OK("R6.flow", name, construct, site, "callee provably never fails")
						continue
					}
					if reason, ok := useTable(r, errTable, name+"/"+construct); ok {
						r.Tabled("R6.flow", name, construct, site, "err", reason)
						continue
					}
					// a confirmed deliberate drop written out (`if err := f(); err != nil { return }`)
					if reason, ok := useTable(r, errTable, name+"/drop "+s.desc); ok {
						r.Tabled("R6.flow", name, construct, site, "err", reason)
						continue
					}
					if reason, ok := r.terminates(t.iff.Parent(), 0); ok && strings.Contains(why, "has no error result") {
						r.Tabled("R6.flow", name, construct, site, "terminate", reason)
						continue
					}
					r.Bad("R6.flow", name, construct, site, fmt.Sprintf("failure of %s is detected at %s but then swallowed: %s", s.desc, r.P.pos(t.iff.Cond.Pos()), why))
				}
			}
		}
		r.silent = false
		r.AtLeast("R6", "error-like values in scope "+sc.label, n, sc.min)
	}
}

// terminates reports whether fn is a connection-owning function whose reaction to a failure
// is to end the connection: it is tabled as such, or it is a phase split out of one — called
// only from such functions, in a way that makes its return the caller's: it hands back one
// boolean that the caller branches on to leave, or it returns nothing and the call is the last
// thing the caller does (or is deferred by it). A phase without a result that is called in the
// middle of its caller cannot make it leave: its `return` goes back into the caller's loop
// (fifth audit: the start branch of the websocket handler as a no-result method).
func (r *Run) terminates(fn *ssa.Function, depth int) (string, bool) {
	if reason, ok := terminateTable[fnName(fn)]; ok {
		return reason, true
	}
	// a phase may hand back one boolean ("keep serving?") that its caller branches on to leave
	statusResult := fn.Signature.Results().Len() == 1 && types.Identical(fn.Signature.Results().At(0).Type().Underlying(), types.Typ[types.Bool])
	if depth > 3 || (fn.Signature.Results().Len() != 0 && !statusResult) {
		return "", false
	}
	reason, callers := "", 0
	for _, e := range r.P.CG.In[fn] {
		if e.Kind == "param" {
			continue
		}
		if _, spawned := e.Site.(*ssa.Go); spawned {
			return "", false // a new goroutine does not end its spawner's connection by returning
		}
		if statusResult {
			call, ok := e.Site.(*ssa.Call)
			leaves := false
			if ok && call.Referrers() != nil {
				var conds []ssa.Value
				for _, ref := range *call.Referrers() {
					if u, ok := ref.(*ssa.UnOp); ok && u.Op == token.NOT {
						conds = append(conds, u)
					}
				}
				conds = append(conds, call)
				for _, c := range conds {
					for _, ref := range *c.Referrers() {
						iff, ok := ref.(*ssa.If)
						if !ok {
							continue
						}
						for _, sb := range iff.Block().Succs {
							if len(sb.Instrs) > 0 {
								if _, isRet := sb.Instrs[len(sb.Instrs)-1].(*ssa.Return); isRet && len(sb.Instrs) <= 2 {
									leaves = true
								}
							}
						}
					}
				}
			}
			if !leaves {
				return "", false
			}
		} else if _, deferred := e.Site.(*ssa.Defer); !deferred && !lastEffect(e.Caller, e.Site) {
			return "", false // the caller goes on after the call whatever happened in it
		}
		why, ok := r.terminates(e.Caller, depth+1)
		if !ok {
			return "", false
		}
		callers++
		reason = why + " (phase of " + fnName(e.Caller) + ")"
	}
	return reason, callers > 0
}

// predIf: the block that ends in the If whose successor is b (b has that single predecessor).
func predIf(b *ssa.BasicBlock) *ssa.BasicBlock {
	if b == nil || len(b.Preds) != 1 {
		return nil
	}
	p := b.Preds[0]
	if len(p.Instrs) == 0 {
		return nil
	}
	if _, ok := p.Instrs[len(p.Instrs)-1].(*ssa.If); ok {
		return p
	}
	return nil
}
