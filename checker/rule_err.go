package main

// R6 — ERR: error flow (DESIGN §3 R6).
//
// For every error-like value (error, gqlerrors.ErrorList, *gqlerrors.Error, gqlerror.List)
// produced by a call in the scope:
//   drop      the value is never looked at (blank, unused, `go f()`)               → violation
//   swallow   the value is tested, and on the failure side execution re-joins the   → violation
//             success path, or the function returns a nil error / no error at all,
//             without the value (or something computed from it) having been
//             returned, stored, sent or passed on
// Deliberate instances are frozen in errTable with a reason; callees that provably never
// fail discharge their drops automatically.

import (
	"fmt"
	"go/token"
	"go/types"
	"sort"
	"strings"

	"golang.org/x/tools/go/ssa"
)

type errSource struct {
	val  ssa.Value // the error-like value
	call ssa.CallInstruction
	desc string
}

// errSources lists the error-like results of calls in fn; unusedCalls are calls with an
// error-like result that is never extracted/used.
func errSources(fn *ssa.Function) (srcs []errSource, dropped []errSource) {
	for _, ins := range allInstrs(fn) {
		ci, ok := ins.(ssa.CallInstruction)
		if !ok {
			continue
		}
		c := ci.Common()
		sig := c.Signature()
		if sig == nil {
			continue
		}
		res := sig.Results()
		var errIdx []int
		for i := 0; i < res.Len(); i++ {
			if isErrorish(res.At(i).Type()) {
				errIdx = append(errIdx, i)
			}
		}
		if len(errIdx) == 0 {
			continue
		}
		desc := calleeDesc(c)
		call, isCall := ins.(*ssa.Call)
		if !isCall {
			// go f() / defer f(): results are discarded
			dropped = append(dropped, errSource{nil, ci, desc})
			continue
		}
		if res.Len() == 1 {
			if refs := call.Referrers(); refs == nil || len(*refs) == 0 {
				dropped = append(dropped, errSource{nil, ci, desc})
			} else {
				srcs = append(srcs, errSource{call, ci, desc})
			}
			continue
		}
		for _, i := range errIdx {
			var ex *ssa.Extract
			for _, ref := range *call.Referrers() {
				if e, ok := ref.(*ssa.Extract); ok && e.Index == i {
					ex = e
				}
			}
			if ex == nil || ex.Referrers() == nil || len(*ex.Referrers()) == 0 {
				dropped = append(dropped, errSource{nil, ci, desc})
			} else {
				srcs = append(srcs, errSource{ex, ci, desc})
			}
		}
	}
	return
}

func calleeDesc(c *ssa.CallCommon) string {
	if c.IsInvoke() {
		return namedOfShort(c.Value.Type()) + "." + c.Method.Name()
	}
	if n := calleeName(c); n != "" {
		n = strings.ReplaceAll(n, modPath+"/", "")
		n = strings.ReplaceAll(n, "github.com/vektah/gqlparser/v2/", "gqlparser/")
		n = strings.ReplaceAll(n, "github.com/gobwas/ws/", "ws/")
		n = strings.ReplaceAll(n, "github.com/samber/", "")
		return n
	}
	return "dynamic call of " + shortType(c.Value.Type())
}

func namedOfShort(t types.Type) string {
	n := namedOf(t)
	n = strings.ReplaceAll(n, modPath+"/", "")
	if n == "" {
		return shortType(t)
	}
	return n
}

// neverFails: every return of the (module) callee yields a nil constant for the error-like
// result at index i. For AsyncMapReduce the error list is nil iff the map function never fails.
// documentedInfallible: library writers whose documentation states that the returned error is
// always nil (strings.Builder: "always returns a nil error"; bytes.Buffer: "err is always nil";
// hash.Hash: "It never returns an error").
var documentedInfallible = map[string]bool{
	"(*strings.Builder).WriteString": true, "(*strings.Builder).WriteByte": true, "(*strings.Builder).WriteRune": true, "(*strings.Builder).Write": true,
	"(*bytes.Buffer).WriteString": true, "(*bytes.Buffer).WriteByte": true, "(*bytes.Buffer).WriteRune": true, "(*bytes.Buffer).Write": true,
}

func (r *Run) neverFails(site ssa.CallInstruction, depth int) bool {
	if depth > 3 {
		return false
	}
	if documentedInfallible[calleeName(site.Common())] {
		return true
	}
	if c := site.Common(); c.IsInvoke() && c.Method.Name() == "Write" {
		switch namedOf(c.Value.Type()) {
		case "hash.Hash", "hash.Hash32", "hash.Hash64":
			return true // "It never returns an error."
		}
	}
	callees := []*ssa.Function{}
	for _, e := range r.P.CG.Out[site.Parent()] {
		if e.Site == site && (e.Kind == "static" || e.Kind == "invoke" || e.Kind == "dynamic") {
			callees = append(callees, e.Callee)
		}
	}
	if len(callees) == 0 {
		return false
	}
	for _, cal := range callees {
		if fnName(cal) == "common.AsyncMapReduce" {
			// errors only come from mapFunc (R1/A2,A4,A8)
			args := site.Common().Args
			if len(args) != 4 {
				return false
			}
			fs, unk := r.P.CG.funcValues(args[2], map[ssa.Value]bool{})
			if unk != "" || len(fs) == 0 {
				return false
			}
			for _, f := range fs {
				if !r.returnsNilErr(f, depth+1) {
					return false
				}
			}
			continue
		}
		if !r.returnsNilErr(cal, depth+1) {
			return false
		}
	}
	return true
}

func (r *Run) returnsNilErr(fn *ssa.Function, depth int) bool {
	rets := returnsOf(fn)
	if len(rets) == 0 {
		return false
	}
	for _, ret := range rets {
		for i, res := range retVals(ret) {
			if !isErrorish(fn.Signature.Results().At(i).Type()) {
				continue
			}
			if !isNilConst(unwrap(res)) {
				return false
			}
		}
	}
	return true
}

// uses of v (or of values computed from v inside the block walk) that count as "handled".
func handlesErr(ins ssa.Instruction, tainted map[ssa.Value]bool) bool {
	uses := func(v ssa.Value) bool { return v != nil && tainted[v] }
	switch x := ins.(type) {
	case *ssa.Return:
		for _, res := range retVals(x) {
			if uses(res) {
				return true
			}
		}
	case *ssa.Store:
		return uses(x.Val)
	case *ssa.Send:
		return uses(x.X)
	case *ssa.MapUpdate:
		return uses(x.Value)
	case ssa.CallInstruction:
		// a predicate over the error (errors.Is / errors.As / a module function that returns
		// only a bool) classifies it; it does not report it
		if isErrPredicate(x.Common()) {
			return false
		}
		for _, a := range x.Common().Args {
			if uses(a) {
				// passing the error to a call: logging/formatting/reporting. Pure formatting whose
				// result is discarded would still count; such callee results are tainted too, and
				// an unused result does not re-handle anything, which is acceptable here.
				return true
			}
		}
	}
	return false
}

// isErrPredicate: the call only asks a yes/no question (its single result is a bool).
func isErrPredicate(c *ssa.CallCommon) bool {
	res := c.Signature().Results()
	if res == nil || res.Len() != 1 {
		return false
	}
	b, ok := res.At(0).Type().Underlying().(*types.Basic)
	return ok && b.Kind() == types.Bool
}

// taintFrom computes the values derived from v within fn (through operands).
func taintFrom(v ssa.Value) map[ssa.Value]bool {
	t := map[ssa.Value]bool{v: true}
	changed := true
	fn := v.Parent()
	if fn == nil {
		return t
	}
	for changed {
		changed = false
		for _, ins := range allInstrs(fn) {
			val, ok := ins.(ssa.Value)
			if !ok || t[val] {
				continue
			}
			for _, op := range operandsOf(ins) {
				if t[op] {
					// a comparison result is not "the error"
					if bo, isBin := ins.(*ssa.BinOp); isBin && (bo.Op == token.EQL || bo.Op == token.NEQ || bo.Op == token.GTR || bo.Op == token.LSS) {
						break
					}
					if c, isCall := ins.(*ssa.Call); isCall {
						if b, isB := c.Call.Value.(*ssa.Builtin); isB && b.Name() == "len" {
							break
						}
						if isErrPredicate(&c.Call) {
							break
						}
					}
					t[val] = true
					changed = true
					break
				}
			}
		}
	}
	return t
}

// failureTests finds the Ifs that separate failure from success for v and returns, for
// each, the failure successor and the success successor.
type errTest struct {
	iff      *ssa.If
	fail, ok *ssa.BasicBlock
}

func failureTests(v ssa.Value) []errTest {
	var out []errTest
	fn := v.Parent()
	isV := func(x ssa.Value) bool { return unwrap(x) == v || x == v }
	for _, ins := range allInstrs(fn) {
		iff, ok := ins.(*ssa.If)
		if !ok {
			continue
		}
		bo, ok := iff.Cond.(*ssa.BinOp)
		if !ok {
			continue
		}
		s := iff.Block().Succs
		switch {
		case isV(bo.X) && isNilConst(bo.Y), isV(bo.Y) && isNilConst(bo.X):
			if bo.Op == token.NEQ {
				out = append(out, errTest{iff, s[0], s[1]})
			} else if bo.Op == token.EQL {
				out = append(out, errTest{iff, s[1], s[0]})
			}
		default:
			// len(v) > 0, len(v) != 0, len(v) == 0
			lenOfV := func(x ssa.Value) bool {
				c, ok := x.(*ssa.Call)
				if !ok {
					return false
				}
				b, ok := c.Call.Value.(*ssa.Builtin)
				return ok && b.Name() == "len" && isV(c.Call.Args[0])
			}
			if lenOfV(bo.X) && isIntConst(bo.Y, 0) {
				switch bo.Op {
				case token.GTR, token.NEQ:
					out = append(out, errTest{iff, s[0], s[1]})
				case token.EQL:
					out = append(out, errTest{iff, s[1], s[0]})
				}
			}
		}
	}
	return out
}

// swallowed walks the failure side and reports a path on which the error is neither
// handled nor the function left with a non-nil error.
func (r *Run) swallowed(v ssa.Value, t errTest) (bool, string) {
	return r.swallowedWith(v, t, nil)
}

// swallowedWith additionally treats `carrier` (e.g. the response object that contains the
// error list) as carrying the error.
func (r *Run) swallowedWith(v ssa.Value, t errTest, carrier ssa.Value) (bool, string) {
	fn := v.Parent()
	tainted := taintFrom(v)
	if carrier != nil {
		for k := range taintFrom(carrier) {
			tainted[k] = true
		}
	}
	okReach := blockReach(t.ok)
	okReach[t.ok] = true
	hasErrResult := false
	for i := 0; i < fn.Signature.Results().Len(); i++ {
		if isErrorish(fn.Signature.Results().At(i).Type()) {
			hasErrResult = true
		}
	}
	// the value was already handed on before it is tested (`errCh <- err; if err != nil { return }`):
	// a hand-over that every path to the test passes through reports the failure as well
	if iffBlock := predIf(t.fail); iffBlock != nil {
		for _, b := range fn.Blocks {
			if b != iffBlock && !b.Dominates(iffBlock) {
				continue
			}
			for _, ins := range b.Instrs {
				// a send or a call only: a store before the test is usually the variable's own cell
				_, isSend := ins.(*ssa.Send)
				_, isCall := ins.(ssa.CallInstruction)
				if (isSend || isCall) && handlesErr(ins, tainted) {
					return false, ""
				}
			}
		}
	}
	seen := map[*ssa.BasicBlock]bool{}
	var why string
	var walk func(b *ssa.BasicBlock, first bool) bool // returns true when a swallowing path exists
	walk = func(b *ssa.BasicBlock, first bool) bool {
		if seen[b] {
			return false
		}
		seen[b] = true
		if !first && okReach[b] && !t.fail.Dominates(b) {
			// re-joined the success path (merge block or loop header) without handling
			why = "execution continues at " + r.P.pos(firstPos(b)) + " as if the call had succeeded"
			return true
		}
		for _, ins := range b.Instrs {
			if handlesErr(ins, tainted) {
				return false
			}
			if ret, ok := ins.(*ssa.Return); ok {
				if !hasErrResult {
					why = "the function returns at " + r.P.pos(retPos(ret)) + " and has no error result: the failure is invisible to its caller"
					return true
				}
				for i, res := range retVals(ret) {
					if isErrorish(fn.Signature.Results().At(i).Type()) && !isNilConst(unwrap(res)) {
						return false // some error is returned (a new one: propagation by replacement)
					}
				}
				why = "the function returns a nil error at " + r.P.pos(retPos(ret)) + " on the failure path"
				return true
			}
			if _, ok := ins.(*ssa.Panic); ok {
				return false
			}
		}
		for _, s := range b.Succs {
			if walk(s, false) {
				return true
			}
		}
		return false
	}
	if walk(t.fail, true) {
		return true, why
	}
	return false, ""
}

func firstPos(b *ssa.BasicBlock) token.Pos {
	for _, i := range b.Instrs {
		if i.Pos().IsValid() {
			return i.Pos()
		}
	}
	return token.NoPos
}

func retPos(ret *ssa.Return) token.Pos {
	if ret.Pos().IsValid() {
		return ret.Pos()
	}
	return firstPos(ret.Block())
}

type errScope struct {
	label string
	roots []string
	pkgs  []string
	min   int
}

func ruleErr(sc errScope) ruleFn {
	return func(r *Run) {
		set := r.scopeFuncs(panicScope{label: sc.label, roots: sc.roots, pkgs: sc.pkgs})
		var fns []*ssa.Function
		for _, fn := range r.P.Funcs {
			if fn.Synthetic == "" {
				fns = append(fns, fn)
			}
		}
		sort.Slice(fns, func(i, j int) bool { return fnName(fns[i]) < fnName(fns[j]) })
		n := 0
		defer func() { r.silent = false }()
		for _, fn := range fns {
			// out-of-scope functions are walked silently: see Run.add
			r.silent = !set[fn]
			name := fnName(fn)
			srcs, dropped := errSources(fn)
			for _, d := range dropped {
				if !r.silent {
					n++
				}
				construct := "drop " + d.desc
				site := r.P.pos(d.call.Pos())
				if r.neverFails(d.call, 0) {
					r.OK("R6.drop", name, construct, site, "callee provably never fails: every return of its error result is nil")
				} else if reason, ok := useTable(r, errTable, name+"/"+construct); ok {
					r.Tabled("R6.drop", name, construct, site, "err", reason)
				} else {
					r.Bad("R6.drop", name, construct, site, "the error result of "+d.desc+" is discarded: a failure there goes unnoticed")
				}
			}
			for _, s := range srcs {
				tests := failureTests(s.val)
				if len(tests) == 0 {
					// used without a test: returned, passed on, stored… — propagation
					if !r.silent {
						n++
					}
					r.OK("R6.flow", name, "use "+s.desc, r.P.pos(s.call.Pos()), "error value is used (returned/stored/passed on) without being filtered by a test")
					continue
				}
				for _, t := range tests {
					if !r.silent {
						n++
					}
					construct := "test " + s.desc
					site := r.P.pos(s.call.Pos())
					sw, why := r.swallowed(s.val, t)
					if !sw {
						r.OK("R6.flow", name, construct, site, "every path from the failure branch returns an error, reports it or hands it on")
						continue
					}
					if r.neverFails(s.call, 0) {
						r.OK("R6.flow", name, construct, site, "callee provably never fails")
						continue
					}
					if reason, ok := useTable(r, errTable, name+"/"+construct); ok {
						r.Tabled("R6.flow", name, construct, site, "err", reason)
						continue
					}
					if reason, ok := r.terminates(fn, 0); ok && strings.Contains(why, "has no error result") {
						r.Tabled("R6.flow", name, construct, site, "terminate", reason)
						continue
					}
					r.Bad("R6.flow", name, construct, site, fmt.Sprintf("failure of %s is detected at %s but then swallowed: %s", s.desc, r.P.pos(t.iff.Cond.Pos()), why))
				}
			}
		}
		r.silent = false
		r.AtLeast("R6", "error-like values in scope "+sc.label, n, sc.min)
	}
}

// terminates reports whether fn is a connection-owning function whose reaction to a failure
// is to end the connection: it is tabled as such, or it returns
// nothing and is called only from such functions (a phase split out of one).
func (r *Run) terminates(fn *ssa.Function, depth int) (string, bool) {
	if reason, ok := terminateTable[fnName(fn)]; ok {
		return reason, true
	}
	if depth > 3 || fn.Signature.Results().Len() != 0 {
		return "", false
	}
	reason, callers := "", 0
	for _, e := range r.P.CG.In[fn] {
		if e.Kind == "param" {
			continue
		}
		if _, spawned := e.Site.(*ssa.Go); spawned {
			return "", false // a new goroutine does not end its spawner's connection by returning
		}
		why, ok := r.terminates(e.Caller, depth+1)
		if !ok {
			return "", false
		}
		callers++
		reason = why + " (phase of " + fnName(e.Caller) + ")"
	}
	return reason, callers > 0
}

// predIf: the block that ends in the If whose successor is b (b has that single predecessor).
func predIf(b *ssa.BasicBlock) *ssa.BasicBlock {
	if b == nil || len(b.Preds) != 1 {
		return nil
	}
	p := b.Preds[0]
	if len(p.Instrs) == 0 {
		return nil
	}
	if _, ok := p.Instrs[len(p.Instrs)-1].(*ssa.If); ok {
		return p
	}
	return nil
}
